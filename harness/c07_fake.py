"""Fake asyncio transport and the two probes (a framer alone; a `MessageSession` on the fake
transport) shared by harness/c07.py and tools/facts/c07.py.  Only the library's public surface
is used: `BitcoinFramer(magic=, max_block_size=)`, the attribute `max_payload_size`,
`received_bytes`, `receive_message`, the three exception classes, `MessageSession`,
`handle_message`, `errors`, `RSTransport`.

`connection_lost` is delivered like real transports do it: through the loop, *after* `close()` /
`abort()` - at once (`lose=0`: `call_soon`, what asyncio does when its write buffer is empty),
after a delay (`lose=<seconds>`: unsent data still being flushed) or not before `abort()`
(`lose=None`: a peer that does not take the data)."""
import asyncio

FATAL = ('BadMagicError', 'OversizedPayloadError')
ERRS = ('BadMagicError', 'OversizedPayloadError', 'BadChecksumError')


class ProbeError(Exception):
    """the probe itself could not be set up on this tree (machinery, never a verdict)"""


class FakeTransport(asyncio.Transport):
    def __init__(self, lose=0):
        super().__init__()
        self.log = []
        self.written = []
        self.closing = False
        self.aborted = False
        self.reading = True
        self.protocol = None
        self.lost_delivered = False
        self.lose = lose

    def get_extra_info(self, name, default=None):
        return ('192.0.2.1', 8333) if name == 'peername' else default

    def write(self, data):
        self.written.append(bytes(data))
        self.log.append(('write', len(data)))

    def _lose(self):
        if not self.lost_delivered:
            self.lost_delivered = True
            self.protocol.connection_lost(None)

    def close(self):
        self.log.append(('close',))
        if not self.closing:
            self.closing = True
            loop = asyncio.get_event_loop()
            if self.lose is None:
                pass
            elif self.lose > 0:
                loop.call_later(self.lose, self._lose)
            else:
                loop.call_soon(self._lose)

    def abort(self):
        self.log.append(('abort',))
        self.aborted = True
        self.closing = True
        if not self.lost_delivered:
            asyncio.get_event_loop().call_soon(self._lose)

    def is_closing(self):
        return self.closing

    def pause_reading(self):
        self.reading = False
        self.log.append(('pause_reading',))

    def resume_reading(self):
        self.reading = True
        self.log.append(('resume_reading',))


def connect(rawsocket, session_factory, framer, kind, lose=0):
    """RSTransport wired to a FakeTransport; returns (protocol, fake, session)."""
    proto = rawsocket.RSTransport(session_factory, framer, kind)
    fake = FakeTransport(lose)
    fake.protocol = proto
    proto.connection_made(fake)
    return proto, fake, proto.session


def classify(framing, e):
    for name in ERRS:
        cls = getattr(framing, name, None)
        if isinstance(cls, type) and isinstance(e, cls):
            return ('E', name)
    return ('X', type(e).__name__)


def new_framer(framing, magic, mp, mb, default_class=False, base=None):
    """A framer with the given magic and limits.  The payload limit is set on the *instance*
    (works whether the library keeps it as a class or an instance attribute)."""
    cls = base or framing.BitcoinFramer
    if default_class:
        return cls()
    fr = cls(magic=magic, max_block_size=mb)
    fr.max_payload_size = mp
    return fr


async def recv_outcomes(framing, fr, chunks, mode=0, bound=None):
    """Successive `receive_message()` outcomes of framer `fr` fed `chunks`:
    ('M', cmd, payload) / ('E', class name) / ('X', other exception).
    mode 0: everything queued before the reader starts; 1: reader drains after each chunk;
    2: reader started first, chunks fed in pairs.  The reader is stopped when no task can run
    any more (virtual time only advances then)."""
    out = []
    if bound is None:
        bound = sum(len(c) for c in chunks) // 24 + 2

    async def reader():
        while True:
            if len(out) > bound:
                # more outcomes than headers fit in the stream: stop instead of spinning
                out.append(('X', 'Runaway'))
                return
            try:
                c, p = await fr.receive_message()
                out.append(('M', bytes(c), bytes(p)))
            except asyncio.CancelledError:
                raise
            except Exception as e:
                kind = classify(framing, e)
                out.append(kind)
                if kind[0] == 'X':
                    return

    task = None
    if mode != 0:
        task = asyncio.ensure_future(reader())
        await asyncio.sleep(0)
    for i, c in enumerate(chunks):
        fr.received_bytes(bytes(c))
        if mode == 1 or (mode == 2 and i % 2 == 1):
            for _ in range(3):
                await asyncio.sleep(0)
    if task is None:
        task = asyncio.ensure_future(reader())
    await asyncio.sleep(1e-6)
    task.cancel()
    try:
        await task
    except BaseException:
        pass
    return out


_limit_ok = {}


async def limit_takes_effect(framing):
    """Does setting `max_payload_size` on the instance really move the limit?  (If not, every
    small-limit case would silently run with the default limit: machinery trouble, not a
    verdict.)"""
    key = id(framing)
    if key not in _limit_ok:
        magic = bytes.fromhex('a1b2c3d4')
        res = []
        for mp, n in ((3, 3), (3, 4), (6, 6), (6, 7)):
            fr = new_framer(framing, magic, mp, 0)
            payload = bytes(n)
            import hashlib
            ck = hashlib.sha256(hashlib.sha256(payload).digest()).digest()[:4]
            s = magic + b'x'.ljust(12, b'\0') + n.to_bytes(4, 'little') + ck + payload
            out = await recv_outcomes(framing, fr, [s])
            res.append(bool(out) and out[0][0] == 'E' and out[0][1] == 'OversizedPayloadError')
        _limit_ok[key] = (res == [False, True, False, True])
    return _limit_ok[key]


async def sess_observe(mods, framer, chunks, kind='client', lose=0, mode=0, events=None):
    """Feed `chunks` to a MessageSession (on the fake transport) that uses `framer`; returns
    {'fed', 'delivered', 'errors', 'closed', 'log'}.  A transport that is closing delivers no
    more data, so feeding stops there; `fed` = the chunks that were delivered."""
    framing, session, rawsocket = mods
    delivered = []

    class Sess(session.MessageSession):
        async def handle_message(self, message):
            delivered.append((bytes(message[0]), bytes(message[1])))

    k = session.SessionKind.CLIENT if kind == 'client' else session.SessionKind.SERVER
    proto, fake, sess = connect(rawsocket, Sess, framer, k, lose)
    fed = []
    for i, c in enumerate(chunks):
        if fake.closing:
            break                      # a closed transport delivers no more data
        proto.data_received(bytes(c))
        fed.append(bytes(c))
        if mode == 1 or (mode == 2 and i % 2 == 1):
            await asyncio.sleep(0.01)
    await asyncio.sleep(1.0)
    obs = {'fed': fed, 'delivered': list(delivered), 'errors': sess.errors,
           'closed': bool(fake.closing), 'log': [x[0] for x in fake.log]}
    if events is not None:
        obs['events'] = list(events)
    try:
        fake.abort()
        await asyncio.sleep(0.01)
    except Exception:
        pass
    return obs
