"""Minimal fake asyncio transport for the C07 session runs: records what the protocol does to
it and, like real transports, delivers `connection_lost` through `loop.call_soon` after
`close()` / `abort()`."""
import asyncio


class FakeTransport(asyncio.Transport):
    def __init__(self):
        super().__init__()
        self.log = []
        self.written = []
        self.closing = False
        self.aborted = False
        self.reading = True
        self.protocol = None
        self.lost_delivered = False

    def get_extra_info(self, name, default=None):
        return ('192.0.2.1', 8333) if name == 'peername' else default

    def write(self, data):
        self.written.append(bytes(data))
        self.log.append(('write', len(data)))

    def _lose(self):
        if not self.lost_delivered:
            self.lost_delivered = True
            self.protocol.connection_lost(None)

    def close(self):
        self.log.append(('close',))
        if not self.closing:
            self.closing = True
            asyncio.get_event_loop().call_soon(self._lose)

    def abort(self):
        self.log.append(('abort',))
        self.aborted = True
        if not self.closing:
            self.closing = True
            asyncio.get_event_loop().call_soon(self._lose)

    def is_closing(self):
        return self.closing

    def pause_reading(self):
        self.reading = False
        self.log.append(('pause_reading',))

    def resume_reading(self):
        self.reading = True
        self.log.append(('resume_reading',))


def connect(rawsocket, session_factory, framer, kind):
    """RSTransport wired to a FakeTransport; returns (protocol, fake, session)."""
    proto = rawsocket.RSTransport(session_factory, framer, kind)
    fake = FakeTransport()
    fake.protocol = proto
    proto.connection_made(fake)
    return proto, fake, proto.session
