"""Python twin of lean/Aiorpcx/Common/JWire.lean: line-safe prefix encoding of JSON-shaped
Python values (None, bool, int, float, str incl. lone surrogates, list/tuple, dict with str keys).

    n | t | f | i<dec> | d<m>p<e> | dz | dinf | dninf | dnan | s<hex cp>.<hex cp>… | [<k> … | {<k> k v …
"""
import math

# NOTE: never touch sys.set_int_max_str_digits here: the code under test runs in this interpreter
# and CPython's 4300-digit limit is part of the behaviour being checked (C05, F6).  Every int
# that json.loads returns, and every int the generators make, is below the limit.


class NotJ(TypeError):
    pass


def float_tok(x):
    if x != x:
        return 'dnan'
    if x in (math.inf, -math.inf):
        return 'dinf' if x > 0 else 'dninf'
    if x == 0:
        return 'dz' if math.copysign(1.0, x) < 0 else 'd0p0'
    n, d = x.as_integer_ratio()
    e = -(d.bit_length() - 1)
    while n % 2 == 0:
        n //= 2
        e += 1
    return f'd{n}p{e}'


def str_tok(s):
    return 's' + '.'.join(format(ord(c), 'x') for c in s)


def _enc(v, out):
    """iterative (values nested ~1500 deep come back from json.loads)"""
    stack = [v]
    while stack:
        v = stack.pop()
        if v is None:
            out.append('n')
        elif v is True:
            out.append('t')
        elif v is False:
            out.append('f')
        elif type(v) is _Tok:
            out.append(v.t)
        elif type(v) is int:
            out.append('i' + str(v))
        elif type(v) is float:
            out.append(float_tok(v))
        elif type(v) is str:
            out.append(str_tok(v))
        elif type(v) in (list, tuple):
            out.append('[' + str(len(v)))
            stack.extend(reversed(v))
        elif type(v) is dict:
            out.append('{' + str(len(v)))
            for k, x in reversed(list(v.items())):
                if type(k) is not str:
                    raise NotJ(f'dict key {k!r}')
                stack.append(x)
                stack.append(_Tok(str_tok(k)))
        else:
            raise NotJ(repr(type(v)))


class _Tok:
    __slots__ = ('t',)

    def __init__(self, t):
        self.t = t


def enc(v):
    """value -> token string (tuples are encoded as lists)"""
    out = []
    _enc(v, out)
    return ' '.join(out)


def _dec(toks, i):
    t = toks[i]
    c = t[0]
    if t == 'n':
        return None, i + 1
    if t == 't':
        return True, i + 1
    if t == 'f':
        return False, i + 1
    if c == 'i':
        return int(t[1:]), i + 1
    if c == 'd':
        r = t[1:]
        if r == 'z':
            return -0.0, i + 1
        if r == 'inf':
            return math.inf, i + 1
        if r == 'ninf':
            return -math.inf, i + 1
        if r == 'nan':
            return math.nan, i + 1
        m, e = r.split('p')
        return math.ldexp(int(m), int(e)), i + 1
    if c == 's':
        return ('' if len(t) == 1 else ''.join(chr(int(h, 16)) for h in t[1:].split('.'))), i + 1
    if c == '[':
        k = int(t[1:])
        out = []
        i += 1
        for _ in range(k):
            x, i = _dec(toks, i)
            out.append(x)
        return out, i
    if c == '{':
        k = int(t[1:])
        out = {}
        i += 1
        for _ in range(k):
            key, i = _dec(toks, i)
            x, i = _dec(toks, i)
            out[key] = x
        return out, i
    raise ValueError(f'bad token {t!r}')


def dec(s):
    toks = s.split()
    v, i = _dec(toks, 0)
    if i != len(toks):
        raise ValueError('trailing tokens')
    return v


def dec_prefix(toks, i=0):
    """decode one value starting at toks[i]; returns (value, next index)"""
    return _dec(toks, i)


def same(a, b):
    """structural identity at the J level: type-exact (True is not 1, 1 is not 1.0), NaN equals
    NaN, -0.0 differs from 0.0, dict order matters, tuple == list.  (Iterative: via `enc`.)"""
    if a is b:
        return True
    try:
        return enc(a) == enc(b)
    except NotJ:
        return False
