"""A scripted stand-in for an asyncio transport, and helpers to put a real aiorpcx transport
protocol (RSTransport / USTransport) + session on top of it.

What it mirrors of real asyncio transports (the assumed runtime laws, see DESIGN.md §4):
  * `close()` / `abort()` make `is_closing()` true at once and deliver `connection_lost(None)`
    to the protocol via `loop.call_soon` (exactly once);
  * `write()` after closing is ignored;
  * `pause_writing()` is called *from inside* `write()` when the scripted high-water policy says
    so (that is the only place asyncio calls it); `resume_writing()` is called by the harness;
  * `pause_reading()` / `resume_reading()` are recorded.
Everything is logged with the loop's (virtual) time.
"""
import asyncio


class FakeTransport(asyncio.Transport):
    def __init__(self, loop=None, peername=('1.2.3.4', 5)):
        super().__init__()
        self.loop = loop or asyncio.get_event_loop()
        self.proto = None
        self.peername = peername
        self.closing = False
        self.aborted = False
        self.lost_delivered = False
        self.reading = True
        self.out = []                 # byte strings handed to write(), in order
        self.log = []                 # (time, event, ...) records
        # high-water script: one entry consumed per write(); True = the send buffer is now full
        self.pause_script = []
        self.paused_writing = False
        self.write_hook = None        # optional callable(data) run inside write()
        # a slow peer: bytes written stay in the send buffer for `drain_delay` (virtual) seconds
        # before they are "on the wire" (self.out); close() flushes the buffer before the
        # connection is lost, abort() discards it - as real asyncio transports do
        self.drain_delay = None
        self.buffer = []
        self.discarded = []
        # a stalled peer (C15): with `hold` set, whatever is written stays unsent in `buffer`
        # until the harness calls release(); close() then stays pending (is_closing() true, no
        # connection_lost) as long as the buffer is non-empty, abort()/drop() discard it
        self.hold = False

    # ---- asyncio.Transport API used by aiorpcx
    def get_extra_info(self, name, default=None):
        return self.peername if name == 'peername' else default

    def is_closing(self):
        return self.closing

    def write(self, data):
        if self.closing:
            self.log.append((self.loop.time(), 'write-after-close', bytes(data)))
            return
        if self.hold:
            self.buffer.append(bytes(data))
        elif self.drain_delay:
            self.buffer.append(bytes(data))
            self.loop.call_later(self.drain_delay, self._drain_one)
        else:
            self.out.append(bytes(data))
        self.log.append((self.loop.time(), 'write', bytes(data), self.paused_writing))
        if self.write_hook:
            self.write_hook(data)
        if self.pause_script:
            if self.pause_script.pop(0) and not self.paused_writing:
                self.paused_writing = True
                self.log.append((self.loop.time(), 'pause_writing'))
                self.proto.pause_writing()

    def _drain_one(self):
        if self.buffer:
            self.out.append(self.buffer.pop(0))
        if self.closing and not self.buffer and not self.lost_delivered:
            self.loop.call_soon(self._deliver_lost)

    def release(self):
        """the peer consumed everything that was unsent (see `hold`); a pending graceful close
        completes"""
        self.out += self.buffer
        self.buffer = []
        if self.closing and not self.lost_delivered:
            self.loop.call_soon(self._deliver_lost)

    def _lose(self, flush=False):
        """flush=True: graceful close - the connection is lost once the buffer has drained"""
        first = not self.closing
        self.closing = True
        if flush and self.buffer:
            return
        if not flush and self.buffer:
            self.discarded += self.buffer
            self.buffer = []
        if first or not self.lost_delivered:
            self.loop.call_soon(self._deliver_lost)

    def _deliver_lost(self):
        if not self.lost_delivered:
            self.lost_delivered = True
            self.log.append((self.loop.time(), 'connection_lost'))
            self.proto.connection_lost(None)

    def close(self):
        self.log.append((self.loop.time(), 'close'))
        self._lose(flush=True)

    def abort(self):
        self.log.append((self.loop.time(), 'abort'))
        self.aborted = True
        self._lose()

    def pause_reading(self):
        self.reading = False
        self.log.append((self.loop.time(), 'pause_reading'))

    def resume_reading(self):
        self.reading = True
        self.log.append((self.loop.time(), 'resume_reading'))

    # ---- what the harness (playing the OS / the peer) does
    def feed(self, data):
        """bytes arrive from the peer"""
        if not self.lost_delivered:
            self.proto.data_received(data)

    def drop(self):
        """the link is lost / the peer closed"""
        self.log.append((self.loop.time(), 'link-drop'))
        self._lose()

    def env_pause(self):
        """send buffer full, signalled outside of a write (the harness allows it although
        asyncio only does it inside write())"""
        if not self.paused_writing:
            self.paused_writing = True
            self.log.append((self.loop.time(), 'pause_writing'))
            self.proto.pause_writing()

    def env_resume(self):
        if self.paused_writing:
            self.paused_writing = False
            self.log.append((self.loop.time(), 'resume_writing'))
            self.proto.resume_writing()


def make(repo_modules, session_factory, kind='server', framer=None, transport='rs'):
    """Create protocol + fake transport + session.  `repo_modules` = dict with the freshly
    imported aiorpcx modules (rawsocket, unixsocket, session)."""
    SessionKind = repo_modules['session'].SessionKind
    k = SessionKind.SERVER if kind == 'server' else SessionKind.CLIENT
    if transport == 'rs':
        proto = repo_modules['rawsocket'].RSTransport(session_factory, framer, k)
    else:
        proto = repo_modules['unixsocket'].USTransport(session_factory, framer, k)
    t = FakeTransport()
    t.proto = proto
    proto.connection_made(t)
    return proto, t, proto.session


class TimeShim:
    """stands in for the `time` module inside aiorpcx.session: time() = the loop's clock"""
    def __init__(self, loop):
        self._loop = loop

    def time(self):
        return self._loop.time()


def import_all(repo):
    from tools.facts.common import fresh_import
    mods = {}
    for name in ('curio', 'framing', 'jsonrpc', 'session', 'rawsocket', 'unixsocket', 'util'):
        mods[name] = fresh_import(repo, 'aiorpcx.' + name)
    return mods
