"""C06 correspondence + search: real `NewlineFramer` vs the Lean model (`drv_c06`), and the
property oracle (written from the property text, independent of the model) on every
implementation trace."""
import asyncio
import itertools
import re
import os
from functools import lru_cache
from multiprocessing import Pool

from harness import vloop
from harness.base import Results
from tools.facts.common import fresh_import

NL = 10


# ---------------------------------------------------------------- implementation side
async def _impl_case(framing, max_size, chunks, mode):
    """mode 0: everything queued before the reader starts; 1: reader drains after each chunk;
    2: reader started first, chunks fed in pairs."""
    # None: the constructor's default limit
    fr = framing.NewlineFramer() if max_size is None else framing.NewlineFramer(max_size)
    out = []
    # many cases share one virtual loop and none of them lets virtual time pass: the loop's
    # livelock guard counts per case, not per batch
    asyncio.get_event_loop()._spin = 0

    bound = sum(len(c) for c in chunks) + len(chunks) + 4

    async def reader():
        while True:
            if len(out) > bound:
                # more outcomes than the stream has bytes and chunks: stop instead of spinning
                out.append(('X', 'Runaway'))
                return
            try:
                out.append(('M', bytes(await fr.receive_message())))
            except MemoryError:
                out.append(('E',))
            except asyncio.CancelledError:
                raise
            except Exception as e:      # noqa - not part of the contract: an outcome, judged below
                out.append(('X', type(e).__name__))

    async def settle():
        for _ in range(3):
            await asyncio.sleep(0)

    async def quiesce():
        # virtual time advances only when no task can run: the reader has taken all it can
        await asyncio.sleep(1e-6)

    task = None
    if mode != 0:
        task = asyncio.ensure_future(reader())
        await settle()
    for i, c in enumerate(chunks):
        fr.received_bytes(bytes(c))
        if mode == 1 or (mode == 2 and i % 2 == 1):
            await settle()
    if task is None:
        task = asyncio.ensure_future(reader())
    await quiesce()
    task.cancel()
    try:
        await task
    except asyncio.CancelledError:
        pass
    return out


async def _cancel_probe(framing):
    """Informational only (the property text does not speak about cancellation): `ab` arrives,
    the waiting receive_message() is cancelled, a new call is made, `c\\n` arrives.  Returns what
    the second call delivered."""
    fr = framing.NewlineFramer(0)
    t = asyncio.ensure_future(fr.receive_message())
    fr.received_bytes(b'ab')
    await asyncio.sleep(1e-6)
    t.cancel()
    try:
        await t
    except asyncio.CancelledError:
        pass
    t = asyncio.ensure_future(fr.receive_message())
    fr.received_bytes(b'c\n')
    await asyncio.sleep(1e-6)
    if t.done() and not t.cancelled() and t.exception() is None:
        return bytes(t.result())
    t.cancel()
    try:
        await t
    except BaseException:
        pass
    return None


def _fmt_out(out):
    if not out:
        return '.'
    return ' '.join('E' if o[0] == 'E' else ('X:' + o[1] if o[0] == 'X' else 'M' + (o[1].hex() or '-'))
                    for o in out)


_RUN = re.compile(rb'(.)\1{15,}', re.S)


def enc_chunk(c):
    """hex, long runs of one byte written `xx*count`, parts joined by `+` (the driver's chunk
    syntax): megabyte chunks stay short on the model line and in a replay file"""
    c = bytes(c)
    if len(c) < 64:
        return c.hex() or '-'
    parts, pos = [], 0
    for m in _RUN.finditer(c):
        if m.start() > pos:
            parts.append(c[pos:m.start()].hex())
        parts.append(f'{c[m.start():m.start() + 1].hex()}*{m.end() - m.start()}')
        pos = m.end()
    if pos < len(c):
        parts.append(c[pos:].hex())
    return '+'.join(parts)


def dec_chunk(t):
    if t == '-':
        return b''
    out = b''
    for p in t.split('+'):
        h, _, n = p.partition('*')
        out += bytes.fromhex(h) * (int(n) if n else 1)
    return out


def _fmt_case(max_size, chunks):
    return f'{max_size} ' + ' '.join(enc_chunk(c) for c in chunks)


# ---------------------------------------------------------------- property oracle
def segments(stream):
    parts = bytes(stream).split(b'\n')
    return parts[:-1], parts[-1]


def newline_chunks(chunks):
    """for each newline of the stream, in order: the length of the chunk that carried it (= the
    final chunk of the segment that newline terminates)"""
    return [len(c) for c in chunks for _ in range(bytes(c).count(b'\n'))]


def oracle(max_size, chunks, out):
    """Returns None if the property holds on this trace, else a reason string."""
    for o in out:
        if o[0] == 'X':
            return (f'unexpected exception: receive_message raised {o[1]} (a call returns a '
                    'segment or signals a dropped one with MemoryError, nothing else)')
    stream = b''.join(bytes(c) for c in chunks)
    segs, rest = segments(stream)
    final = newline_chunks(chunks)

    def fits(n):
        return max_size == 0 or n <= max_size

    def explain(bounded):
        @lru_cache(None)
        def go(i, j):
            # segments i.. explained by outputs j..
            if i == len(segs):
                tail = out[j:]
                if any(o[0] != 'E' for o in tail):
                    return False
                return (not tail) or (not fits(len(rest)))
            if j < len(out) and out[j] == ('M', segs[i]) and go(i + 1, j + 1):
                # "a delivered message never exceeds the limit by more than its final chunk"
                if not bounded or fits(len(segs[i])) or len(segs[i]) <= max_size + final[i]:
                    return True
            if not fits(len(segs[i])):
                k = j
                while k < len(out) and out[k][0] == 'E':
                    k += 1
                    if go(i + 1, k):
                        return True
            return False
        return go(0, 0)

    if not explain(False):
        return ('outputs are not "each segment delivered whole once, or dropped entirely '
                '(>=1 MemoryError) only if over the limit, in order"')
    if not explain(True):
        return ('delivered message exceeds limit by more than its final chunk (the chunk that '
                'carried its newline)')
    return None


# ---------------------------------------------------------------- case generation
def all_chunkings(stream):
    n = len(stream)
    if n == 0:
        yield ()
        return
    for mask in range(1 << (n - 1)):
        chunks, start = [], 0
        for i in range(n - 1):
            if mask >> i & 1:
                chunks.append(stream[start:i + 1])
                start = i + 1
        chunks.append(stream[start:])
        yield tuple(chunks)


def exhaustive_cases(maxlen, limits):
    for n in range(0, maxlen + 1):
        for bits in itertools.product((97, NL), repeat=n):
            stream = bytes(bits)
            for ch in all_chunkings(stream):
                for lim in limits:
                    yield lim, ch


def random_case(rng):
    kind = rng.random()
    lim = rng.choice([0, 1, 2, 3, 5, 8, 13, 40, 100])
    if kind < 0.35:
        # framed messages around the limit, concatenated, cut anywhere
        msgs = []
        for _ in range(rng.randint(1, 6)):
            ln = max(0, (lim or 10) + rng.randint(-3, 4)) if rng.random() < 0.7 else rng.randint(0, 30)
            msgs.append(bytes(rng.choice(b'abcxyz\x00\xff\r') for _ in range(ln)))
        stream = b''.join(m + b'\n' for m in msgs)
        if rng.random() < 0.3:
            stream += bytes(rng.choice(b'ab') for _ in range(rng.randint(0, (lim or 5) + 3)))
    else:
        n = rng.randint(0, 60)
        stream = bytes(rng.choice(b'ab\n\n\rz\x00') for _ in range(n))
    chunks, i = [], 0
    while i < len(stream):
        r = rng.random()
        if r < 0.1:
            chunks.append(b'')
        step = 1 if r < 0.4 else rng.randint(1, max(1, (lim or 4) + 2))
        chunks.append(stream[i:i + step])
        i += step
    if rng.random() < 0.2:
        chunks.append(b'')
    return lim, tuple(chunks)


def big_cases(default_limit):
    """Deterministic (identical for every seed): segments of about a million bytes and of a few
    MB, cut into 2+ chunks, under limit 0 (= unlimited: every one must be delivered whole), under
    the constructor's default limit and under that number given explicitly (dropped iff the
    bytes buffered before the final chunk exceed it).  `None` stands for `NewlineFramer()`."""
    M = 1000000
    cases = []

    def seg(n):
        return b'x' + b'a' * (n - 2) + b'y'

    for lim in (0, None, default_limit):
        for n in (M - 1, M, M + 1, 2 * M + 500000):
            s = seg(n)
            half = n // 2
            cases.append((lim, (s[:half], s[half:], b'\n', b'bb\n')))        # newline in its own chunk
            cases.append((lim, (s[:half], s[half:] + b'\nbb\n')))            # newline in the final chunk
        s = seg(M + 1)
        cases.append((lim, (s[:400000], s[400000:800000], s[800000:] + b'\n', b'c', b'\n')))
        cases.append((lim, (b'q\n' + s[:600000], s[600000:], b'\nzz\n')))     # starts as a residual
    return cases


def corpus_cases(verif):
    path = os.path.join(verif, 'corpus', 'C06.txt')
    out = []
    if os.path.exists(path):
        for line in open(path):
            line = line.split('#')[0].strip()
            if not line:
                continue
            toks = line.split()
            out.append((int(toks[0]), tuple(b'' if t == '-' else bytes.fromhex(t) for t in toks[1:])))
    return out


# ---------------------------------------------------------------- workers
_framing = None


def _init(repo):
    global _framing
    _framing = fresh_import(repo, 'aiorpcx.framing')


def _run_batch(args):
    cases, modes = args

    async def go():
        res = []
        for idx, (lim, ch) in enumerate(cases):
            mode = modes[idx]
            res.append(await _impl_case(_framing, lim, ch, mode))
        return res
    return vloop.run(go())


def run_impl(ctx, cases, modes):
    n = len(cases)
    if n < 4000:
        _init(ctx.repo)
        return _run_batch((cases, modes))
    nproc = min(16, os.cpu_count() or 1)
    size = max(2000, n // (nproc * 4))
    jobs = [(cases[i:i + size], modes[i:i + size]) for i in range(0, n, size)]
    with Pool(nproc, initializer=_init, initargs=(ctx.repo,)) as pool:
        parts = pool.map(_run_batch, jobs)
    return [r for p in parts for r in p]


def evaluate(ctx, cases, modes, res):
    outs = run_impl(ctx, cases, modes)
    dflt = (ctx.facts or {}).get('default_max_size')
    dflt = dflt if isinstance(dflt, int) else 1000000
    eff = [dflt if l is None else l for l, _ in cases]     # None = `NewlineFramer()`
    model = ctx.model([_fmt_case(e, c) for e, (_, c) in zip(eff, cases)])
    for i, ((lim0, ch), out) in enumerate(zip(cases, outs)):
        lim = eff[i]
        got = _fmt_out(out)
        why = oracle(lim, ch, out)
        if why or (model is not None and model[i] != got):
            case = {'max_size': lim0, 'chunks': [enc_chunk(c) for c in ch],
                    'feed_mode': modes[i]}
            short = (lambda t: t if len(t) < 2000 else t[:1000] + f'...({len(t)} chars)...' + t[-200:])
            if why:
                res.violation('c06:' + why[:40], case, why, impl=short(got))
            if model is not None and model[i] != got:
                res.disagreement(case, short(got), short(model[i]))
        res.count('traces_with_memoryerror', any(o[0] == 'E' for o in out))
        res.count('messages_delivered', sum(o[0] == 'M' for o in out))
        res.count('delivered_over_limit (final-chunk clause exercised)',
                  sum(1 for o in out if lim and o[0] == 'M' and len(o[1]) > lim))
        res.count('cases_with_empty_chunk', any(len(c) == 0 for c in ch))
        if len(ch) >= 2 and any(NL in x for x in ch):
            res.nontrivial((lim, ch) if sum(map(len, ch)) < 4096 else (lim, _fmt_case(lim, ch)))
    res['evaluations'] += len(cases)
    return outs


RULE = ('case = (limit, chunk list); exhaustive over all streams on {a,\\n} up to the '
        'stated length x every chunking x limits 0..4, plus seeded random streams/'
        'chunkings (framed messages around the limit, empty and 1-byte chunks); '
        'three feeding schedules (all queued first / reader drains after every chunk / '
        'pairs); 30 fixed cases with segments of 1 MB - 1 .. 2.5 MB in 2+ chunks under limit 0, the '
        'default limit and that number given explicitly; non-trivial = at least 2 chunks and at least one newline; distinct = '
        'distinct (limit, chunks) tuples')


def run(ctx):
    res = Results()
    rng = ctx.rng
    # (a) corpus of minimised past failures first
    cc = corpus_cases(ctx.verif)
    if cc:
        evaluate(ctx, cc, [1] * len(cc), res)
    res['scopes']['corpus'] = len(cc)
    # (a') megabyte segments under limit 0 / the default limit: the same cases for every seed
    dflt = (ctx.facts or {}).get('default_max_size')
    big = big_cases(dflt if isinstance(dflt, int) and dflt > 0 else 1000000)
    evaluate(ctx, big, [i % 3 for i in range(len(big))], res)
    res['scopes']['megabyte_segments'] = len(big)
    # frame round trip via the real frame()
    _init(ctx.repo)
    fr = _framing.NewlineFramer(0)
    for _ in range(300):
        m = bytes(rng.choice(b'abc\x00\xfe') for _ in range(rng.randint(0, 20)))
        framed = fr.frame(m)
        if framed != m + b'\n':
            res.violation('c06:frame', {'message': m.hex()}, 'frame(m) is not m + newline',
                          impl=framed.hex())
    res['scopes']['frame_calls'] = 300
    # cancellation: outside the property (assumption in props/C06.json); recorded, not judged
    try:
        got = vloop.run(_cancel_probe(_framing))
        res.count('cancel_probe_truncated' if got == b'c' else
                  ('cancel_probe_whole' if got == b'abc' else 'cancel_probe_other'))
    except Exception:      # noqa
        res.count('cancel_probe_failed')
    # (b) generated
    ngen = (400000 if ctx.tier == 'thorough' else 60000) if ctx.deep else 5000
    gen = [random_case(rng) for _ in range(ngen)]
    modes = [rng.randrange(3) for _ in gen]
    outs = evaluate(ctx, gen, modes, res)
    res['scopes']['generated'] = ngen
    for (l, c), o in list(zip(gen, outs))[:3]:
        res.sample({'case': _fmt_case(l, c), 'impl': _fmt_out(o)})
    # (c) exhaustive small scopes, smallest first; stop growing once something failed
    limits = (0, 1, 2, 3, 4)
    maxlen = (10 if ctx.tier == 'thorough' else 9) if ctx.deep else 7
    done = -1
    for n in range(0, maxlen + 1):
        if res.failed and n > 5:
            break
        ex = [(lim, ch) for bits in itertools.product((97, NL), repeat=n)
              for ch in all_chunkings(bytes(bits)) for lim in limits]
        evaluate(ctx, ex, [i % 3 for i in range(len(ex))], res)
        done = n
    res['scopes']['exhaustive'] = {'alphabet': 'a,\\n', 'max_stream_len': done,
                                   'limits': list(limits), 'all_chunkings': True}
    return res.finish(RULE, exhaustive=(done == maxlen))


def replay(ctx, case):
    if 'case' in case and isinstance(case['case'], dict):
        case = case['case']
    res = Results()
    c = (case['max_size'], tuple(dec_chunk(x) for x in case['chunks']))
    evaluate(ctx, [c], [case.get('feed_mode', 1)], res)
    res.sample(case)
    return res.finish('replay of one recorded case')
