"""Helpers shared by the C13 / C14 / C20 harnesses: a fake asyncio transport, a session factory on
top of the real `RSTransport`, a virtual-time shim for `aiorpcx.session.time`, and a reusable
"step until idle" loop driver.  Nothing here knows about the models."""
import asyncio
import logging

from harness import vloop
from tools.facts.common import fresh_import


class FakeTransport(asyncio.Transport):
    """Records writes; `close`/`abort` deliver `connection_lost` via call_soon as real transports
    do.  The scripted peer reads `self.out`."""

    def __init__(self):
        super().__init__()
        self.out = []
        self.closing = False
        self.aborted = False
        self.proto = None
        self.on_write = None
        self.on_lost = None
        self.reading = True
        self.on_resume_reading = None

    def get_extra_info(self, name, default=None):
        return ('1.2.3.4', 5) if name == 'peername' else default

    def write(self, data):
        self.out.append(bytes(data))
        if self.on_write:
            self.on_write(bytes(data))

    def _lost(self):
        if not self.closing:
            self.closing = True
            if self.on_lost:
                self.on_lost()
            asyncio.get_event_loop().call_soon(self.proto.connection_lost, None)

    def close(self):
        self._lost()

    def abort(self):
        self.aborted = True
        self._lost()

    def is_closing(self):
        return self.closing

    def pause_reading(self):
        self.reading = False

    def resume_reading(self):
        self.reading = True
        if self.on_resume_reading:
            self.on_resume_reading()


class VTime:
    """Stand-in for the `time` module inside aiorpcx.session: `.time()` is the running loop's
    virtual clock (or a manual clock when no loop runs)."""

    def __init__(self):
        self.manual = 0.0
        self.loop = None
        # time.time() is a wall clock: nothing relates it to loop.time().  C20 sets a large offset
        # (a power of two, so that the dyadic virtual times stay exact) - code that feeds one
        # clock's value to the other then shows.
        self.offset = 0.0

    def time(self):
        if self.loop is not None:
            return self.offset + self.loop.time()
        return self.manual


class Env:
    """One imported copy of the repo's modules + a virtual loop that is reused across cases."""

    def __init__(self, repo):
        self.repo = repo
        self.session = fresh_import(repo, 'aiorpcx.session')
        self.rawsocket = fresh_import(repo, 'aiorpcx.rawsocket')
        self.jsonrpc = fresh_import(repo, 'aiorpcx.jsonrpc')
        self.curio = fresh_import(repo, 'aiorpcx.curio')
        self.framing = fresh_import(repo, 'aiorpcx.framing')
        logging.disable(logging.CRITICAL)
        self.vtime = VTime()
        self.session.time = self.vtime
        self.loop = None

    def new_loop(self):
        self.close_loop()
        self.loop = vloop.VLoop()
        asyncio.set_event_loop(self.loop)
        self.vtime.loop = self.loop
        return self.loop

    def close_loop(self):
        if self.loop is not None:
            try:
                for t in asyncio.all_tasks(self.loop):
                    t.cancel()
                self.idle()
            except BaseException:
                pass
            asyncio.set_event_loop(None)
            self.loop.close()
            self.loop = None
            self.vtime.loop = None

    def _due(self):
        loop = self.loop
        if loop._ready:
            return True
        for h in loop._scheduled[:1]:
            if not h._cancelled and h._when <= loop.time():
                return True
        return False

    def idle(self, limit=100000):
        """Run the loop until nothing is ready (virtual time does not advance)."""
        loop = self.loop
        loop._spin = 0
        for _ in range(limit):
            if not self._due():
                if not loop._scheduled or not loop._scheduled[0]._cancelled:
                    return
            loop.call_soon(loop.stop)
            loop.run_forever()
        raise vloop.Livelock('loop does not become idle')

    def advance(self, dt):
        """Advance virtual time by dt firing every timer on the way (the virtual selector jumps
        from timer to timer), then run to idle."""
        loop = self.loop
        self.idle()
        if dt > 0:
            loop.call_later(dt, loop.stop)
            loop.run_forever()
        self.idle()

    def make_session(self, session_cls, kind='server', framer=None):
        sk = self.session.SessionKind.SERVER if kind == 'server' else self.session.SessionKind.CLIENT
        proto = self.rawsocket.RSTransport(session_cls, framer, sk)
        t = FakeTransport()
        t.proto = proto
        proto.connection_made(t)
        return proto, t, proto.session


def find_incoming_limiter(session):
    """the limiter guarding the request handlers: by its usual name, else (the attribute was
    renamed) the first attribute that quacks like a limiter and is not the outgoing one"""
    def quacks(o):
        return hasattr(o, 'max_concurrent') and hasattr(o, 'set_target')
    c = getattr(session, '_incoming_concurrency', None)
    if quacks(c):
        return c
    found = [(k, v) for k, v in sorted(vars(session).items()) if quacks(v)]
    for k, v in found:
        if 'out' not in k.lower():
            return v
    return found[0][1] if found else None


def find_outgoing_limiter(session):
    def quacks(o):
        return hasattr(o, 'max_concurrent') and hasattr(o, 'set_target')
    c = getattr(session, '_outgoing_concurrency', None)
    if quacks(c):
        return c
    inc = find_incoming_limiter(session)
    found = [(k, v) for k, v in sorted(vars(session).items()) if quacks(v) and v is not inc]
    for k, v in found:
        if 'out' in k.lower():
            return v
    return found[0][1] if found else None
