"""C02, back-pressure layer: a real serving `RPCSession` on the library's stream transport
(`RSTransport`) over the scripted fake asyncio transport (harness/fake_transport.py), on the
virtual clock (harness/vloop.py, stepped by harness/rig.py).

A scenario fixes, for one received message (a single request / notification or a batch),
  * `pt`    the session's `processing_timeout`,
  * `dur`   how long the handler of each request member takes (virtual seconds; >= pt: the
            handler does not deliver in time, the member is `busy`),
  * `pause` / `resume`  the instants at which the socket send buffer becomes full
            (`pause_writing()`) and has room again (`resume_writing()`); `via` says how the
            buffer fills: 'write' = inside `transport.write()` of an unrelated earlier response
            (the only place asyncio does it), 'env' = signalled between writes.
  * `limit_at`  [(instant, value)..]: at these virtual instants `max_response_size` is changed
            while the members are suspended in `handle_request` - by another request's handler
            (`limvia` = 'handler': a `set_limit` request is fed to the session at that instant)
            or by the operator (`limvia` = 'attr': the public attribute is assigned).  The limit
            in force when a member's result is supplied (`lims` / `lim`, derived in `prepare`) is
            the last one set strictly before its handler returns; `max` is the one at receipt.
The instants are chosen so that the processing timeout of a member lands (a) while its handler
is still running, (b) after the handler delivered while the response is parked on the full send
buffer, (c) after the response was written - for single requests and for the final / a non-final
member of a batch.

Observed: every message written to the transport with its virtual time.  Judged by the same
oracles as the other layers (harness/c02.py: exactly one response / one batch response, only
when every member has its result, entries matched by id, and the entry of a member whose
handler delivered within the processing timeout carries that result); compared with the Lean
model: the `T` lines (one `_throttled_request` task per request member: which result its single
`send_result` call carries, whether a message is written) and the `B` / `S` line."""
import asyncio
import json
import logging

from harness import vloop
from harness.c02_util import PROTO_CLASS, id_token, resp_len, wire_bytes
from harness.rig import Rig

FILLER_ID = 990099
SETLIM_ID = 880088
PT = 10.0
DURS = (0, 2, 5, 12)
WINDOWS = ((1.5, 3.5), (1.5, 7.5), (1.5, 14.5), (3.5, 14.5), (6.5, 14.5), (11.5, 14.5))


def _c02():
    from harness import c02
    return c02


def durations(case):
    """{member index: handler duration} of the request members (harness-side classification)"""
    c02 = _c02()
    proto = case.get('inforce', case['proto'])
    members = [case['single']] if 'single' in case else case['members']
    return {m: case['dur'][m] for m, p in enumerate(members)
            if c02.classify_member(proto, p)[0] == 'req'}


def completion(case):
    """[(time the member's result is known, member)] in completion order; `busy` members are
    those whose handler has not delivered when the processing timeout fires"""
    pt = case['pt']
    return sorted((min(d, pt), m) for m, d in durations(case).items())


def run_case(repo, case):
    """returns {'writes': [(time, decoded message, bytes)], 'notifs': n, 'hang': ..}"""
    c02 = _c02()
    state = {'notifs': []}
    members = [case['single']] if 'single' in case else case['members']

    def maker(mods):
        jr, sess = mods['jsonrpc'], mods['session']
        proto = getattr(jr, PROTO_CLASS[case['proto']])
        errs = set(case.get('errs', ()))
        nerrs = set(case.get('nerrs', ()))

        class Server(sess.RPCSession):
            processing_timeout = case['pt']
            max_send_delay = 1e6          # a parked write never makes the session give up

            def default_connection(self):
                c = jr.JSONRPCConnection(proto)
                c.max_response_size = case['max']
                return c

            async def handle_request(self, request):
                if request.method == 'filler':
                    await asyncio.sleep(case['pause'])
                    return 'f'
                if request.method == 'set_limit':
                    self.connection.max_response_size = request.args[0]
                    return True
                m = request.args[0]
                if isinstance(request, jr.Notification):
                    state['notifs'].append(m)
                    if case['dur'][m]:
                        await asyncio.sleep(case['dur'][m])
                    if m in nerrs:
                        raise jr.RPCError(77, 'notification failed') if m % 2 == 0 else ValueError('boom')
                    return None
                d = case['dur'][m]
                if d > 0:
                    await asyncio.sleep(d)
                result, _ = c02.result_for(jr, m, m in errs)
                if isinstance(result, Exception):
                    raise result
                return result
        return Server

    logging.disable(logging.CRITICAL)
    rig = Rig(repo, maker)
    try:
        tr = rig.tr
        pause, resume, via = case.get('pause'), case.get('resume'), case.get('via', 'env')
        if pause is not None and via == 'write':
            style = case['proto'] if case['proto'] != 'auto' else 'v2'
            filler = {'method': 'filler', 'params': [], 'id': FILLER_ID}
            if style == 'v2':
                filler['jsonrpc'] = '2.0'
            rig.feed_json(filler)
        payload = case['single'] if 'single' in case else members
        rig.feed(wire_bytes(payload, case.get('raw')) + b'\n')
        events = []
        if pause is not None:
            if via == 'write':
                # the next write (the filler's response, at `pause`) finds the send buffer full
                events.append((pause - 0.05, lambda: setattr(tr, 'pause_script', [True])))
            else:
                events.append((pause, tr.env_pause))
            events.append((resume, lambda: (setattr(tr, 'pause_script', []), tr.env_resume())))
        for k, (t, lim) in enumerate(case.get('limit_at', ())):
            if case.get('limvia', 'handler') == 'attr':
                events.append((t, lambda lim=lim: setattr(rig.session.connection,
                                                          'max_response_size', lim)))
            else:
                style = case.get('inforce', case['proto'])
                msg = {'method': 'set_limit', 'params': [lim], 'id': SETLIM_ID + k}
                if style in ('v2', 'auto'):
                    msg['jsonrpc'] = '2.0'
                events.append((t, lambda msg=msg: rig.feed_json(msg)))
        end = max([case['pt'], resume or 0] + [d for d in case['dur'] if d is not None]) + 5
        events.append((end, lambda: None))
        for t, act in sorted(events, key=lambda e: e[0]):
            rig.advance_to(t)
            act()
            rig.idle()
        writes = []
        setlim = {}
        for rec in tr.log:
            if rec[1] != 'write':
                continue
            for line in rec[2].split(b'\n'):
                if not line:
                    continue
                try:
                    msg = json.loads(line)
                except ValueError:
                    msg = {'__undecodable__': line.decode('latin1')}
                if isinstance(msg, dict) and msg.get('id') == FILLER_ID:
                    continue
                if isinstance(msg, dict) and isinstance(msg.get('id'), int) \
                        and not isinstance(msg['id'], bool) \
                        and 0 <= msg['id'] - SETLIM_ID < len(case.get('limit_at', ())):
                    k = msg['id'] - SETLIM_ID
                    ok = c02.setlim_answer_ok(rig.mods['jsonrpc'], case.get('inforce', case['proto']),
                                              msg, msg['id'], case['limit_at'][k][1])
                    setlim[k] = setlim.get(k, 0) + (1 if ok else 100)
                    continue
                writes.append((rec[0], msg, len(line)))
        want = len(case.get('limit_at', ())) if case.get('limvia', 'handler') == 'handler' else 0
        return {'writes': writes, 'notifs': len(state['notifs']), 'paused_at_end': tr.paused_writing,
                'setlim_bad': len(setlim) != want or any(v != 1 for v in setlim.values())}
    except (vloop.Deadlock, vloop.Livelock) as e:
        return {'hang': type(e).__name__}
    finally:
        rig.close()
        logging.disable(logging.NOTSET)


def to_rec(jr, case, obs):
    """the record the oracles of harness/c02.py judge"""
    c02 = _c02()
    proto = case.get('inforce', case['proto'])
    inforce = getattr(jr, PROTO_CLASS[proto])
    comp = completion(case)
    writes = obs['writes']
    if 'single' in case:
        kind = c02.classify_member(proto, case['single'])
        rec = {'exc': None, 'reply': None, 'len': 0, 'items': None, 'raised': None, 'extra': 0}
        msgs = [w[1] for w in writes]
        if kind[0] == 'req':
            result, _ = c02.result_for(jr, 0, 0 in case.get('errs', ()))
            rec['len'] = resp_len(inforce, result, kind[1])
            rec['items'] = ['r']
            if msgs and writes[0][0] < comp[0][0]:
                rec['raised'] = c02.decode_entry(msgs[0])     # answered before its result exists
            elif msgs:
                rec['reply'] = c02.decode_entry(msgs[0])
            rec['extra'] = max(0, len(msgs) - 1)
        elif kind[0] == 'notif':
            rec['items'] = ['n'] if obs['notifs'] else ['?']
            rec['extra'] = len(msgs)
        else:
            if msgs:
                rec['raised'] = c02.decode_entry(msgs[0])
            rec['extra'] = max(0, len(msgs) - 1)
        return rec
    kinds = [c02.classify_member(proto, p) for p in case['members']]
    rec = {'raised': None, 'calls': [], 'lens': [], 'exc': None, 'items': None, 'sent': []}
    busy = set(case.get('busy', ()))
    for _t, m in comp:
        if m in busy:
            rec['lens'].append(0)
        else:
            result, _ = c02.result_for(jr, m, m in case.get('errs', ()))
            rec['lens'].append(resp_len(inforce, result, kinds[m][1]))
    for t, msg, n in writes:
        done = sum(1 for tc, _m in comp if tc <= t)
        entries = [c02.decode_entry(x) for x in msg] if isinstance(msg, list) \
            else [('?', 'single-message')]
        rec['sent'].append((done - 1, entries, n))
    rec['notifs_handled'] = obs['notifs']
    return rec


def task_events(case, m, final_time, is_final):
    """the environment's events for the task of request member `m`, as a string for the `T`
    line: `r` handler returns (if it does before the timeout), `t` the timeout instant, `w` the
    transport accepts a write (only for the task that has a message to write)"""
    pt = case['pt']
    d = durations(case)[m]
    ev = []
    if d < pt:
        ev.append((d, 0, 'r'))
    ev.append((pt, 1, 't'))
    if is_final:
        t = final_time
        pause, resume = case.get('pause'), case.get('resume')
        if pause is not None and pause <= t < resume:
            t = resume
        ev.append((t, 2, 'w'))
    return ''.join(e[2] for e in sorted(ev))


def prepare(case):
    c02 = _c02()
    c02._prepare(case)
    comp = completion(case)
    durs = durations(case)
    case['busy'] = sorted(m for m, d in durs.items() if d >= case['pt'])
    sched = sorted(case.get('limit_at', ()))

    def in_force(t):
        lim = case['max']
        for at, v in sched:
            if at < t:
                lim = v
        return lim
    if 'single' in case:
        if durs:
            case['busy'] = bool(case['busy'])
            if sched:
                case['lim'] = in_force(comp[0][0])
        else:
            case.pop('busy')
    else:
        case['order'] = [m for _t, m in comp]
        if sched:
            case['lims'] = [in_force(t) for t, _m in comp]
    return case


def evaluate(ctx, cases, res):
    c02 = _c02()
    jr = c02._jr
    recs, lines, owners = [], [], []
    for c in cases:
        prepare(c)
        obs = run_case(ctx.repo, c)
        sc = dict(c, layer='bp')
        res.count('bp_scenarios')
        if 'hang' in obs:
            res.violation('c02:session-hang@bp', sc, obs['hang'])
            recs.append(None)
            continue
        rec = to_rec(jr, c, obs)
        recs.append(rec)
        v = c02.single_oracle(c, rec) if 'single' in c else c02.batch_oracle(c, rec)
        if not v and obs.get('setlim_bad'):
            v = ('c02:reply-count', 'a set_limit request fed while other requests were in flight '
                                    'was not answered exactly once with its result')
        res.count('bp_limit_changed_in_flight', c02.limit_changes(c))
        if v:
            key = v[0] if v[0].startswith('c02:notif-invalid') else v[0] + '@bp'
            res.violation(key, sc, v[1] + f' [written: {[(w[0], w[1]) for w in obs["writes"]]}]')
        comp = completion(c)
        res.count('bp_response_parked_on_full_buffer', bool(comp) and c.get('pause') is not None
                  and c['pause'] <= comp[-1][0] < c['resume'])
        res.count('bp_timeout_passes_while_parked', bool(comp) and c.get('pause') is not None
                  and c['pause'] <= comp[-1][0] < c['pt'] < c['resume'] and comp[-1][0] < c['pt'])
        res.count('bp_handler_timed_out', bool(c.get('busy')))
        # model: one T line per request member, then the B / S line
        final_time = comp[-1][0] if comp else None
        for k, (t, m) in enumerate(comp):
            is_final = k == len(comp) - 1
            lines.append(f'T 1 {1 if is_final else 0} {task_events(c, m, final_time, is_final)}')
            owners.append((len(recs) - 1, 'T', m))
        line = c02.model_line(c, rec) if 'single' in c else _batch_line(c, rec)
        lines.append(line)
        owners.append((len(recs) - 1, 'M', None))
    model = ctx.model(lines)
    if model is not None:
        busy_by_model = {}
        for (k, what, m), out in zip(owners, model):
            c, rec = cases[k], recs[k]
            if rec is None:
                continue
            if what == 'T':
                acts = out.split(',')
                sends = [a for a in acts if a.startswith('s:')]
                busy_by_model.setdefault(k, {})[m] = sends == ['s:b']
                if len(sends) != 1:
                    res.disagreement(dict(c, layer='bp'), 'one send_result per request', out)
                continue
            want = ' '.join(c02.normalise_model(t) for t in out.split(' '))
            # the model's entries carry results; a member whose task called send_result with
            # SERVER_BUSY shows as an error entry on the wire
            for m, b in busy_by_model.get(k, {}).items():
                if b:
                    kinds = c02.classify_member(c.get('inforce', c['proto']),
                                                c['single'] if 'single' in c else c['members'][m])
                    tok = id_token(kinds[1])
                    want = want.replace(f'r{m}@{tok}', f'E@{tok}') if 'single' not in c \
                        else want.replace(f'r@{tok}', f'E@{tok}')
            got = _impl_text(c, rec)
            if len(c.get('busy') or ()) >= 2 if 'single' not in c else False:
                # several members time out at the same instant: their relative order is asyncio's
                want, got = _sorted_entries(want), _sorted_entries(got)
            if want != got:
                res.disagreement(dict(c, layer='bp'), got, want, model_line=lines[owners.index((k, 'M', None))])
    res['evaluations'] += len(cases)
    res['scopes']['backpressure_scenarios'] = res['scopes'].get('backpressure_scenarios', 0) + len(cases)


def _sorted_entries(text):
    if '[' not in text:
        return text
    pre, body = text.split('[', 1)
    return pre + '[' + ','.join(sorted(body.rstrip(']').split(','))) + ']'


def _batch_line(case, rec):
    c02 = _c02()
    proto = case.get('inforce', case['proto'])
    toks = []
    for p in case['members']:
        k = c02.classify_member(proto, p)
        toks.append('N' if k[0] == 'notif' else f'{"R" if k[0] == "req" else "X"}:{id_token(k[1])}')
    calls = ','.join(f'{m}:{l}:{lim}' for m, l, lim in
                     zip(case['order'], rec['lens'], c02.limits_of(case))) or '-'
    return f'B {",".join(toks)} {calls}'


def _impl_text(case, rec):
    """what left the connection, in the model's output format: for a batch one token per
    delivery (`-` or the batch)"""
    c02 = _c02()
    if 'single' in case:
        return c02.impl_text(case, rec)
    n = len(case['order'])
    sent = rec['sent']
    if n == 0:
        if not sent:
            return '.'
        return 'E' + c02.show_entries(sent[0][1])
    toks = ['-'] * n
    for when, entries, _n in sent:
        if 0 <= when < n:
            toks[when] = c02.show_entries(entries) if toks[when] == '-' else toks[when] + '+' + c02.show_entries(entries)
        else:
            toks.append('early' + c02.show_entries(entries))
    return ' '.join(toks)


# ------------------------------------------------------------------ the scenario families
def _req(style, m, idv):
    p = {'method': 'm', 'params': [m]}
    if style == 'v2':
        p['jsonrpc'] = '2.0'
    if idv is not None:
        p['id'] = idv
    return p


def member_variants(style, m):
    """(payload, duration, handler fails) choices for member `m`: a request with each handler
    duration; a notification whose handler returns / fails / is still running when the
    processing timeout fires; an invalid member"""
    off = 0.1 * m
    out = [(_req(style, m, m + 1), 0 if d == 0 else d + off, False) for d in DURS]
    out.append((_req(style, m, None), None, False))
    out.append((_req(style, m, None), 2 + off, True))
    out.append((_req(style, m, None), 12 + off, False))
    out.append((dict(_req(style, m, 30 + m), method=1), None, False))
    return out


def windows(full):
    yield None, None, 'env'
    for (a, b) in WINDOWS:
        yield a, b, 'write'
        if full:
            yield a, b, 'env'


def grid(level, protos=('v2', 'loose')):
    """level 0: quick, 1: after a fingerprint drift, 2: thorough"""
    tier_full = level >= 2
    import itertools
    cases = []
    for proto in ('v1',) + tuple(protos):
        style = 'v2' if proto == 'v2' else 'loose'
        for payload, d, fails in member_variants(style, 0):
            if proto == 'v1':
                if 'id' not in payload:
                    payload = dict(payload, id=None)      # the 1.0 form of a notification
            for a, b, via in windows(True):
                cases.append({'proto': proto, 'max': 0, 'pt': PT, 'single': payload, 'dur': [d],
                              'nerrs': [0] if fails else [], 'pause': a, 'resume': b, 'via': via})
    for proto in protos:
        style = 'v2' if proto == 'v2' else 'loose'
        for n in (1, 2, 3):
            opts = [member_variants(style, m) for m in range(n)]
            for combo in itertools.product(*opts):
                members = [c[0] for c in combo]
                durs = [c[1] for c in combo]
                nerrs = [m for m, c in enumerate(combo) if c[2]]
                nreq = sum(1 for c in combo if 'id' in c[0] and c[0]['method'] == 'm')
                if n == 3 and not tier_full and (nreq < 2 or proto != 'v2'):
                    continue
                for a, b, via in windows(level >= 1 and n < 3):
                    if n == 3 and a is not None and not (a < PT < b) and not tier_full:
                        continue
                    cases.append({'proto': proto, 'max': 0, 'pt': PT, 'members': members,
                                  'dur': durs, 'nerrs': nerrs, 'pause': a, 'resume': b, 'via': via})
    # request ids that are non-finite floats (raw wire text: `1e999` is a legal JSON number that
    # json.loads reads as +inf; `Infinity` / `NaN` are tokens it accepts), 1e308 as finite control:
    # singles on v1 / v2 / Loose and batches (alone, duplicated, next to an ordinary id, in an
    # invalid member) with handlers that return at once / later / after the processing timeout
    inf, nan = float('inf'), float('nan')
    for a, b, via in list(windows(False))[::2]:
        for proto in ('v1', 'v2', 'loose'):
            style = 'v2' if proto == 'v2' else 'loose'
            for idv, tok in ((inf, '1e999'), (-inf, None), (nan, None), (1e308, None)):
                for d in (0, 2, 12):
                    cases.append({'proto': proto, 'max': 0, 'pt': PT, 'single': _req(style, 0, idv),
                                  'dur': [d], 'nerrs': [], 'pause': a, 'resume': b, 'via': via,
                                  'raw': {'0': tok} if tok else {}})
        for ids, toks, durs in (((inf,), ('1e999',), (2,)), ((inf, 7), ('1e999', None), (0, 2.1)),
                                ((7, -inf), (None, '-1e999'), (2, 0)), ((nan, nan), (None, None), (2, 5.1)),
                                ((inf, inf, 1e308), ('1e999', None, None), (5, 2.1, 0)),
                                ((nan, 7), (None, None), (12, 2.1))):
            for style in ('v2', 'loose'):
                members = [_req(style, m, i) for m, i in enumerate(ids)]
                raw = {str(m): t for m, t in enumerate(toks) if t}
                cases.append({'proto': style, 'max': 0, 'pt': PT, 'members': members, 'dur': list(durs),
                              'pause': a, 'resume': b, 'via': via, 'raw': raw})
                bad = members + [dict(_req(style, len(ids), ids[0]), method=1)]
                cases.append({'proto': style, 'max': 0, 'pt': PT, 'members': bad,
                              'dur': list(durs) + [None], 'pause': a, 'resume': b, 'via': via, 'raw': raw})
    # duplicate ids and a size limit (no handler times out: the length of the library's
    # SERVER_BUSY response is not something the harness knows)
    for a, b, via in windows(False):
        for durs in ((2, 5.1, 0), (5, 2.1, 2.2), (0, 0, 5.2)):
            members = [_req('v2', m, 7) for m in range(3)]
            for mx in (0, 80, 45, 120):
                cases.append({'proto': 'v2', 'max': mx, 'pt': PT, 'members': members,
                              'dur': list(durs), 'pause': a, 'resume': b, 'via': via})
    return cases


def limit_grid(level):
    """`max_response_size` changed at virtual instants while the members of a batch (a single
    request) are suspended in their handlers: received under A, changed at 1.0 (before the first
    handler that takes time returns) and at 3.5 (between the handlers returning at 2.x and at
    5.x) - values over the decision points of the deliveries (0, the entry alone too large, the
    running size exceeds by one / fits exactly), lowered and raised, 0 <-> positive; by another
    request's handler and by the operator; with and without the send buffer being full
    meanwhile.  No handler times out here (the length of the library's SERVER_BUSY response is
    not something the harness knows)."""
    import itertools
    c02 = _c02()
    jr = c02._jr
    inc = c02.WIRE['inc']
    cases = []
    for proto in ('v2', 'loose'):
        cls = getattr(jr, PROTO_CLASS[proto])
        for extra in (None, 'notif', 'invalid', 'req'):
            members = [_req(proto, 0, 1), _req(proto, 1, 2)]
            if extra == 'notif':
                members.insert(1, _req(proto, 1, None))
                members[2] = _req(proto, 2, 2)
            elif extra == 'invalid':
                members.insert(0, dict(_req(proto, 0, 30), method=1))
                members[1], members[2] = _req(proto, 1, 1), _req(proto, 2, 1)   # duplicate ids
            elif extra == 'req':
                members.append(_req(proto, 2, 'a'))
            reqs = [m for m, p in enumerate(members) if p.get('id') is not None and p['method'] == 'm']
            for dk, durs in enumerate(((2.0, 5.1, 5.2), (5.0, 2.1, 2.2), (0, 5.1, 2.2), (2.0, 2.1, 5.2))):
                if level == 0 and (dk + (extra is not None)) % 2:
                    continue
                dur = [None] * len(members)
                for m, d in zip(reqs, durs):
                    dur[m] = d
                comp = sorted((dur[m], m) for m in reqs)
                lens = [len(cls.response_message(c02.result_for(jr, m, False)[0], members[m]['id']))
                        for _t, m in comp]
                run, pts = 0, []
                for l in lens:
                    run += l + inc
                    pts.append((0, l - 1, run - 1, run))
                # the value set at 1.0 decides for the handlers returning at 2.x, the one set at
                # 3.5 for those returning at 5.x
                first = pts[[k for k, (t, _m) in enumerate(comp) if t > 1.0][0]] if any(t > 1.0 for t, _m in comp) else (0,)
                late = [k for k, (t, _m) in enumerate(comp) if t > 3.5]
                second = pts[late[0]] if late else (0,)
                k = 0
                for a in (0, min(lens) - 1, run):
                    for v1 in first:
                        for v2 in second:
                            k += 1
                            win = (None, None, 'env') if k % 3 else (1.5, 7.5, 'write')
                            if level == 0 and k % 2 and extra is not None:
                                continue
                            cases.append({'proto': proto, 'max': a, 'pt': PT, 'members': members,
                                          'dur': dur, 'limit_at': [[1.0, v1], [3.5, v2]],
                                          'limvia': 'attr' if k % 4 == 0 else 'handler',
                                          'pause': win[0], 'resume': win[1], 'via': win[2]})
    for proto in ('v1', 'v2', 'loose'):
        style = 'v2' if proto == 'v2' else 'loose'
        cls = getattr(jr, PROTO_CLASS[proto])
        payload = _req(style, 0, 7)
        ln = len(cls.response_message(c02.result_for(jr, 0, False)[0], 7))
        k = 0
        for a in (0, ln - 1, ln):
            for b in (0, ln - 1, ln):
                for c in (None, 0, ln - 1, ln):
                    k += 1
                    sched = [[1.0, b]] + ([[1.5, c]] if c is not None else [])
                    win = (None, None, 'env') if k % 3 else (1.5, 7.5, 'write')
                    cases.append({'proto': proto, 'max': a, 'pt': PT, 'single': payload, 'dur': [2.0],
                                  'limit_at': sched, 'limvia': 'attr' if k % 4 == 0 else 'handler',
                                  'pause': win[0], 'resume': win[1], 'via': win[2]})
    return cases


def random_cases(rng, n):
    """seeded random timed scenarios: 1-5 members, handler durations anywhere around the
    processing timeout (never equal to it or to each other), one pause window anywhere"""
    out = []
    for _ in range(n):
        proto = rng.choice(['v2', 'loose'])
        style = proto
        pt = rng.choice([3.0, 10.0])
        k = rng.randint(1, 5)
        members, durs, nerrs = [], [], []
        same_id = rng.random() < 0.3
        for m in range(k):
            r = rng.random()
            if r < 0.7:
                members.append(_req(style, m, 7 if same_id else m + 1))
                d = rng.choice([0, rng.randint(1, int(pt * 10) - 1) / 10, pt + rng.randint(1, 30) / 10])
                durs.append(0 if d == 0 else d + 0.01 * (m + 1))
            elif r < 0.85:
                members.append(_req(style, m, None))
                durs.append(rng.choice([None, 1.0 + 0.01 * (m + 1), pt + 1 + 0.01 * (m + 1)]))
                if rng.random() < 0.4:
                    nerrs.append(m)
            else:
                members.append(dict(_req(style, m, 30 + m), method=1))
                durs.append(None)
        a = b = None
        if rng.random() < 0.85:
            a = rng.randint(0, int(pt * 12)) / 10 + 0.005
            b = a + rng.randint(1, int(pt * 10)) / 10
        c = {'proto': proto, 'max': 0, 'pt': pt, 'dur': durs, 'nerrs': nerrs, 'pause': a,
             'resume': b, 'via': rng.choice(['write', 'env'])}
        if all(d is None or d < pt for d in durs) and rng.random() < 0.6:
            # nobody times out: let the limit move at random instants (never at an instant at
            # which a handler returns: those are multiples of 0.1 plus 0.01 * (member + 1))
            c['max'] = rng.choice([0, 40, 90, 200])
            c['limit_at'] = sorted([rng.randint(0, int(pt * 10)) / 10 + 0.005,
                                    rng.choice([0, 35, 40, 45, 80, 90, 130, 300])]
                                   for _ in range(rng.randint(1, 4)))
            c['limvia'] = rng.choice(['handler', 'attr'])
        if k == 1 and rng.random() < 0.5:
            c['single'] = members[0]
        else:
            c['members'] = members
        out.append(c)
    return out


def run(ctx, res):
    c02 = _c02()
    if c02.unlisted_failure(ctx, res):
        level = 0
    else:
        level = 2 if ctx.tier == 'thorough' else 1 if c02.is_deep(ctx) else 0
    cases = grid(level)
    if c02.unlisted_failure(ctx, res):
        cases = cases[::7] + limit_grid(0)[::5]
    else:
        cases += limit_grid(level)
        cases += random_cases(ctx.rng, (150, 600, 6000)[level])
    evaluate(ctx, cases, res)


def replay(ctx, case, res):
    case = {k: v for k, v in case.items() if k not in ('layer', 'busy', 'order', 'inforce', 'lims', 'lim')}
    _c02()._init(ctx.repo, ctx.facts)
    evaluate(ctx, [case], res)
