"""C13 correspondence + search.

Level 1 (limiter on its own): operation streams on the real `aiorpcx.session.Concurrency` with
scripted holders on the virtual loop, compared op by op with the Lean model (`drv_c13`).
Level 2 (session): bursts of requests / notifications / batches through a real `RPCSession` on a
fake transport with gate-controlled handlers; the handlers maintain the in-flight counter; the same
driver monitors the run (receive = enter, handler finished = exit) and
`unanswered_request_count()` is read after every event.

The property ORACLE (`Oracle` below) is written from the property text: it keeps the *abstract*
capacity of a lazily adjusted limiter (starts at the initial limit; an admission while the limit is
above it raises it to the limit; an exit while it is above the limit retires one) and checks, on the
implementation's own trace: in-flight <= largest limit so far, in-flight <= capacity, nobody waits
while a permit is free (permits neither lost nor duplicated), admissions in arrival order, limit
<= 0 refuses - and nobody is left waiting with no holder to wait for, whatever the limit was in
between (F23) -, everybody is served once the holders leave, unanswered count = received -
finished.  It knows nothing about the semaphore value, the wake-up chain or any private attribute
of `Concurrency`: permits are observed through behaviour (how many entrants get in)."""
import asyncio
import itertools
import json
import os
from multiprocessing import Pool

from harness import vloop
from harness.base import Results, corpus_lines
from harness.lim_fake import Env, find_incoming_limiter

PROBES = 4


# ------------------------------------------------------------------ formatting (same as driver)
def _release(gate):
    """let the handler waiting on this gate go on - if it still waits (a gate whose waiter was
    cancelled, e.g. by a processing timeout that a changed limiter let happen, is cancelled too)"""
    if not gate.done():
        gate.set_result(None)


def fmt_list(l):
    return '.'.join(str(x) for x in l) if l else '-'


def fmt_record(evs, holders, waiting, target):
    return f"{','.join(evs) if evs else '-'};h={fmt_list(sorted(holders))};w={fmt_list(waiting)};T={target}"


def fmt_case(init, ops):
    # for the limiter the cancellation of a holder's task is an exit
    return f'{init} ' + ' '.join('x' + o[1:] if o[0] == 'k' else o for o in ops)


# ------------------------------------------------------------------ level 1: the limiter alone
class Rig:
    def __init__(self, env, init):
        self.env = env
        self.loop = env.loop
        self.c = env.session.Concurrency(init)
        self.exc = env.session.ExcessiveSessionCostError
        self.gate = {}
        self.task = {}
        self.evs = []
        self.hold = []
        self.waiting = []
        self.peak = 0
        self.entered = set()

    async def worker(self, i):
        try:
            async with self.c:
                self.evs.append(f'E{i}')
                self.entered.add(i)
                self.waiting.remove(i)
                self.hold.append(i)
                self.peak = max(self.peak, len(self.hold))
                try:
                    await self.gate[i]
                finally:
                    self.hold.remove(i)
        except self.exc:
            self.evs.append(f'R{i}')
            self.waiting.remove(i)
        except asyncio.CancelledError:
            if i in self.entered:
                return              # a holder was cancelled: it left through __aexit__ (= an exit)
            self.evs.append(f'C{i}')
            if i in self.waiting:
                self.waiting.remove(i)

    def act(self, op):
        """op: 'e3' / 'x3' / 'c3' / 't2' / 'k3' (cancel the task of holder 3: for the limiter this
        is an exit); returns the record string."""
        self.evs = []
        self.peak = 0           # in-flight only grows at entries: max over entries and the end
        k = op[0]
        if k in 'yz':
            # composite steps: two things within ONE loop iteration, no running to idle in between
            a, b = op[1:].split(':')
            if k == 'y':
                # holder a leaves; right after its __aexit__ has run - before any task it woke has
                # run again - the task of waiter b is cancelled (a completion and the processing
                # timeout of a queued request falling into the same iteration)
                i, j = int(a), int(b)
                if i not in self.hold:
                    self.evs.append('B')
                else:
                    _release(self.gate[i])
                    if j in self.waiting:
                        self.loop.call_soon(self.task[j].cancel)
                    else:
                        self.evs.append('B')
            else:
                # set_target(a) and the exit of holder b back to back
                self.c.set_target(int(a))
                if int(b) in self.hold:
                    _release(self.gate[int(b)])
                else:
                    self.evs.append('B')
            self.env.idle()
            self.peak = max(self.peak, len(self.hold))
            return fmt_record(self.evs, self.hold, self.waiting, self.c.max_concurrent)
        n = int(op[1:])
        if k == 'e':
            self.gate[n] = self.loop.create_future()
            self.waiting.append(n)
            self.task[n] = self.loop.create_task(self.worker(n))
        elif k == 'x':
            if n in self.hold:
                _release(self.gate[n])
            else:
                self.evs.append('B')
        elif k == 'c':
            if n in self.waiting:
                self.task[n].cancel()
            else:
                self.evs.append('B')
        elif k == 'k':
            if n in self.hold:
                self.task[n].cancel()
            else:
                self.evs.append('B')
        elif k == 't':
            self.c.set_target(n)
        self.env.idle()
        self.peak = max(self.peak, len(self.hold))
        return fmt_record(self.evs, self.hold, self.waiting, self.c.max_concurrent)

    def close(self):
        for t in self.task.values():
            t.cancel()
        self.env.idle()


class Oracle:
    """Spec-level accounting from the property text (see module doc)."""

    def __init__(self, init):
        self.limit = init
        self.maxlimit = init
        self.cap = init
        self.last_admitted = -1
        self.why = None
        self.key = None

    def fail(self, key, why):
        if self.why is None:
            self.key, self.why = key, why

    def op(self, op, evs, holders, waiting, peak, target_seen):
        k = op[0]
        n = int(op[1:].split(':')[0])
        if k in 'tz':
            self.limit = n
            self.maxlimit = max(self.maxlimit, n)
        for e in evs:
            if e[0] in 'ER':
                i = int(e[1:])
                if i <= self.last_admitted:
                    self.fail('c13:fifo', f'task {i} admitted after task {self.last_admitted}: not arrival order')
                self.last_admitted = i
            if e[0] == 'E':
                if self.limit <= 0:
                    self.fail('c13:entered-at-nonpositive-limit', f'{e} although the limit is {self.limit}')
                # a raised limit admits the extra holders from the next entry on
                self.cap = max(self.cap, self.limit)
            if e[0] == 'R' and self.limit >= 1:
                self.fail('c13:refused-at-positive-limit', f'{e} although the limit is {self.limit}')
        # the text fixes what max_concurrent reads only for limits of at least 1 ("zero or less
        # refuses"): a limiter that stores set_target(-1) as 0 is fine
        if (target_seen != self.limit) if self.limit >= 1 else (target_seen > 0):
            self.fail('c13:max-concurrent', f'max_concurrent reads {target_seen}, limit in force is {self.limit}')
        if peak > self.maxlimit:
            self.fail('c13:exceeds-max-limit', f'{peak} handlers in flight, largest limit so far {self.maxlimit}')

    # capacity bookkeeping has to see the exit before the admissions it causes
    def pre_exit(self):
        # a lowered limit retires one excess permit per exit
        if self.cap > self.limit:
            self.cap -= 1

    def quiescent(self, holders, waiting, peak):
        if peak > self.cap:
            self.fail('c13:exceeds-capacity',
                      f'{peak} in flight but capacity after reductions/raises is {self.cap} (limit {self.limit})')
        if waiting and len(holders) < self.cap:
            self.fail('c13:permit-lost',
                      f'{len(waiting)} waiting although only {len(holders)} of {self.cap} permits are in use '
                      f'(limit {self.limit})')
        if waiting and not holders:
            if self.limit <= 0:
                self.fail('c13:left-waiting-at-nonpositive-limit',
                          f'tasks {list(waiting)} are left waiting although nobody holds a permit and the limit '
                          f'is {self.limit}: they must be refused (ExcessiveSessionCostError), not parked')
            else:
                self.fail('c13:starved', f'tasks {list(waiting)} wait although nobody holds a permit '
                                         f'(limit {self.limit})')


def run_limiter_case(env, init, ops, tail=True):
    """Execute ops (+ probe/drain tail decided from the implementation's state) on a real
    Concurrency.  Returns (ops_executed, records, oracle, state_after_ops)."""
    rig = Rig(env, init)
    orc = Oracle(init)
    recs = []
    done = []
    nid = [max([int(o[1:]) for o in ops if o[0] == 'e'], default=-1) + 1]

    def do(op):
        if op[0] == 'z':
            # the new limit is in force before the holder leaves
            n = int(op[1:].split(':')[0])
            orc.limit, orc.maxlimit = n, max(orc.maxlimit, n)
            is_exit = int(op[1:].split(':')[1]) in rig.hold
        elif op[0] == 'y':
            is_exit = int(op[1:].split(':')[0]) in rig.hold
        else:
            is_exit = op[0] in 'xk' and int(op[1:]) in rig.hold
        if is_exit:
            orc.pre_exit()
        rec = rig.act(op)
        recs.append(rec)
        done.append(op)
        orc.op(op, rig.evs, rig.hold, rig.waiting, rig.peak, rig.c.max_concurrent)
        orc.quiescent(rig.hold, rig.waiting, rig.peak)

    for op in ops:
        do(op)
    state = (tuple(sorted(rig.hold)), tuple(rig.waiting), rig.c.max_concurrent)
    if tail:
        # probes: how many can enter without blocking once quiescent
        for _ in range(PROBES):
            do(f'e{nid[0]}')
            nid[0] += 1
        # everybody is eventually served: with a limit >= 1 in force, let holders leave oldest first
        if rig.c.max_concurrent < 1:
            do('t1')
        guard = 0
        while rig.hold and guard < 200:
            do(f'x{rig.hold[0]}')
            guard += 1
        if rig.waiting:
            orc.fail('c13:not-served', f'tasks {rig.waiting} never admitted although every holder left '
                                       f'and the limit is {rig.c.max_concurrent}')
    rig.close()
    return done, recs, orc, state


def applicable(state, nid):
    holders, waiting, target = state
    ops = [f'e{nid}']
    if holders:
        ops.append(f'x{holders[0]}')
        if len(holders) > 1:
            ops.append(f'x{holders[-1]}')
    if waiting:
        ops.append(f'c{waiting[0]}')
        if len(waiting) > 1:
            ops.append(f'c{waiting[-1]}')
    if holders and waiting:
        # composite: a holder leaves and a waiter - the one that is handed the permit, or the last
        # one in the queue - is cancelled within the same loop iteration
        ops.append(f'y{holders[0]}:{waiting[0]}')
        if len(waiting) > 1:
            ops.append(f'y{holders[0]}:{waiting[-1]}')
    ops += [f't{n}' for n in (0, 1, 2, 3) if n != target]
    return ops


_env = None


def _init(repo):
    global _env
    _env = Env(repo)
    _env.new_loop()


def _lim_batch(cases):
    out = []
    for init, ops in cases:
        done, recs, orc, state = run_limiter_case(_env, init, list(ops))
        out.append((init, tuple(ops), done, recs, orc.key, orc.why, state))
    return out


def _pmap(ctx, fn, cases, chunk=400):
    if len(cases) < 3000:
        if _env is None or _env.repo != ctx.repo:
            _init(ctx.repo)
        return fn(cases)
    nproc = min(12, os.cpu_count() or 1)
    jobs = [cases[i:i + chunk] for i in range(0, len(cases), chunk)]
    with Pool(nproc, initializer=_init, initargs=(ctx.repo,)) as pool:
        parts = pool.map(fn, jobs)
    return [r for p in parts for r in p]


def check_results(ctx, res, results, scope):
    """Compare with the model and record oracle verdicts."""
    lines = [fmt_case(init, done) for init, _ops, done, _r, _k, _w, _s in results]
    model = ctx.model(lines)
    for idx, (init, ops, done, recs, key, why, _state) in enumerate(results):
        got = ' | '.join(recs) if recs else '.'
        case = {'level': 'limiter', 'init': init, 'ops': list(ops), 'executed': done}
        if why:
            res.violation(key, case, why, impl=got)
        if model is not None and model[idx] != got:
            res.disagreement(case, got, model[idx])
        res['evaluations'] += 1
        res.count(f'{scope}_cases')
        res.count('ops_executed', len(done))
        evs = got
        res.count('cases_with_waiters', any(';w=-' not in r for r in recs))
        res.count('cases_with_refusal', 'R' in evs.replace('T=', ''))
        res.count('cases_with_cancelled_waiter', any(r.split(';')[0].startswith('C') for r in recs))
        res.count('cases_with_reduction_retire', _has_reduction(done))
        if len(ops) >= 3 and any(';w=-' not in r for r in recs[:len(ops)]):
            res.nontrivial((init, ops))


def _has_reduction(ops):
    cur = None
    for o in ops:
        if o[0] in 'tz':
            n = int(o[1:].split(':')[0])
            if cur is not None and n < cur:
                return True
            cur = n
    return False


def exhaustive_limiter(ctx, res, maxlen, inits=(1, 2, 3)):
    """All op sequences up to maxlen from {enter, exit oldest/newest, cancel oldest/newest waiter,
    set_target 1..3 (other than the current value)} applicable in the state reached, breadth
    first; every node is run with the probe + drain tail."""
    frontier = [(i, (), ((), (), i), 0) for i in inits]
    total = 0
    reached = 0
    for depth in range(0, maxlen + 1):
        cases = [(init, ops) for init, ops, _st, _nid in frontier]
        results = _pmap(ctx, _lim_batch, cases)
        check_results(ctx, res, results, 'exhaustive')
        total += len(cases)
        reached = depth
        if res.failed and depth >= 4:
            break
        if depth == maxlen:
            break
        nxt = []
        for (init, ops, _st, nid), r in zip(frontier, results):
            state = r[6]
            for op in applicable(state, nid):
                nxt.append((init, ops + (op,), None, nid + (op[0] == 'e')))
        frontier = nxt
    return total, reached


def random_limiter_case(rng, allow_nonpos):
    """Longer streams, targets 0..5 (and negative when allow_nonpos); the op choice is made from a
    light bookkeeping of who could hold / wait, inapplicable picks stay in as `bad` ops."""
    init = rng.randint(0 if allow_nonpos else 1, 4)
    ops = []
    nid = 0
    live = []
    for _ in range(rng.randint(3, 25)):
        r = rng.random()
        if r < 0.4 or not live:
            ops.append(f'e{nid}')
            live.append(nid)
            nid += 1
        elif r < 0.65:
            i = rng.choice(live)
            ops.append(f'x{i}' if rng.random() < 0.75 else f'k{i}')
        elif r < 0.77:
            i = rng.choice(live)
            ops.append(f'c{i}')
        elif r < 0.84:
            # composites (no running to idle in between): exit + cancel of a waiter, target + exit
            i, j = rng.choice(live), rng.choice(live)
            lo = -1 if allow_nonpos else 1
            ops.append(f'y{i}:{j}' if rng.random() < 0.7 else f'z{rng.randint(lo, 5)}:{i}')
        else:
            lo = -1 if allow_nonpos else 1
            ops.append(f't{rng.randint(lo, 5)}')
    return init, tuple(ops)


# ------------------------------------------------------------------ level 2: the session
def make_server_class(env, kind='rpc'):
    """kind 'rpc': RPCSession fed JSON lines; 'msg': MessageSession fed Bitcoin frames whose payload
    is the decimal id.  The public handler hook maintains the in-flight bookkeeping."""
    base = env.session.RPCSession if kind == 'rpc' else env.session.MessageSession

    class Srv(base):
        rig = None

        def on_disconnect_due_to_excessive_session_cost(self):
            self.rig.hooks.append(self.loop.time())

        async def _handle(self, i):
            rig = self.rig
            rig.evs.append(f'E{i}')
            rig.started_at[i] = self.loop.time()
            rig.task_of[i] = asyncio.current_task()
            if i in rig.waiting:
                rig.waiting.remove(i)
            rig.hold.append(i)
            rig.peak = max(rig.peak, len(rig.hold))
            rig.on_start(i)
            try:
                await rig.gate[i]
                return i
            finally:
                rig.hold.remove(i)

        async def handle_request(self, request):
            return await self._handle(request.args[0])

        async def handle_message(self, message):
            return await self._handle(int(message[1].decode()))
    return Srv


class SessRig:
    def __init__(self, env, init, attrs=None, kind='rpc'):
        self.env = env
        self.kind_of_session = kind
        cls = make_server_class(env, kind)
        cls.initial_concurrent = init
        for k, v in (attrs or {}).items():
            setattr(cls, k, v)
        self.proto, self.tr, self.s = env.make_session(cls, 'server')
        self.s.rig = self
        self.conc = find_incoming_limiter(self.s)
        self.gate = {}
        self.evs = []
        self.hold = []
        self.waiting = []
        self.hooks = []
        self.started_at = {}
        self.task_of = {}
        self.on_start = lambda i: None
        self.peak = 0
        self.received = 0
        self.released = 0
        self.kind = {}
        env.idle()

    def feed(self, items, as_batch):
        """items: list of (id, is_request)"""
        msgs = []
        for i, is_req in items:
            self.gate[i] = self.env.loop.create_future()
            self.waiting.append(i)
            self.kind[i] = is_req and self.kind_of_session == 'rpc'
            d = {'jsonrpc': '2.0', 'method': 'm', 'params': [i]}
            if is_req:
                d['id'] = i
            msgs.append(d)
        self.received += len(items)
        if self.kind_of_session == 'msg':
            framer = self.env.framing.BitcoinFramer()
            data = b''.join(framer.frame((b'probe', str(i).encode())) for i, _r in items)
        elif as_batch:
            data = json.dumps(msgs).encode() + b'\n'
        else:
            data = b''.join(json.dumps(m).encode() + b'\n' for m in msgs)
        self.proto.data_received(data)

    def replies(self):
        out = {}
        if self.kind_of_session == 'msg':
            return out
        for chunk in self.tr.out:
            for line in chunk.split(b'\n'):
                if not line:
                    continue
                v = json.loads(line)
                for item in (v if isinstance(v, list) else [v]):
                    out.setdefault(item.get('id'), []).append(item)
        return out


def run_session_case(env, init, script, kind='rpc'):
    """script: list of ('recv', [(id,is_req)..], mode) with mode 'batch' (one JSON batch) / 'chunk'
    (several messages in one data_received) / 'separate'; ('fin', 'oldest'|'newest');
    ('target', n) with any n (a limit <= 0 refuses: the session then closes and the script ends).
    Returns (ops, records, oracle, closed); a record is None for the non-final member of a group
    whose members the session spawns back to back in one loop run."""
    # no cost is ever charged here, so the session never re-evaluates the limit set by the script
    rig = SessRig(env, init, dict(error_base_cost=0.0, bw_cost_per_byte=0.0), kind=kind)
    orc = Oracle(init)
    ops, recs = [], []
    conc = rig.conc
    closed = [False]
    seen_hooks = [0]

    def begin():
        rig.evs = []
        rig.peak = 0

    def end(group, count=True):
        env.idle()
        rig.peak = max(rig.peak, len(rig.hold))
        new_hooks = len(rig.hooks) - seen_hooks[0]
        seen_hooks[0] = len(rig.hooks)
        if new_hooks:
            # the hook has no argument: the refused requests are the heads of the arrival queue
            closed[0] = True
            for i in rig.waiting[:new_hooks]:
                rig.evs.append(f'R{i}')
            del rig.waiting[:new_hooks]
        for op in group[:-1]:
            ops.append(op)
            recs.append(None)
        ops.append(group[-1])
        if closed[0]:
            # the session closes: handlers are cancelled, nothing else is comparable from here on
            recs.append('closed:' + ','.join(rig.evs))
            if orc.limit >= 1:
                orc.fail('c13:refused-at-positive-limit',
                         f'the disconnect hook ran {new_hooks} time(s) although the limit is {orc.limit}')
            if any(e[0] == 'E' for e in rig.evs) and orc.limit <= 0:
                orc.fail('c13:entered-at-nonpositive-limit', f'{rig.evs} although the limit is {orc.limit}')
            return
        recs.append(fmt_record(rig.evs, rig.hold, rig.waiting, conc.max_concurrent))
        orc.op(group[-1], rig.evs, rig.hold, rig.waiting, rig.peak, conc.max_concurrent)
        orc.quiescent(rig.hold, rig.waiting, rig.peak)
        if count:
            want = rig.received - rig.released
            got = rig.s.unanswered_request_count()
            if got != want:
                orc.fail('c13:unanswered-count',
                         f'unanswered_request_count() = {got} after {group[-1]}; received '
                         f'{rig.received}, finished {rig.released}')

    def finish_one(i):
        begin()
        orc.pre_exit()
        rig.released += 1
        _release(rig.gate[i])
        end([f'x{i}'])

    for step in script:
        if closed[0]:
            break
        if step[0] == 'recv':
            _, items, mode = step
            groups = [items] if mode in ('batch', 'chunk') else [[it] for it in items]
            for g in groups:
                if closed[0]:
                    break
                begin()
                rig.feed(g, mode == 'batch' and len(g) > 1)
                end([f'e{i}' for i, _ in g])
        elif step[0] == 'fin':
            if rig.hold:
                finish_one(rig.hold[0] if step[1] == 'oldest' else rig.hold[-1])
        elif step[0] == 'target':
            begin()
            conc.set_target(step[1])
            end([f't{step[1]}'])
    # everybody is eventually served and answered exactly once
    if not closed[0] and conc.max_concurrent < 1:
        # (the limit is <= 0 and nobody was refused yet: then nobody can be waiting - checked by
        # the quiescence clauses - so raising it again must bring the session back to work)
        begin()
        conc.set_target(1)
        end(['t1'])
    guard = 0
    while not closed[0] and rig.hold and guard < 500:
        finish_one(rig.hold[0])
        guard += 1
    if not closed[0]:
        if rig.waiting:
            orc.fail('c13:not-served', f'requests {rig.waiting} never handled although every handler finished')
        rep = rig.replies()
        for i, is_req in rig.kind.items():
            n = len(rep.get(i, []))
            if i not in rig.waiting and n != (1 if is_req else 0):
                orc.fail('c13:reply-count', f'{"request" if is_req else "notification"} {i} got {n} replies')
    env.close_loop()
    env.new_loop()
    return ops, recs, orc, closed[0]


def run_throttle_timeout_case(env, case):
    """Cost above the soft limit (non-zero throttling delay), processing_timeout shorter than that
    delay: every request of a first burst times out while it is being delayed or queued.  Then the
    cost is refunded (limit back to its initial value) and a second burst arrives: the permits
    must all still be there - in-flight reaches the limit, nobody waits while a permit is free, and
    every request is served.  Oracle only (timeouts of many tasks at one instant are outside the
    quiescent big-step model)."""
    n, k, m = case['init'], case['first'], case['second']
    soft, hard = 100.0, 1100.0
    attrs = dict(cost_soft_limit=soft, cost_hard_limit=hard, cost_sleep=case['sleep'],
                 processing_timeout=case['timeout'], cost_decay_per_sec=0.0, error_base_cost=0.0,
                 bw_cost_per_byte=0.0)
    rig = SessRig(env, n, attrs)
    s = rig.s
    conc = s._incoming_concurrency
    key = why = None

    def fail(kk, w):
        nonlocal key, why
        if why is None:
            key, why = kk, w

    x = soft + case['fraction'] * (hard - soft)
    s.bump_cost(x)
    s.recalc_concurrency()
    lowered = conc.max_concurrent
    delay = case['fraction'] * case['sleep']
    rig.feed([(i, True) for i in range(k)], False)
    env.idle()
    if len(rig.hold) > n:
        fail('c13:exceeds-max-limit', f'{len(rig.hold)} handlers in flight, limit {n}')
    env.advance(case['timeout'] + delay + case['sleep'] + 1)
    started_first = [i for i in range(k) if f'E{i}' in rig.evs]
    # refund: the limit goes back to the initial value
    s.bump_cost(-x)
    s.recalc_concurrency()
    limit = conc.max_concurrent
    stats = dict(timed_out=k - len(started_first), lowered=lowered)
    for i in list(rig.hold):
        _release(rig.gate[i])          # any first-burst handler that did start may finish
    env.idle()
    base = 1000
    rig.feed([(base + j, True) for j in range(m)], False)
    env.idle()
    want = min(m, limit)
    if limit != n:
        fail('c13:max-concurrent', f'after the refund max_concurrent reads {limit}, initial {n}')
    if len(rig.hold) > limit:
        fail('c13:exceeds-max-limit', f'{len(rig.hold)} handlers in flight, limit {limit}')
    if len(rig.hold) < want:
        fail('c13:permit-lost',
             f'after {stats["timed_out"]} requests timed out while throttled/queued (limit {lowered}, delay '
             f'{delay}s > processing_timeout {case["timeout"]}s) and a full refund (limit {limit}), a burst '
             f'of {m} requests has only {len(rig.hold)} handlers running, {len([w for w in rig.waiting if w >= base])} waiting')
    guard = 0
    while rig.hold and guard < 200:
        _release(rig.gate[rig.hold[0]])
        env.idle()
        guard += 1
    left = [w for w in rig.waiting if w >= base]
    if left:
        fail('c13:not-served', f'requests {left} of the second burst never handled although every handler finished')
    rep = rig.replies()
    for j in range(m):
        if len(rep.get(base + j, [])) != (0 if base + j in left else 1):
            fail('c13:reply-count', f'request {base + j} got {len(rep.get(base + j, []))} replies')
    for i in range(k):
        if len(rep.get(i, [])) != 1:
            fail('c13:reply-count', f'request {i} of the first burst got {len(rep.get(i, []))} replies')
    env.close_loop()
    env.new_loop()
    return key, why, stats


def throttle_timeout_cases(rng, count):
    out = []
    for c in range(count):
        n = [1, 2, 3, 5, 20][c % 5]
        sleep = rng.choice([8.0, 16.0])
        fraction = rng.choice([0.5, 0.75, 0.25])
        timeout = rng.choice([0.5, 1.0, sleep * fraction / 2])
        out.append(dict(init=n, first=rng.randint(1, n + 3), second=n + rng.randint(0, 3), sleep=sleep,
                        fraction=fraction, timeout=timeout))
    return out


def _tt_batch(cases):
    return [run_throttle_timeout_case(_env, c) for c in cases]


def evaluate_throttle_timeout(ctx, res, cases):
    results = _pmap(ctx, _tt_batch, cases, chunk=20)
    for case, (key, why, stats) in zip(cases, results):
        c = dict(case, level='throttle-timeout')
        if why:
            res.violation(key, c, why)
        res['evaluations'] += 1
        res.count('throttle_timeout_cases')
        res.count('requests_timed_out_while_throttled', stats['timed_out'])
        if stats['timed_out']:
            res.nontrivial(json.dumps(c, sort_keys=True))


def run_throttle_order_case(env, case):
    """Arrival order under throttling.  The session's cost lies between the soft and the hard limit
    (so every admitted request is delayed by fraction*cost_sleep) and the fraction CHANGES between
    arrivals, while the limit itself stays at its initial value L (fractions below 1/L).  Requests
    beyond the limit must get their slot in arrival order: when the handler of request j starts,
    every earlier arrival that has not started yet must already hold a slot (it is sleeping in
    it), so  running handlers + earlier arrivals not yet started  can never exceed L.
    Oracle only (virtual time is outside the quiescent big-step model)."""
    L, kind = case['init'], case.get('kind', 'rpc')
    soft, hard = 100.0, 1100.0
    attrs = dict(cost_soft_limit=soft, cost_hard_limit=hard, cost_sleep=case['sleep'],
                 processing_timeout=100000.0, cost_decay_per_sec=0.0, error_base_cost=0.0,
                 bw_cost_per_byte=0.0)
    rig = SessRig(env, L, attrs, kind=kind)
    s, conc = rig.s, rig.conc
    key = why = None
    stats = dict(delayed_starts=0, reorderable=0)

    def fail(kk, w):
        nonlocal key, why
        if why is None:
            key, why = kk, w

    def on_start(j):
        earlier = [i for i in rig.waiting if i < j]
        if earlier:
            stats['reorderable'] += 1
        if conc.max_concurrent == L and len(rig.hold) + len(earlier) > L:
            fail('c13:arrival-order',
                 f'handler of request {j} started at t={env.loop.time()} while {len(rig.hold) - 1} other handlers '
                 f'run and the earlier arrivals {earlier} have not started: with a limit of {L} they cannot '
                 f'all hold a slot, so request {j} was given a slot before an earlier arrival')
        if len(rig.hold) > L:
            fail('c13:exceeds-max-limit', f'{len(rig.hold)} handlers in flight, limit {L}')
    rig.on_start = on_start
    nid = 0
    for st in case['steps']:
        if st[0] == 'cost':
            x = soft + st[1] * (hard - soft) / L
            s.bump_cost(x - s.cost)
            s.recalc_concurrency()
            if conc.max_concurrent != L:
                fail('c13:max-concurrent', f'fraction {st[1]}/{L} of the soft range must leave the limit at {L}, '
                                           f'max_concurrent reads {conc.max_concurrent}')
        elif st[0] == 'recv':
            rig.feed([(nid + k, True) for k in range(st[1])], False)
            nid += st[1]
            env.idle()
        elif st[0] == 'advance':
            env.advance(st[1])
        elif st[0] == 'fin' and rig.hold:
            _release(rig.gate[rig.hold[0]])
            env.idle()
    guard = 0
    env.advance(case['sleep'] * 2)
    while (rig.hold or rig.waiting) and guard < 200:
        if rig.hold:
            _release(rig.gate[rig.hold[0]])
        env.advance(case['sleep'] * 2)
        guard += 1
    if rig.waiting:
        fail('c13:not-served', f'requests {rig.waiting} never handled although every handler finished')
    stats['delayed_starts'] = sum(1 for t in rig.started_at.values() if t > 0)
    env.close_loop()
    env.new_loop()
    return key, why, stats


def throttle_order_cases(rng, count):
    out = []
    for c in range(count):
        L = [1, 2, 3, 1, 2][c % 5]
        sleep = rng.choice([0.5, 2.0])
        fr = [0.0, 0.1, 0.4, 0.8, 0.95]
        steps = [('cost', rng.choice(fr[2:]))]
        for _ in range(rng.randint(4, 12)):
            r = rng.random()
            if r < 0.4:
                steps.append(('recv', rng.randint(1, 3)))
            elif r < 0.6:
                steps.append(('advance', rng.choice([0.015625, 0.0625, sleep / 4, sleep])))
            elif r < 0.85:
                steps.append(('cost', rng.choice(fr)))
            else:
                steps.append(('fin',))
        out.append(dict(init=L, sleep=sleep, steps=steps, kind='msg' if c % 3 == 2 else 'rpc'))
    return out


def _to_batch(cases):
    return [run_throttle_order_case(_env, c) for c in cases]


def evaluate_throttle_order(ctx, res, cases):
    results = _pmap(ctx, _to_batch, cases, chunk=20)
    for case, (key, why, stats) in zip(cases, results):
        c = dict(case, level='throttle-order')
        if why:
            res.violation(key, c, why)
        res['evaluations'] += 1
        res.count('throttle_order_cases')
        res.count('throttle_order_starts_with_earlier_arrivals_pending', stats['reorderable'])
        if stats['reorderable']:
            res.nontrivial(json.dumps(c, sort_keys=True))


def run_coincide_case(env, case):
    """A handler's completion and the processing timeout of a request queued behind it fall into
    ONE loop iteration (the loop was held up by a slow synchronous step just as the handler was
    released): the queued request's task is cancelled after the leaving handler has handed it the
    slot but before it has run again.  The slot must not be lost: a burst sent to the then idle
    session has to find all `limit` slots and be served.  Oracle only (below the granularity of the
    session scripts; the limiter-level composite step `y` is the modelled counterpart)."""
    L, kind = case['init'], case.get('kind', 'rpc')
    attrs = dict(processing_timeout=case['ptimeout'], error_base_cost=0.0, bw_cost_per_byte=0.0)
    rig = SessRig(env, L, attrs, kind=kind)
    key = why = None

    def fail(kk, w):
        nonlocal key, why
        if why is None:
            key, why = kk, w

    loop = env.loop
    q = case['queued']
    rig.feed([(i, True) for i in range(L + q)], False)
    env.idle()
    if len(rig.hold) != L:
        env.close_loop()
        env.new_loop()
        return key, why, dict(skipped=1, hit=0)
    eps = 0.015625

    def release_and_stall():
        # the handlers are released, and the same callback holds the loop up past the deadline of
        # the queued requests: their timeouts are processed right after the handlers' exits
        for i in list(rig.hold)[:case['leave']]:
            _release(rig.gate[i])
        loop._vtime += 2 * eps
    loop.call_at(case['ptimeout'] - eps, release_and_stall)
    env.advance(case['ptimeout'] + 1)
    for i in list(rig.hold):
        if not rig.gate[i].done():
            _release(rig.gate[i])
    env.advance(case['ptimeout'] + 1)
    hit = len([i for i in range(L, L + q) if i not in rig.started_at])
    base, m = 1000, L + 2
    rig.feed([(base + j, True) for j in range(m)], False)
    env.idle()
    if len(rig.hold) > L:
        fail('c13:exceeds-max-limit', f'{len(rig.hold)} handlers in flight, limit {L}')
    if len(rig.hold) < min(m, L):
        fail('c13:permit-lost',
             f'{case["leave"]} handler(s) finished in the same loop iteration in which the processing timeout '
             f'({case["ptimeout"]}s) of the {q} request(s) queued behind them fired; a burst of {m} requests to the '
             f'then idle session (limit {L}) has only {len(rig.hold)} handlers running, '
             f'{len([w for w in rig.waiting if w >= base])} waiting')
    guard = 0
    while rig.hold and guard < 100:
        _release(rig.gate[rig.hold[0]])
        env.idle()
        guard += 1
    left = [w for w in rig.waiting if w >= base]
    if left:
        fail('c13:not-served', f'requests {left} of the later burst never handled although every handler finished')
    env.close_loop()
    env.new_loop()
    return key, why, dict(skipped=0, hit=hit)


def coincide_cases(rng, count):
    out = []
    for c in range(count):
        L = [1, 2, 3][c % 3]
        out.append(dict(init=L, queued=rng.randint(1, 3), leave=rng.randint(1, L), ptimeout=rng.choice([0.5, 2.0, 30.0]),
                        kind='msg' if c % 4 == 3 else 'rpc'))
    return out


def _co_batch(cases):
    return [run_coincide_case(_env, c) for c in cases]


def evaluate_coincide(ctx, res, cases):
    results = _pmap(ctx, _co_batch, cases, chunk=20)
    for case, (key, why, stats) in zip(cases, results):
        c = dict(case, level='coincide')
        if why:
            res.violation(key, c, why)
        res['evaluations'] += 1
        res.count('coincide_cases')
        res.count('coincide_queued_requests_timed_out_in_the_iteration_of_the_exit', stats['hit'])
        if stats['hit']:
            res.nontrivial(json.dumps(c, sort_keys=True))


def _task_no(t):
    name = t.get_name()
    return int(name.rsplit('-', 1)[1]) if '-' in name and name.rsplit('-', 1)[1].isdigit() else 0


def run_teardown_case(env, case):
    """`unanswered_request_count()` while handlers are ENDED FROM OUTSIDE.  Requests and
    notifications are fed to a session (RPCSession or MessageSession) with gate-controlled handlers
    and a small limit, so that some handlers run and some invocations are still queued for a slot;
    some finish normally; then the handling of the rest is ended by `ending`:
      lost / close / abort   - the connection goes away (the message loop ends, the task group
                               cancels the handlers - running and queued alike),
      ptimeout               - processing_timeout fires (running and queued),
      cancel-running/-queued - the task of one handler invocation is cancelled from outside,
      refuse                 - the limit goes to 0: queued invocations are refused, session closes.
    Oracle, from the text ("the unanswered-request count equals the number of received requests
    and notifications whose handling has not finished"): after every step the PUBLIC
    `unanswered_request_count()` equals the number of handler invocations (one task per received
    request / notification, found through `asyncio.all_tasks`) that are not done - however they
    ended.  Oracle only for the count after the loop task is gone; the Lean session model covers
    finish-by-cancellation (`unanswered_count`, `unanswered_after_teardown`)."""
    kind = case.get('kind', 'rpc')
    attrs = dict(error_base_cost=0.0, bw_cost_per_byte=0.0, processing_timeout=case['ptimeout'])
    rig = SessRig(env, case['init'], attrs, kind=kind)
    s, conc = rig.s, rig.conc
    key = why = None
    stats = dict(ended_running=0, ended_queued=0, checks=0)
    handlers = []          # tasks of handler invocations, in creation order

    def fail(kk, w):
        nonlocal key, why
        if why is None:
            key, why = kk, w

    def check(what):
        alive = [t for t in handlers if not t.done()]
        got = s.unanswered_request_count()
        stats['checks'] += 1
        if got != len(alive):
            fail('c13:unanswered-count',
                 f'{what}: unanswered_request_count() = {got}, but {len(alive)} of the {len(handlers)} received '
                 f'requests/notifications have not finished being handled ({len(rig.hold)} handlers running, '
                 f'{len(handlers) - len(alive)} ended)')

    def feed(items, as_batch):
        before = set(asyncio.all_tasks(env.loop))
        rig.feed(items, as_batch)
        env.idle()
        new = sorted(set(asyncio.all_tasks(env.loop)) - before, key=_task_no)
        # tasks that were created and have already ended are found through the ids that started
        handlers.extend(new)
        for i, _r in items:
            t = rig.task_of.get(i)
            if t is not None and t not in handlers:
                handlers.append(t)

    nid = 0
    for size, mode in case['bursts']:
        items = [(nid + j, (nid + j) % 3 != 2) for j in range(size)]
        nid += size
        feed(items, mode == 'batch' and kind == 'rpc' and size > 1)
        check(f'after receiving {size} more')
    for _ in range(case['finish_first']):
        if rig.hold:
            _release(rig.gate[rig.hold[0]])
            env.idle()
            check('after a handler finished')
    stats['ended_running'] = len(rig.hold)
    stats['ended_queued'] = len([t for t in handlers if not t.done()]) - len(rig.hold)
    ending = case['ending']
    mine = []
    if ending == 'lost':
        rig.tr.close()
    elif ending == 'close':
        mine.append(env.loop.create_task(s.close()))
    elif ending == 'abort':
        mine.append(env.loop.create_task(s.abort()))
    elif ending == 'ptimeout':
        env.advance(case['ptimeout'] + 1)
    elif ending == 'cancel-running':
        if rig.hold:
            rig.task_of[rig.hold[-1]].cancel()
    elif ending == 'cancel-queued':
        started = set(rig.task_of.values())
        queued = [t for t in handlers if not t.done() and t not in started]
        if queued:
            queued[0].cancel()
    elif ending == 'refuse':
        conc.set_target(0)
        for i in list(rig.hold):
            _release(rig.gate[i])
            env.idle()
    env.idle()
    check(f'right after {ending}')
    env.advance(1.0)
    check(f'1s after {ending}')
    # whoever is still running may finish now
    for i in list(rig.hold):
        if not rig.gate[i].done():
            _release(rig.gate[i])
    env.idle()
    check(f'after the remaining handlers finished ({ending})')
    env.advance(case['ptimeout'] + 31)
    check(f'long after {ending}')
    for t in mine:
        t.cancel()
    env.close_loop()
    env.new_loop()
    return key, why, stats


def teardown_cases(rng, count):
    out = []
    endings = ['lost', 'close', 'abort', 'ptimeout', 'cancel-running', 'cancel-queued', 'refuse']
    for c in range(count):
        init = [1, 2, 3][c % 3]
        bursts = [(rng.randint(1, init + 3), rng.choice(['batch', 'chunk'])) for _ in range(rng.randint(1, 3))]
        out.append(dict(init=init, bursts=bursts, finish_first=rng.randint(0, 2), ending=endings[c % len(endings)],
                        ptimeout=rng.choice([2.0, 30.0]), kind='msg' if (c // 7) % 3 == 2 else 'rpc'))
    return out


def _td_batch(cases):
    return [run_teardown_case(_env, c) for c in cases]


def evaluate_teardown(ctx, res, cases):
    results = _pmap(ctx, _td_batch, cases, chunk=20)
    for case, (key, why, stats) in zip(cases, results):
        c = dict(case, level='teardown')
        if why:
            res.violation(key, c, why)
        res['evaluations'] += 1
        res.count('teardown_cases')
        res.count('teardown_handlers_ended_while_running', stats['ended_running'])
        res.count('teardown_invocations_ended_while_queued', stats['ended_queued'])
        res.count('unanswered_count_readings', stats['checks'])
        if stats['ended_running'] and stats['ended_queued']:
            res.nontrivial(json.dumps(c, sort_keys=True))


def random_session_script(rng):
    init = rng.choice([1, 2, 3, 5, 20])
    kind = 'msg' if rng.random() < 0.35 else 'rpc'
    script = []
    nid = 0
    for _ in range(rng.randint(2, 14)):
        r = rng.random()
        if r < 0.45:
            k = rng.choice([1, 1, 2, 3, 7, init + 3])
            items = [(nid + j, rng.random() < 0.8) for j in range(k)]
            nid += k
            script.append(('recv', items, rng.choice(['batch', 'chunk', 'separate'])))
        elif r < 0.8:
            script.append(('fin', rng.choice(['oldest', 'newest'])))
        else:
            script.append(('target', rng.choice([0, 0, 1, 1, 2, 3, 4, 5, 6, -1])))
    return init, script, kind


def _sess_batch(cases):
    out = []
    for init, script, kind in cases:
        ops, recs, orc, closed = run_session_case(_env, init, script, kind)
        out.append((init, script, kind, ops, recs, orc.key, orc.why, closed))
    return out


def check_session_results(ctx, res, results):
    lines = [fmt_case(init, ops) for init, _sc, _kd, ops, _r, _k, _w, _c in results]
    model = ctx.model(lines)
    for idx, (init, script, kind, ops, recs, key, why, closed) in enumerate(results):
        case = {'level': 'session', 'init': init, 'script': script, 'kind': kind}
        if why:
            res.violation(key, case, why)
        if model is not None:
            mrecs = model[idx].split(' | ') if model[idx] != '.' else []
            # a batch is one loop run: events of its member enters are concatenated by the model
            # into consecutive records; merge them the same way before comparing
            merged, acc = [], []
            for op, mr, ir in zip(ops, mrecs, recs):
                ev = mr.split(';')[0]
                if ev != '-':
                    acc += ev.split(',')
                if ir is None:
                    continue
                rest = mr.split(';', 1)[1]
                merged.append(f"{','.join(acc) if acc else '-'};{rest}")
                acc = []
            got = [r for r in recs if r is not None]
            bad = len(mrecs) != len(ops) or len(merged) != len(got)
            for g, m in zip(got, merged):
                if g.startswith('closed:'):
                    # the refusal closed the session (later waiters may be cancelled by the
                    # closing session before their turn): the refusals seen must be a non-empty
                    # prefix of the model's
                    ge = [x for x in g[7:].split(',') if x]
                    me = m.split(';')[0].split(',')
                    if not ge or ge != me[:len(ge)]:
                        bad = True
                elif g != m:
                    bad = True
            if bad:
                res.disagreement(case, ' | '.join(got), ' | '.join(merged))
        res['evaluations'] += 1
        res.count('session_cases')
        res.count('session_cases_message_session', kind == 'msg')
        res.count('session_cases_closed_by_refusal', closed)
        res.count('session_requests', sum(1 for o in ops if o[0] == 'e'))
        res.count('session_cases_with_queueing', any(r and ';w=-' not in r for r in recs))
        if any(r and ';w=-' not in r for r in recs):
            res.nontrivial(('s', init, kind, json.dumps(script)))


# ------------------------------------------------------------------ corpus
def corpus_cases(verif):
    out = []
    for line in corpus_lines(verif, 'C13'):
        toks = line.split()
        out.append((int(toks[0]), tuple(toks[1:])))
    return out


RULE = ('limiter level: case = (initial limit, op stream) executed on the real Concurrency with '
        'scripted holders, followed by 4 probe entries and an oldest-first drain; exhaustive = every '
        'stream up to the stated length over {enter, exit oldest/newest holder, cancel oldest/newest '
        'waiter, set_target 1..3 other than the current value} applicable in the state reached, for '
        'initial limits 1..3; random = longer streams with targets -1..5.  session level: case = '
        '(initial_concurrent, script of receive-bursts (single messages / JSON batches, requests and '
        'notifications), handler completions, set_target); non-trivial = at least one task had to '
        'wait; distinct = distinct (limit, stream) tuples')


def run(ctx):
    res = Results()
    rng = ctx.rng
    _init(ctx.repo)
    # (a) corpus
    cc = corpus_cases(ctx.verif)
    if cc:
        check_results(ctx, res, _lim_batch(cc), 'corpus')
    res['scopes']['corpus'] = len(cc)
    full = ctx.tier == 'thorough'
    # (b) session level first (cheap, targeted): bursts through a real RPCSession, and requests
    # that time out while throttled / queued followed by a refund and a second burst
    ntt = 20
    evaluate_throttle_timeout(ctx, res, throttle_timeout_cases(rng, ntt))
    nto = 60
    evaluate_throttle_order(ctx, res, throttle_order_cases(rng, nto))
    ntd = 56
    evaluate_teardown(ctx, res, teardown_cases(rng, ntd))
    nco = 24
    evaluate_coincide(ctx, res, coincide_cases(rng, nco))
    nsess = 300
    sres = _pmap(ctx, _sess_batch, [random_session_script(rng) for _ in range(nsess)], chunk=100)
    check_session_results(ctx, res, sres)
    # (c) exhaustive small scope
    # a fingerprint drift / broken proof in the quick tier explores deeper, within the quick budget
    maxlen = (8 if full else 7) if ctx.deep and not res.failed else 6
    total, reached = exhaustive_limiter(ctx, res, maxlen)
    res['scopes']['exhaustive_limiter'] = {'max_ops': reached, 'initial_limits': [1, 2, 3],
                                           'streams': total, 'tail': f'{PROBES} probes + drain'}
    # (d) random longer streams (half of them with limits <= 0 allowed)
    nrand = (20000 if full else 5000) if ctx.deep and not res.failed else 1500
    cases = [random_limiter_case(rng, k % 2 == 1) for k in range(nrand)]
    check_results(ctx, res, _pmap(ctx, _lim_batch, cases), 'random')
    res['scopes']['random_limiter'] = nrand
    # (e) more of the session level while nothing has failed
    if ctx.deep and not res.failed:
        more = 3700 if full else 700
        check_session_results(ctx, res, _pmap(ctx, _sess_batch, [random_session_script(rng) for _ in range(more)], chunk=100))
        nsess += more
        evaluate_throttle_timeout(ctx, res, throttle_timeout_cases(rng, 40))
        ntt += 40
        more = 1500 if full else 200
        evaluate_throttle_order(ctx, res, throttle_order_cases(rng, more))
        nto += more
        more = 1400 if full else 140
        evaluate_teardown(ctx, res, teardown_cases(rng, more))
        ntd += more
    res['scopes']['session'] = nsess
    res['scopes']['session_timeout_while_throttled'] = ntt
    res['scopes']['session_arrival_order_while_throttled'] = nto
    res['scopes']['session_handlers_ended_from_outside'] = ntd
    res['scopes']['session_exit_and_queue_timeout_in_one_iteration'] = nco
    for init, script, _kd, ops, recs, _k, _w, _c in sres[:2]:
        res.sample({'level': 'session', 'case': fmt_case(init, ops)[:300],
                    'impl': ' | '.join(r for r in recs if r)[:400]})
    return res.finish(RULE, exhaustive=(reached == maxlen))


def replay(ctx, case):
    if 'case' in case and isinstance(case['case'], dict):
        case = case['case']
    res = Results()
    _init(ctx.repo)
    if case.get('level') == 'throttle-timeout':
        evaluate_throttle_timeout(ctx, res, [{k: v for k, v in case.items() if k != 'level'}])
    elif case.get('level') == 'coincide':
        evaluate_coincide(ctx, res, [{k: v for k, v in case.items() if k != 'level'}])
    elif case.get('level') == 'teardown':
        c = {k: v for k, v in case.items() if k != 'level'}
        c['bursts'] = [tuple(b) for b in c['bursts']]
        evaluate_teardown(ctx, res, [c])
    elif case.get('level') == 'throttle-order':
        c = {k: v for k, v in case.items() if k != 'level'}
        c['steps'] = [tuple(x) for x in c['steps']]
        evaluate_throttle_order(ctx, res, [c])
    elif case.get('level') == 'session':
        script = [tuple(s) if not isinstance(s, tuple) else s for s in case['script']]
        script = [(s[0], [tuple(x) for x in s[1]], s[2]) if s[0] == 'recv' else tuple(s) for s in script]
        check_session_results(ctx, res, _sess_batch([(case['init'], script, case.get('kind', 'rpc'))]))
    else:
        check_results(ctx, res, _lim_batch([(case['init'], tuple(case['ops']))]), 'replay')
    res.sample(case)
    return res.finish('replay of one recorded case')
