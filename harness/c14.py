"""C14 correspondence + search.

Level 1 (accounting): histories of traffic / errors / bump_cost(+-) / extra_cost / time advances /
explicit recalc_concurrency x configurations (incl. hard <= soft, client sessions) on a real
`SessionBase` subclass with `aiorpcx.session.time` replaced by a manual clock; compared op by op
with the Lean model over exact rationals (`drv_c14`).  Inputs are dyadic; where the exact value is
within 1e-9 of a discontinuity (`ceil`, the strict drift test) either neighbour is accepted / the
history is abandoned there (floats are never compared for equality).
Level 2 (session): a real server `RPCSession` on a fake transport and the virtual loop: cost is
driven up, requests are fed, and the delay before the handler starts, the -101 reply, the hook
call and `is_closing()` are observed; a client session is driven the same way.

ORACLE (from the property text, on observables only: `cost`, `max_concurrent`, replies, hook,
`is_closing()`, virtual times):
 * cost never negative;
 * a charging event of c units moves cost to max(0, before + c) or - if the session chose to
   re-evaluate - to that value decayed by (now - last evaluation)*rate, clamped at 0;
   c = n*bw for n bytes received/sent, base + exc.cost for an error;
 * an explicit recalc_concurrency() decays by elapsed*rate (clamped) - nothing else;
 * server, hard > soft: after an evaluation with evaluated cost ev = cost + extra_cost():
   ev <= soft => limit == initial; ev >= hard => limit == 0; in between 0 < limit <= initial;
   over all evaluations of one configuration the limit is monotone non-increasing in ev;
 * hard <= soft, or client: limit stays initial for ever; never refused, never delayed;
 * session level: a request admitted after an evaluation with soft <= ev < hard starts after
   cost_sleep*(ev-soft)/(hard-soft) virtual seconds (0 below soft); after an evaluation with
   ev >= hard the next request is answered -101, the hook ran, the handler did not, the session is
   closing."""
import asyncio
import json
import math
import os
from fractions import Fraction as F
from multiprocessing import Pool

from harness.base import Results, corpus_lines
from harness.lim_fake import Env, find_incoming_limiter

TIE = F(1, 10**9)


def fr(x):
    """exact rational text of a float / int"""
    f = F(x)
    return str(f.numerator) if f.denominator == 1 else f'{f.numerator}/{f.denominator}'


def parse_q(s):
    return F(s)


class StubTransport:
    def __init__(self, kind):
        self.kind = kind


def make_base_session(env, cfg, client):
    SessionBase = env.session.SessionBase
    attrs = dict(bw_cost_per_byte=cfg['bw'], cost_soft_limit=cfg['soft'], cost_hard_limit=cfg['hard'],
                 cost_decay_per_sec=cfg['decay'], cost_sleep=cfg['sleep'], error_base_cost=cfg['base'],
                 initial_concurrent=cfg['init'], _extra=0.0,
                 extra_cost=lambda self: self._extra)
    cls = type('S', (SessionBase,), attrs)
    kind = env.session.SessionKind.CLIENT if client else env.session.SessionKind.SERVER
    return cls(StubTransport(kind))


def cfg_line(cfg, client, threshold, start):
    return ' '.join(['C' if client else 'S', fr(cfg['bw']), fr(cfg['soft']), fr(cfg['hard']),
                     fr(cfg['decay']), fr(cfg['sleep']), fr(cfg['base']), fr(threshold),
                     str(cfg['init']), fr(start)])


def op_text(op):
    k = op[0]
    if k == 'r':
        return 'r'
    if k in 'ds':
        return f'{k}{op[1]}'
    return f'{k}{fr(op[1])}'


# ------------------------------------------------------------------ level 1
class AcctOracle:
    def __init__(self, cfg, client, start):
        self.cfg = cfg
        self.client = client
        self.tevals = {start}   # candidate times of the last evaluation (ambiguity keeps several)
        self.now = start
        self.extra = 0.0
        self.why = None
        self.key = None
        self.evals = []      # (ev, limit) pairs seen right after an explicit evaluation
        self.hard = 0 if client else cfg['hard']

    def fail(self, key, why):
        if self.why is None:
            self.key, self.why = key, why

    @staticmethod
    def close(a, b):
        return abs(a - b) <= 1e-6 * max(1.0, abs(a), abs(b))

    def after(self, op, before, cost, limit):
        cfg = self.cfg
        k = op[0]
        if cost < 0:
            self.fail('c14:negative-cost', f'cost {cost} after {op}')
        if k == 'a':
            self.now += op[1]
        elif k == 'x':
            self.extra = op[1]
        charge = None
        if k == 'b':
            charge = op[1]
        elif k in 'ds':
            charge = op[1] * cfg['bw']
        elif k == 'e':
            charge = cfg['base'] + op[1]
        decayed = lambda c, t: max(0.0, c - (self.now - t) * cfg['decay'])
        if charge is not None:
            c1 = max(0.0, before + charge)
            no_eval = self.close(cost, c1)
            with_eval = [t for t in self.tevals if self.close(cost, decayed(c1, t))]
            if not no_eval and not with_eval:
                self.fail('c14:charge', f'{op}: cost went {before} -> {cost}; expected {c1} (charged '
                                        f'{charge}) or that value decayed since the last evaluation '
                                        f'({sorted(decayed(c1, t) for t in self.tevals)})')
            else:
                self.tevals = (self.tevals if no_eval else set()) | ({self.now} if with_eval else set())
        elif k == 'r':
            if not any(self.close(cost, decayed(before, t)) for t in self.tevals):
                self.fail('c14:decay', f'recalc: cost went {before} -> {cost}; expected '
                                       f'{sorted(decayed(before, t) for t in self.tevals)}')
            self.tevals = {self.now}
        elif not self.close(cost, before):
            self.fail('c14:spurious-change', f'{op} changed cost {before} -> {cost}')
        init = cfg['init']
        if self.hard <= cfg['soft']:
            if limit != init:
                self.fail('c14:limited-although-disabled',
                          f'limit {limit} != initial {init} although hard {self.hard} <= soft {cfg["soft"]}'
                          f'{" (client)" if self.client else ""}')
        else:
            if not (0 <= limit <= init):
                self.fail('c14:limit-range', f'limit {limit} outside [0, {init}]')
            if k == 'r':
                ev = cost + self.extra
                soft, hard = cfg['soft'], self.hard
                eps = 1e-6 * max(1.0, abs(ev))
                if ev <= soft - eps and limit != init:
                    self.fail('c14:below-soft', f'evaluated cost {ev} <= soft {soft} but limit {limit} != {init}')
                if ev >= hard + eps and limit != 0:
                    self.fail('c14:past-hard', f'evaluated cost {ev} >= hard {hard} but limit {limit} != 0')
                if soft + eps < ev < hard - eps and not (0 < limit <= init):
                    self.fail('c14:between', f'evaluated cost {ev} in (soft, hard) but limit {limit}')
                for ev0, l0 in self.evals:
                    if ev0 + eps < ev and limit > l0 or ev + eps < ev0 and limit < l0:
                        self.fail('c14:not-monotone',
                                  f'limit {l0} at evaluated cost {ev0} but {limit} at {ev}')
                self.evals.append((ev, limit))


def run_acct_case(env, cfg, client, ops, start=0.0):
    env.vtime.loop = None
    env.vtime.manual = start
    s = make_base_session(env, cfg, client)
    orc = AcctOracle(cfg, client, start)
    obs = []
    for op in ops:
        k = op[0]
        before = s.cost
        try:
            if k == 'b':
                s.bump_cost(op[1])
            elif k == 'r':
                s.recalc_concurrency()
            elif k == 'd':
                s.data_received(bytes(op[1]) if op[1] <= 4096 else _Sized(op[1]))
            elif k == 's':
                # the charging part of _send_message (the write itself is exercised at session level)
                n = op[1]
                s.send_size += n
                s.bump_cost(n * s.bw_cost_per_byte)
                s.send_count += 1
            elif k == 'e':
                charge_error = getattr(s, '_bump_errors', None)
                if charge_error is not None:
                    charge_error(_Exc(op[1]) if op[1] is not None else None)
                else:
                    # the private helper was renamed: the charge itself goes through the public
                    # bump_cost (the live-session scenarios exercise the real error path)
                    s.errors += 1
                    s.bump_cost(s.error_base_cost + (op[1] or 0.0))
            elif k == 'a':
                env.vtime.manual += op[1]
            elif k == 'x':
                s._extra = op[1]
        except Exception as e:      # noqa: the accounting must not raise for any configuration
            orc.fail('c14:accounting-raised', f'{op} raised {type(e).__name__}: {e}')
            break
        limit = find_incoming_limiter(s).max_concurrent
        orc.after(op, before, s.cost, limit)
        obs.append((s.cost, limit))
    return obs, orc


class _Sized:
    """stands for a chunk of n bytes without allocating it (only len() is used)"""
    def __init__(self, n):
        self.n = n

    def __len__(self):
        return self.n


class _Exc(Exception):
    def __init__(self, cost):
        super().__init__()
        self.cost = cost


def walk_acct(ops, obs, mline, forced):
    """impl observations vs one model line.  -> ('ok',) | ('tie', j) | ('diff', impl, model) and the
    number of ceil ties accepted"""
    recs = mline.split(' | ')
    nceil = 0
    for j, (op, (cost, limit), rec) in enumerate(zip(ops, obs, recs)):
        mc, mf, mt, mx, margin, _adm = rec.split(';')
        mc, mx = parse_q(mc), parse_q(mx)
        if margin != '-' and j not in forced:
            mg = parse_q(margin)
            if abs(mg) <= F(1, 10**7) * max(1, abs(mc)):
                return ('tie', j), nceil
        if abs(float(mc) - cost) > 1e-6 * max(1.0, abs(cost)):
            return ('diff', f'op {j} {op}: cost {cost!r}', f'cost {float(mc)!r} ({mc})'), nceil
        mt = int(mt)
        if mt != limit:
            near = abs(mx - round(mx)) <= TIE * max(1, abs(mx))
            if near and abs(mt - limit) == 1:
                nceil += 1
            else:
                return ('diff', f'op {j} {op}: limit {limit}', f'limit {mt} (x = {float(mx)!r})'), nceil
    return ('ok',), nceil


def model_line(cfg, client, threshold, ops, forced):
    toks = []
    for j, o in enumerate(ops):
        t = op_text(o)
        if j in forced:
            t = ('!' if forced[j] else '~') + t
        toks.append(t)
    return cfg_line(cfg, client, threshold, 0.0) + ' | ' + ' '.join(toks)


def compare_all(ctx, res, cases, results, threshold, max_forks=4):
    """Follow both branches of the strict drift test wherever the exact value is within 1e-7 of
    the threshold (DESIGN §3): a case agrees if some assignment of those ties agrees."""
    pending = [(idx, {}) for idx in range(len(cases))]
    settled = {}
    firstdiff = {}
    rounds = 0
    while pending:
        lines = [model_line(cases[i][0], cases[i][1], threshold, cases[i][2], forced) for i, forced in pending]
        out = ctx.model(lines)
        if out is None:
            return
        nxt = []
        for (i, forced), mline in zip(pending, out):
            if settled.get(i) == 'ok':
                continue
            (verdict, *rest), nceil = walk_acct(cases[i][2], results[i][0], mline, forced)
            if verdict == 'ok':
                settled[i] = 'ok'
                res.count('ceil_tie_accepted', nceil)
                if forced:
                    res.count('histories_with_drift_tie_followed')
            elif verdict == 'tie':
                if len(forced) >= max_forks:
                    settled.setdefault(i, 'abandoned')
                else:
                    for b in (True, False):
                        f2 = dict(forced)
                        f2[rest[0]] = b
                        nxt.append((i, f2))
            else:
                firstdiff.setdefault(i, rest)
        pending = [(i, f) for i, f in nxt if settled.get(i) != 'ok']
        rounds += 1
    for i in range(len(cases)):
        st = settled.get(i)
        if st == 'ok':
            continue
        cfg, client, ops = cases[i]
        case = {'level': 'accounting', 'cfg': cfg, 'client': client, 'ops': [list(o) for o in ops]}
        if st == 'abandoned':
            res.count('abandoned_after_4_drift_ties')
        elif i in firstdiff:
            res.disagreement(case, firstdiff[i][0], firstdiff[i][1])


def dy(rng, lo, hi, q=16):
    return rng.randint(int(lo * q), int(hi * q)) / q


def random_cfg(rng):
    kind = rng.random()
    cfg = dict(bw=rng.choice([1 / 1024, 1 / 65536, 1 / 100000]), sleep=rng.choice([2.0, 0.5, 8.0]),
               base=dy(rng, 0, 300), init=rng.choice([1, 2, 3, 5, 20, 20, 30]),
               decay=rng.choice([0.0, dy(rng, 0, 8), 10000 / 3600]))
    if kind < 0.05:
        cfg['soft'] = dy(rng, 0, 3000)
        cfg['hard'] = cfg['soft']                          # hard == soft exactly: disabled, no division
    elif kind < 0.25:
        cfg['soft'], cfg['hard'] = 2000, 10000            # the defaults
    elif kind < 0.45:
        cfg['soft'] = dy(rng, 0, 3000)
        cfg['hard'] = dy(rng, 0, cfg['soft'])              # hard <= soft: limiting disabled
    else:
        cfg['soft'] = dy(rng, 0, 3000)
        cfg['hard'] = cfg['soft'] + dy(rng, 0.0625, 6000)
    return cfg


def random_history(rng, cfg):
    ops = []
    span = max(cfg['hard'], cfg['soft'], 500)
    for _ in range(rng.randint(1, 40)):
        k = rng.random()
        if k < 0.22:
            ops.append((rng.choice('ds'), rng.choice([0, 1, 100, 5000, 65536, 10**6, 3 * 10**6, 10**7 + 1])))
        elif k < 0.4:
            ops.append(('e', rng.choice([0.0, 0.0, dy(rng, 0, span), cfg['base'] * 10])))
        elif k < 0.58:
            ops.append(('b', dy(rng, -span, span) if rng.random() < 0.7 else dy(rng, -150, 150)))
        elif k < 0.72:
            ops.append(('a', dy(rng, 0, 2000) if rng.random() < 0.8 else dy(rng, 0, 4)))
        elif k < 0.82:
            ops.append(('x', dy(rng, -span / 2, span)))
        else:
            ops.append(('r',))
    return ops


def exhaustive_grid(limit):
    """small exhaustive scope: every history of <= `limit` ops from a fixed alphabet around the
    soft/hard limits and the drift threshold, on one server configuration"""
    import itertools
    cfg = dict(bw=1 / 1024, soft=200, hard=600, decay=0.5, sleep=2.0, base=100, init=4)
    alphabet = [('b', 150.0), ('b', 101.0), ('b', -250.0), ('e', 0.0), ('e', 300.0), ('d', 65536),
                ('a', 100.0), ('a', 1000.0), ('x', 250.0), ('x', -100.0), ('r',)]
    for n in range(1, limit + 1):
        for ops in itertools.product(alphabet, repeat=n):
            yield cfg, False, list(ops)


_env = None


def _init(repo):
    global _env
    _env = Env(repo)
    _env.new_loop()


def _acct_batch(cases):
    out = []
    for cfg, client, ops in cases:
        obs, orc = run_acct_case(_env, cfg, client, ops)
        out.append((obs, orc.key, orc.why))
    return out


def _pmap(ctx, fn, cases, chunk=500, init=_init):
    if len(cases) < 4000:
        if _env is None or _env.repo != ctx.repo:
            _init(ctx.repo)
        return fn(cases)
    nproc = min(12, os.cpu_count() or 1)
    jobs = [cases[i:i + chunk] for i in range(0, len(cases), chunk)]
    with Pool(nproc, initializer=_init, initargs=(ctx.repo,)) as pool:
        parts = pool.map(fn, jobs)
    return [r for p in parts for r in p]


def evaluate_acct(ctx, res, cases, scope, threshold):
    results = _pmap(ctx, _acct_batch, cases)
    if ctx.have_model:
        compare_all(ctx, res, cases, results, threshold)
    for idx, ((cfg, client, ops), (obs, key, why)) in enumerate(zip(cases, results)):
        case = {'level': 'accounting', 'cfg': cfg, 'client': client, 'ops': [list(o) for o in ops]}
        if why:
            res.violation(key, case, why)
        res['evaluations'] += 1
        res.count(f'{scope}_histories')
        res.count('events', len(ops))
        hard = 0 if client else cfg['hard']
        res.count('histories_client', client)
        res.count('histories_limiting_disabled', hard <= cfg['soft'])
        res.count('histories_reaching_limit_0', any(l == 0 for _c, l in obs))
        res.count('histories_throttled', any(0 < l < cfg['init'] for _c, l in obs))
        if len(ops) >= 3 and any(l != cfg['init'] for _c, l in obs):
            res.nontrivial(json.dumps([cfg, client, [list(o) for o in ops]], sort_keys=True))


# ------------------------------------------------------------------ level 2: session
def make_session_class(env, cfg, kind='rpc'):
    """kind 'rpc': RPCSession fed JSON lines; 'msg': MessageSession fed Bitcoin frames (command =
    what the handler does, payload = `<id>[:<own cost>]`).  Only public hooks are overridden."""
    base = env.session.RPCSession if kind == 'rpc' else env.session.MessageSession
    # the error a handler fails with: an RPCError on an RPC session; a message session knows
    # nothing of JSON-RPC, there a handler signals a costly failure with a ProtocolError
    RPCError = env.jsonrpc.RPCError if kind == 'rpc' else env.jsonrpc.ProtocolError

    class Srv(base):
        bw_cost_per_byte = cfg['bw']
        cost_soft_limit = cfg['soft']
        cost_hard_limit = cfg['hard']
        cost_decay_per_sec = cfg['decay']
        cost_sleep = cfg['sleep']
        error_base_cost = cfg['base']
        initial_concurrent = cfg['init']
        processing_timeout = cfg.get('ptimeout', 30.0)
        _extra = 0.0
        log = None
        gates = None
        limiter = None

        def extra_cost(self):
            return self._extra

        def on_disconnect_due_to_excessive_session_cost(self):
            self.log.append(('hook', self.loop.time()))

        async def _handle(self, method, rid, cost):
            self.log.append(('start', rid, self.loop.time(), self.limiter.max_concurrent))
            try:
                if method == 'hold':
                    # scripted holder: waits for its gate, then fails with the given cost (or succeeds)
                    cost = await self.gates[rid]
                    if cost is not None:
                        e = RPCError(7, 'no')
                        e.cost = cost
                        raise e
                    return rid
                if method == 'fail':
                    e = RPCError(7, 'no')
                    e.cost = cost
                    raise e
                if method == 'crash':
                    raise ValueError('handler crashed')
                if method == 'unenc':
                    # a result that cannot be encoded as JSON: the request fails at the reply
                    return unencodable(rid)
                return rid
            finally:
                self.log.append(('finish', rid, self.loop.time()))

        async def handle_request(self, request):
            a = request.args
            return await self._handle(request.method, a[0], a[1] if len(a) > 1 else 0.0)

        async def handle_message(self, message):
            parts = message[1].decode().split(':')
            return await self._handle(message[0].rstrip(b'\0').decode(), int(parts[0]),
                                      float(parts[1]) if len(parts) > 1 else 0.0)
    return Srv


def unencodable(k):
    """values json cannot encode: a set, bytes, a list nested beyond the recursion limit"""
    if k % 3 == 0:
        return {1, 2}
    if k % 3 == 1:
        return b'bytes'
    deep = []
    for _ in range(3000):
        deep = [deep]
    return deep


class Live:
    """a live server (or client) session of either class on the fake transport"""

    def __init__(self, env, cfg, kind='rpc', client=False):
        env.new_loop()
        self.env, self.cfg, self.kind = env, cfg, kind
        cls = make_session_class(env, cfg, kind)
        self.proto, self.tr, self.s = env.make_session(cls, 'client' if client else 'server')
        s = self.s
        s.log, s.gates = [], {}
        s.limiter = find_incoming_limiter(s)
        self.lim = s.limiter
        env.idle()

    def wire(self, method, rid, *extra, notification=False):
        if self.kind == 'msg':
            payload = str(rid) if not extra else f'{rid}:{extra[0]}'
            return self.env.framing.BitcoinFramer().frame((method.encode(), payload.encode()))
        d = {'jsonrpc': '2.0', 'method': method, 'params': [rid] + list(extra)}
        if not notification:
            d['id'] = rid
        return json.dumps(d).encode() + b'\n'

    def feed(self, data):
        self.proto.data_received(data)

    def hold(self, rid):
        self.s.gates[rid] = self.env.loop.create_future()
        self.feed(self.wire('hold', rid))

    def release(self, rid, cost=None):
        g = self.s.gates.get(rid)
        if g is not None and not g.done():
            g.set_result(cost)

    def starts(self, rid=None):
        return [e for e in self.s.log if e[0] == 'start' and (rid is None or e[1] == rid)]

    def hooks(self):
        return [e for e in self.s.log if e[0] == 'hook']

    def running(self):
        fin = {e[1] for e in self.s.log if e[0] == 'finish'}
        return [e[1] for e in self.s.log if e[0] == 'start' and e[1] not in fin]

    def replies(self, since=0):
        out = []
        if self.kind == 'msg':
            return out
        for chunk in self.tr.out[since:]:
            for line in chunk.split(b'\n'):
                if line.strip():
                    try:
                        v = json.loads(line)
                    except ValueError:
                        continue
                    out += v if isinstance(v, list) else [v]
        return out

    def sent_sizes(self, since=0):
        """(bytes written, number of writes): the charge for a sent message may or may not include
        the framing (one newline per JSON message), the text does not say"""
        chunks = self.tr.out[since:]
        return sum(len(c) for c in chunks), len(chunks)

    def close(self):
        for g in self.s.gates.values():
            if not g.done():
                g.cancel()
        self.env.close_loop()


MALFORMED = ('garbage', 'invalid', 'emptybatch', 'badbatch', 'badsum')


def malformed_bytes(live, st):
    k = st[0]
    if k == 'garbage':
        return b'\xff\xfe{{ not json ' + str(st[1]).encode() + b'\n'
    if k == 'invalid':
        return json.dumps({'jsonrpc': '2.0', 'method': 5, 'id': st[1]}).encode() + b'\n'
    if k == 'emptybatch':
        return b'[]\n'
    if k == 'badbatch':
        return json.dumps([7, 'x', None][:max(1, st[2] % 4)] * (1 + st[2] // 4)).encode() + b'\n'
    if k == 'badsum':
        frame = bytearray(live.wire('req', st[1]))
        frame[-1] ^= 0xFF
        return bytes(frame)
    raise AssertionError(k)


def run_session_case(env, cfg, client, script, kind='rpc'):
    """script: list of ('bump', d) / ('extra', e) / ('advance', dt) / ('eval',) / ('req', id) /
    ('fail', id, own_cost) / ('crash', id), the same three as *notifications* ('nreq', 'nfail',
    'ncrash': no id, so no reply; on a MessageSession everything is a notification), and malformed
    input ('garbage', id) / ('invalid', id) / ('emptybatch', id) / ('badbatch', id, n) on an RPC
    session, ('badsum', id) on a message session.  Returns the oracle verdict (key, why), stats."""
    live = Live(env, cfg, kind, client)
    s, tr = live.s, live.tr
    key = why = None
    stats = dict(refused=0, delayed=0, prompt=0, malformed=0)

    def fail(k, w):
        nonlocal key, why
        if why is None:
            key, why = k, w

    hard = 0 if client else cfg['hard']
    soft = cfg['soft']
    limiting = hard > soft
    ev_last = None            # evaluated cost at the last explicit evaluation
    closed = False
    for st in script:
        if closed:
            break
        if st[0] == 'bump':
            try:
                s.bump_cost(st[1])
            except Exception as e:      # noqa
                fail('c14:accounting-raised', f'bump_cost({st[1]}) raised {type(e).__name__}: {e}')
                break
            ev_last = None    # may or may not have re-evaluated
        elif st[0] == 'extra':
            s._extra = st[1]
        elif st[0] == 'advance':
            env.advance(st[1])
        elif st[0] == 'eval':
            try:
                s.recalc_concurrency()
            except Exception as e:      # noqa
                fail('c14:accounting-raised', f'recalc_concurrency() raised {type(e).__name__}: {e}')
                break
            ev_last = s.cost + s._extra
        elif st[0] in MALFORMED:
            if (st[0] == 'badsum') != (kind == 'msg'):
                continue
            data = malformed_bytes(live, st)
            nout = len(tr.out)
            cost_before, errors_before, t0 = s.cost, s.errors, env.loop.time()
            live.feed(data)
            env.advance(1.0)
            sent, nwrites = live.sent_sizes(nout)
            # a protocol violation costs the base error cost plus any error-specific cost (not
            # fixed by the text, never negative) on top of the traffic, and counts as an error;
            # if that re-evaluated, the decay covers at most the time since the last evaluation
            least = cost_before + (len(data) + sent - nwrites) * cfg['bw'] + cfg['base']
            slack = 1e-6 * max(1.0, least) + cfg['decay'] * (env.loop.time() + 1e4)
            if s.errors - errors_before < 1:
                fail('c14:error-count', f'{st[0]} input: session.errors went {errors_before} -> {s.errors}')
            if cfg['decay'] == 0 and s.cost < least - slack:
                fail('c14:error-charge', f'{st[0]} input ({len(data)} bytes in, {sent} out): cost {cost_before} -> '
                                         f'{s.cost}, expected at least {least} (traffic + base error cost {cfg["base"]})')
            if s.cost < 0:
                fail('c14:negative-cost', f'cost {s.cost}')
            stats['malformed'] += 1
            if s.is_closing():
                closed = True
            ev_last = None
        elif st[0] in ('req', 'fail', 'crash', 'unenc', 'nreq', 'nfail', 'ncrash'):
            rid = st[1]
            is_notification = st[0][0] == 'n' or kind == 'msg'
            method = st[0][1:] if st[0][0] == 'n' else st[0]
            data = live.wire(method, rid, *st[2:], notification=is_notification)
            t0 = env.loop.time()
            nout = len(tr.out)
            cost_before = s.cost
            errors_before = s.errors
            live.feed(data)
            env.advance(cfg['sleep'] * 4 + 1)
            started = live.starts(rid)
            hooks = live.hooks()
            replies = live.replies(nout)
            code = replies[0].get('error', {}).get('code') if replies else None
            if s.cost < 0:
                fail('c14:negative-cost', f'cost {s.cost}')
            if ev_last is None:
                continue          # only judged right after an explicit evaluation
            eps = 1e-6 * max(1.0, abs(ev_last))
            # the request's own bytes are charged before it is admitted; they are small
            if not limiting or ev_last <= soft - eps:
                if not started or code == -101 or hooks:
                    fail('c14:refused-or-lost-below-soft',
                         f'request {rid}: evaluated cost {ev_last}, soft {soft}, hard {hard}'
                         f'{" (client)" if client else ""}: started={bool(started)} code={code} hook={bool(hooks)}')
                elif abs(started[0][2] - t0) > 1e-9:
                    fail('c14:delayed-below-soft', f'request {rid} started after {started[0][2] - t0}s '
                                                   f'although evaluated cost {ev_last} <= soft / limiting disabled')
                else:
                    stats['prompt'] += 1
            elif ev_last >= hard + eps:
                if started:
                    fail('c14:executed-past-hard', f'request {rid} was executed although evaluated cost '
                                                   f'{ev_last} >= hard {hard}')
                if code != -101 and not is_notification:
                    fail('c14:no-101-past-hard', f'request {rid}: reply code {code}, expected -101')
                if is_notification and replies:
                    fail('c14:reply-to-notification', f'notification {rid} was answered: {replies[:1]}')
                if not hooks:
                    fail('c14:hook-not-called', f'request {rid}: disconnect hook not called')
                if not s.is_closing():
                    fail('c14:not-closed-past-hard', f'request {rid}: session not closing after refusal')
                stats['refused'] += 1
                closed = True
            elif soft + eps < ev_last < hard - eps:
                want = cfg['sleep'] * (ev_last - soft) / (hard - soft)
                if not started:
                    # the bytes of the request itself may have pushed a re-evaluation past hard;
                    # only possible if a drift re-evaluation happened: the request is tiny, so no
                    fail('c14:not-started-between', f'request {rid} not started; evaluated cost {ev_last}')
                else:
                    got = started[0][2] - t0
                    if abs(got - want) > 1e-6 * max(1.0, want) + 1e-9:
                        fail('c14:delay-not-proportional',
                             f'request {rid} started after {got}s, expected {want}s '
                             f'(evaluated {ev_last}, soft {soft}, hard {hard}, cost_sleep {cfg["sleep"]})')
                    if got > cfg['sleep'] + 1e-9:
                        fail('c14:delay-above-max', f'delay {got} > cost_sleep {cfg["sleep"]}')
                    stats['delayed'] += 1
            if started and not closed:
                # bytes of the message and of its reply are charged at the per-byte rate (with or
                # without the framing byte of a sent message: the text does not say); a failed
                # request OR notification costs base + its own cost on top and counts as an error;
                # if that re-evaluates, the decay covers the time since the evaluation.
                # (a handler result that cannot be encoded makes the REQUEST fail - error reply -;
                # for a notification nothing has to be encoded)
                failing = method in ('fail', 'crash') or (method == 'unenc' and not is_notification)
                own = st[2] if method == 'fail' else 0.0
                sent, nwrites = live.sent_sizes(nout)
                if is_notification and sent:
                    fail('c14:reply-to-notification', f'notification {rid} was answered')
                wants = []
                for out_bytes in (sent - nwrites, sent):
                    w = cost_before + (len(data) + out_bytes) * cfg['bw'] + ((cfg['base'] + own) if failing else 0.0)
                    wants += [w, max(0.0, w - (started[0][2] - t0) * cfg['decay'])]
                what = ('failed ' if failing else '') + ('notification' if is_notification else 'request')
                if not any(abs(s.cost - w) <= 1e-6 * max(1.0, w) for w in wants):
                    fail('c14:error-charge' if failing else 'c14:traffic-charge',
                         f'{what} {rid}: cost {cost_before} -> {s.cost}, expected {wants[0]} '
                         f'(or {wants[1]} if re-evaluated): {len(data)} bytes in, {sent - nwrites} out'
                         + (f', error base {cfg["base"]} + own cost {own}' if failing else ''))
                if s.errors - errors_before != (1 if failing else 0):
                    fail('c14:error-count', f'{what} {rid}: session.errors went {errors_before} -> {s.errors}')
                stats['failing_notifications'] = stats.get('failing_notifications', 0) + (failing and is_notification)
            ev_last = None
    live.close()
    return key, why, stats


def run_queue_case(env, case):
    """The C13 x C14 composition: the limiter is saturated by gate-controlled handlers, more
    requests are queued, then the cost crosses the hard limit by `route`:
      'holder'  - one holder ends with an expensive error (re-evaluation at that moment),
      'bump'    - bump_cost (+ explicit evaluation),
      'garbage' - garbage lines (parse errors) / bad checksums until the limit is 0,
      'traffic' - a big chunk of bytes received;
    then the holders finish (oldest first).  Property: once the evaluated cost has reached the hard
    limit no further request is executed; one admitted from then on is refused with -101, the hook
    runs, the session is closed ("finally disconnects") - so every queued request must be refused
    rather than left waiting for its processing timeout."""
    cfg = case['cfg']
    kind = case.get('kind', 'rpc')
    live = Live(env, cfg, kind)
    s, tr = live.s, live.tr
    key = why = None

    def fail(k, w):
        nonlocal key, why
        if why is None:
            key, why = k, w

    n, w, route = cfg['init'], case['waiters'], case.get('route', 'holder')
    for i in range(n):
        live.hold(i)
    env.idle()
    for j in range(n, n + w):
        live.feed(live.wire('req', j))
    env.idle()
    started = {e[1] for e in live.starts()}
    stats = dict(refused=0, skipped=0)
    if started != set(range(n)):
        # not the situation this scenario is about (judged by the other scenarios)
        stats['skipped'] = 1
        live.close()
        return key, why, stats
    nout = len(tr.out)
    # the same history for the composed model (drv_c14 Q): arrivals, the crossing, the completions.
    # (Not for route 'holder': there the permit is released before the failure is charged, an
    # interleaving below the granularity of the composed big-step model.)
    mops = [f'A{i}' for i in range(n + w)]
    if route == 'holder':
        mops = None
        live.release(case['which'], case['cost'])
    elif route == 'bump':
        s.bump_cost(case['cost'])
        s.recalc_concurrency()
        mops += [f'b{fr(case["cost"])}', 'r']
    elif route == 'garbage':
        guard = 0
        before = s.cost
        while live.lim.max_concurrent > 0 and guard < 200 and not s.is_closing():
            live.feed(malformed_bytes(live, ('badsum' if kind == 'msg' else 'garbage', 900 + guard)))
            env.idle()
            guard += 1
        s.recalc_concurrency()
        # what the garbage cost is an observation (base + an error-specific cost): one bump
        mops += [f'b{fr(s.cost - before)}', 'r']
    elif route == 'traffic':
        nbytes = int(case['cost'] / max(cfg['bw'], 1e-9)) + 1
        s.data_received(_Sized(nbytes))
        s.recalc_concurrency()
        mops += [f'd{nbytes}', 'r']
    env.idle()
    limit = live.lim.max_concurrent
    ev = s.cost + s._extra
    if ev >= cfg['hard'] + 1e-6 * max(1.0, ev) and limit != 0:
        fail('c14:past-hard', f'evaluated cost {ev} >= hard {cfg["hard"]} (pushed there via {route}) but the '
                              f'permitted concurrency is {limit}, not 0')
    if limit == 0 and ev >= cfg['hard'] - 1e-6:
        # the evaluated cost has reached the hard limit: let the handlers finish, oldest first
        for i in range(n):
            live.release(i, None)
            env.idle()
        if mops is not None:
            mops += [f'F{i}' for i in range(n)]
        env.advance(cfg['sleep'] * 4 + 1)
        stats['model'] = (mops, len(live.hooks()), bool(s.is_closing()),
                          sorted(e[1] for e in live.starts() if e[1] >= n))
        late = [e for e in live.starts() if e[1] >= n]
        for e in late:
            if e[3] <= 0:
                fail('c14:executed-past-hard',
                     f'request {e[1]} was queued for a slot; it was executed at t={e[2]} although the '
                     f'evaluated cost ({ev}) had reached the hard limit {cfg["hard"]} (limit 0)')
        replies = {v.get('id'): v for v in live.replies(nout)}
        first = n
        code = replies.get(first, {}).get('error', {}).get('code')
        if not late:
            what = (f'{w} request(s) were queued behind {n} running handler(s) when the evaluated cost '
                    f'({ev}) reached the hard limit {cfg["hard"]} via {route}; the handlers have finished')
            if not live.hooks():
                fail('c14:not-disconnected-past-hard',
                     f'{what}: the disconnect hook never ran, closing={s.is_closing()}, replies '
                     f'{sorted(k for k in replies if k is not None and k >= n)} - the queued requests are '
                     f'left waiting for their processing timeout instead of being refused')
            elif kind == 'rpc' and code != -101:
                fail('c14:no-101-past-hard', f'{what}: reply to request {first} is {replies.get(first)}, expected -101')
            if live.hooks() and not s.is_closing():
                fail('c14:not-closed-past-hard', f'{what}: session not closing after the refusal')
            # nobody may be left to time out: run past the processing timeout
            env.advance(cfg.get('ptimeout', 30.0) + 1)
            busy = [v for v in live.replies(nout) if v.get('error', {}).get('code') == -102]
            if busy:
                fail('c14:queued-request-timed-out-past-hard',
                     f'{what}: request(s) {[v.get("id") for v in busy]} got -102 (timed out waiting for a slot)')
            stats['refused'] = 1 if live.hooks() else 0
    else:
        stats['skipped'] = 1      # the route did not push the cost past the hard limit
    live.close()
    return key, why, stats


def queue_cases(rng, count):
    out = []
    routes = ['holder', 'bump', 'garbage', 'traffic']
    for k in range(count):
        soft = dy(rng, 0, 500)
        hard = soft + dy(rng, 50, 2000)
        cfg = dict(bw=1 / 65536, soft=soft, hard=hard, decay=rng.choice([0.0, 0.25]), sleep=rng.choice([2.0, 0.5]),
                   base=dy(rng, 1, 200), init=1 + k % 3)
        out.append(dict(cfg=cfg, waiters=1 + (k // 3) % 2, which=rng.randrange(cfg['init']),
                        cost=hard + 101 + dy(rng, 0, 500), route=routes[k % 4],
                        kind='msg' if (k // 4) % 3 == 2 else 'rpc'))
    return out


def _queue_batch(cases):
    return [run_queue_case(_env, c) for c in cases]


def compare_queue_model(ctx, res, cases, results, threshold):
    """the queue scenarios against the composed model C14.Sess (accounting + C13 limiter)"""
    lines, idx = [], []
    for k, (case, (_key, _why, stats)) in enumerate(zip(cases, results)):
        m = stats.get('model')
        if m and m[0]:
            lines.append('Q ' + cfg_line(case['cfg'], False, threshold, 0.0)[2:] + ' | ' + ' '.join(m[0]))
            idx.append(k)
    out = ctx.model(lines) if lines else []
    if out is None:
        return
    for k, mline in zip(idx, out):
        case, (_key, _why, stats) = cases[k], results[k]
        _mops, hooks, closing, late = stats['model']
        last = mline.split(' | ')[-1]
        fields = dict(f.split('=') for f in last.split(';')[1:])
        m_entered = sorted(int(e[1:]) for rec in mline.split(' | ') for e in rec.split(';')[0].split(',')
                           if e.startswith('E') and int(e[1:]) >= case['cfg']['init'])
        m_closed, m_hooks = fields['closed'] == '1', int(fields['hooks'])
        got = (closing, hooks >= 1, late)
        mod = (m_closed, m_hooks >= 1, m_entered)
        if got != mod or hooks > m_hooks:
            res.disagreement(dict(case, level='queue'),
                             f'closing={closing} hooks={hooks} queued requests executed={late}',
                             f'closed={m_closed} hooks={m_hooks} executed={m_entered}', ops=' '.join(_mops))
        res.count('queue_cases_compared_with_composed_model')


def evaluate_queue(ctx, res, cases):
    results = _pmap(ctx, _queue_batch, cases, chunk=50)
    if ctx.have_model:
        compare_queue_model(ctx, res, cases, results, ctx.facts.get('drift_threshold', 100))
    for case, (key, why, stats) in zip(cases, results):
        c = dict(case, level='queue')
        if why:
            res.violation(key, c, why)
        res['evaluations'] += 1
        res.count('queue_cases')
        res.count('queue_cases_route_' + case.get('route', 'holder'))
        res.count('queue_cases_message_session', case.get('kind') == 'msg')
        res.count('queued_requests_refused_101', stats['refused'])
        res.count('queue_cases_skipped', stats.get('skipped', 0))
        if stats['refused']:
            res.nontrivial(json.dumps(c, sort_keys=True))


def run_admit_delay_case(env, case):
    """Delay is decided when the request is admitted.  One slot: request A holds it; request B
    arrives while the evaluated cost is at fraction f0 of the soft range and queues; the cost is
    re-evaluated to fraction f1; A finishes at t1, B gets the slot.  "Each request is delayed
    proportionally" to where the evaluated cost lies: B's handler must start f1*cost_sleep after
    t1 (not f0*cost_sleep: f0 is no longer the evaluated cost)."""
    cfg = case['cfg']
    live = Live(env, cfg, case.get('kind', 'rpc'))
    s = live.s
    key = why = None

    def fail(k, w):
        nonlocal key, why
        if why is None:
            key, why = k, w

    soft, hard = cfg['soft'], cfg['hard']

    def set_fraction(f):
        s.bump_cost(soft + f * (hard - soft) - s.cost)
        s.recalc_concurrency()
    set_fraction(0.0)
    live.hold(0)
    env.advance(cfg['sleep'] + 1)
    if not live.starts(0):
        live.close()
        return key, why, dict(delay=0.0, skipped=1)
    set_fraction(case['f0'])
    live.feed(live.wire('req', 1))
    env.advance(case['wait'])
    if live.starts(1):
        fail('c14:concurrency-above-permitted', 'a second request was executed although the only slot '
                                                '(initial_concurrent 1) is taken')
    set_fraction(case['f1'])
    t1 = env.loop.time()
    live.release(0, None)
    env.advance(cfg['sleep'] * 2 + 1)
    st = live.starts(1)
    want = case['f1'] * cfg['sleep']
    if live.lim.max_concurrent >= 1 and case['f1'] < 1:
        if not st:
            fail('c14:not-started-between', f'queued request never started (fraction {case["f1"]})')
        else:
            got = st[0][2] - t1
            if abs(got - want) > 1e-6 * max(1.0, want) + 1e-9:
                fail('c14:delay-not-proportional',
                     f'a request queued while the evaluated cost was at fraction {case["f0"]} of the soft range '
                     f'got its slot at t={t1} when the evaluated cost was at fraction {case["f1"]}: its handler '
                     f'started after {got}s, expected {case["f1"]} x cost_sleep {cfg["sleep"]} = {want}s')
    live.close()
    return key, why, dict(delay=want)


def admit_delay_cases(rng, count):
    out = []
    fr = [0.0, 0.125, 0.25, 0.5, 0.75, 0.875]
    for k in range(count):
        cfg = dict(bw=0.0, soft=256.0, hard=768.0, decay=0.0, sleep=rng.choice([2.0, 0.5]), base=0.0, init=1,
                   ptimeout=1000.0)
        f0, f1 = rng.choice(fr), rng.choice(fr)
        out.append(dict(cfg=cfg, f0=f0, f1=f1, wait=rng.choice([0.0, 0.25, 3.0]), kind='msg' if k % 4 == 3 else 'rpc'))
    return out


def run_overrun_case(env, case):
    """The permitted concurrency is what max_concurrent says (lazily: one excess slot is retired
    per completed handler, a raise takes effect at the next admission): the number of handlers
    running at once may never exceed it.  Bursts larger than the limit with handlers slower than
    processing_timeout (queued requests time out while waiting for a slot), then further bursts -
    below the soft limit and after the cost was moved into the soft range."""
    cfg = case['cfg']
    live = Live(env, cfg, case.get('kind', 'rpc'))
    s = live.s
    key = why = None
    L = cfg['init']
    cap = L
    stats = dict(timed_out=0, peak=0)

    def fail(k, w):
        nonlocal key, why
        if why is None:
            key, why = k, w

    def check(what):
        nonlocal cap
        limit = live.lim.max_concurrent
        running = len(live.running())
        stats['peak'] = max(stats['peak'], running)
        if running > max(cap, limit):
            fail('c14:concurrency-above-permitted',
                 f'{what}: {running} handlers run at once although the permitted concurrency is {limit} '
                 f'(initial {L}; {cap} slots were in use before)')

    rid = 0
    for burst, (k, hold_for) in enumerate(case['bursts']):
        ids = list(range(rid, rid + k))
        rid += k
        for i in ids:
            live.hold(i)
        env.idle()
        check(f'burst {burst} of {k} requests')
        # the handlers outlive the processing timeout of the requests queued behind them
        env.advance(hold_for)
        check(f'burst {burst} after {hold_for}s')
        for i in ids:
            if i in live.running():
                if cap > live.lim.max_concurrent:
                    cap -= 1
                live.release(i, None)
                env.idle()
                cap = max(cap, min(len(live.running()), live.lim.max_concurrent))
                check(f'burst {burst}, handler {i} finished')
        env.advance(1.0)
        if burst == case.get('throttle_after'):
            soft, hard = cfg['soft'], cfg['hard']
            s.bump_cost(soft + case['fraction'] * (hard - soft) - s.cost)
            s.recalc_concurrency()
    stats['timed_out'] = sum(1 for v in live.replies() if v.get('error', {}).get('code') == -102)
    live.close()
    return key, why, stats


def overrun_cases(rng, count):
    out = []
    for k in range(count):
        L = [1, 2, 3, 5][k % 4]
        cfg = dict(bw=0.0, soft=256.0, hard=768.0, decay=0.0, sleep=0.5, base=0.0, init=L, ptimeout=rng.choice([0.5, 2.0]))
        bursts = [(L + rng.randint(1, 4), cfg['ptimeout'] + rng.choice([0.25, 1.0])),
                  (L + rng.randint(0, 4), rng.choice([0.0, cfg['ptimeout'] + 0.5])),
                  (L + rng.randint(0, 3), 0.0)]
        out.append(dict(cfg=cfg, bursts=bursts, throttle_after=rng.choice([None, 0, 1]),
                        fraction=rng.choice([0.25, 0.5, 0.75]), kind='msg' if k % 5 == 4 else 'rpc'))
    return out


def _scn_batch(cases):
    out = []
    for kind, case in cases:
        fn = {'admit-delay': run_admit_delay_case, 'overrun': run_overrun_case}[kind]
        out.append(fn(_env, case))
    return out


def evaluate_scenarios(ctx, res, kind, cases):
    results = _pmap(ctx, _scn_batch, [(kind, c) for c in cases], chunk=50)
    for case, (key, why, stats) in zip(cases, results):
        c = dict(case, level=kind)
        if why:
            res.violation(key, c, why)
        res['evaluations'] += 1
        res.count(kind.replace('-', '_') + '_cases')
        if kind == 'overrun':
            res.count('overrun_requests_timed_out_in_queue', stats['timed_out'])
            if stats['timed_out']:
                res.nontrivial(json.dumps(c, sort_keys=True))
        else:
            res.nontrivial(json.dumps(c, sort_keys=True))


def random_session_script(rng):
    cfg = dict(bw=1 / 65536, soft=dy(rng, 0, 1000), decay=rng.choice([0.0, 0.25]),
               sleep=rng.choice([2.0, 0.5]), base=dy(rng, 0, 200), init=rng.choice([1, 3, 20]))
    mode = rng.random()
    if mode < 0.05:
        cfg['hard'] = cfg['soft']
    elif mode < 0.2:
        cfg['hard'] = dy(rng, 0, cfg['soft'])
    else:
        cfg['hard'] = cfg['soft'] + dy(rng, 50, 3000)
    client = rng.random() < 0.2
    kind = 'msg' if rng.random() < 0.3 else 'rpc'
    script = []
    rid = 0
    for _ in range(rng.randint(2, 9)):
        target = rng.choice(['below', 'between', 'past', 'any'])
        soft, hard = cfg['soft'], cfg['hard']
        if target == 'below':
            script.append(('bump', dy(rng, -50, max(1, soft / 2))))
        elif target == 'between':
            script.append(('bump', dy(rng, 0, max(1.0, hard - soft))))
        elif target == 'past':
            script.append(('bump', dy(rng, 0, max(hard, soft) + 200)))
        else:
            script.append(('bump', dy(rng, -500, 2000)))
        if rng.random() < 0.3 and script[-1][1] > 0:
            # drive the cost up with an expensive failing notification instead of bump_cost
            d = script.pop()[1]
            script += [('eval',), ('nfail', rid, d)]
            rid += 1
        if rng.random() < 0.25:
            # malformed input: charged as an error, never executed
            script.append((rng.choice(['garbage', 'invalid', 'emptybatch', 'badbatch', 'badsum']), rid, rng.randint(1, 11)))
            rid += 1
        if rng.random() < 0.3:
            script.append(('extra', dy(rng, -200, 600)))
        if rng.random() < 0.3:
            script.append(('advance', dy(rng, 0, 50)))
        script.append(('eval',))
        k = rng.random()
        if k < 0.15:
            script.append(('fail', rid, dy(rng, 0, 300)))
        elif k < 0.35:
            script.append(('nfail', rid, dy(rng, 0, 300)))
        elif k < 0.38:
            script.append(('crash', rid))
        elif k < 0.42:
            script.append(('unenc', rid))
        elif k < 0.45:
            script.append(('ncrash', rid))
        elif k < 0.55:
            script.append(('nreq', rid))
        else:
            script.append(('req', rid))
        rid += 1
    return cfg, client, script, kind


def _sess_batch(cases):
    return [run_session_case(_env, cfg, client, script, kind) for cfg, client, script, kind in cases]


def evaluate_session(ctx, res, cases):
    results = _pmap(ctx, _sess_batch, cases, chunk=100)
    for (cfg, client, script, kind), (key, why, stats) in zip(cases, results):
        case = {'level': 'session', 'cfg': cfg, 'client': client, 'script': [list(s) for s in script], 'kind': kind}
        if why:
            res.violation(key, case, why)
        res['evaluations'] += 1
        res.count('session_cases')
        res.count('session_cases_message_session', kind == 'msg')
        res.count('session_requests_refused_101', stats['refused'])
        res.count('session_requests_delayed', stats['delayed'])
        res.count('session_requests_prompt', stats['prompt'])
        res.count('session_malformed_inputs', stats['malformed'])
        res.count('session_failing_notifications', stats.get('failing_notifications', 0))
        if stats['refused'] or stats['delayed']:
            res.nontrivial(json.dumps(case, sort_keys=True))


# ------------------------------------------------------------------ corpus / run
def corpus_cases(verif):
    out = []
    for line in corpus_lines(verif, 'C14'):
        d = json.loads(line)
        if 'level' not in d:
            out.append((d['cfg'], d.get('client', False), [tuple(o) for o in d['ops']]))
    return out


def corpus_queue_cases(verif):
    return [{k: v for k, v in d.items() if k != 'level'}
            for d in map(json.loads, corpus_lines(verif, 'C14')) if d.get('level') == 'queue']


RULE = ('accounting level: case = (configuration, client?, history of data_received / sent / '
        '_bump_errors(extra) / bump_cost(+-) / extra_cost / clock advance / recalc_concurrency) on a '
        'real SessionBase subclass with a manual clock, dyadic values; exhaustive = every history up '
        'to the stated length over an 11-letter alphabet around soft/hard/drift threshold on one '
        'configuration; random = seeded configurations (defaults, hard <= soft, clients, random) x '
        'histories of 1..40 events.  session level: case = script of bump/extra/advance/evaluate/'
        'request on a real RPCSession (server or client) on a fake transport and the virtual loop. '
        'non-trivial = the limit left its initial value (accounting) / a request was delayed or '
        'refused (session); distinct = distinct JSON of the case')


def run(ctx):
    res = Results()
    rng = ctx.rng
    _init(ctx.repo)
    thr = ctx.facts.get('drift_threshold', 100)
    cc = corpus_cases(ctx.verif)
    if cc:
        evaluate_acct(ctx, res, cc, 'corpus', thr)
    cq = corpus_queue_cases(ctx.verif)
    if cq:
        evaluate_queue(ctx, res, cq)
    res['scopes']['corpus'] = len(cc) + len(cq)
    # cheap targeted scenarios and quick-size scopes first; the larger volumes are only added
    # while nothing has failed (so a failing tree is reported fast)
    full = ctx.tier == 'thorough'
    nq = 24
    evaluate_queue(ctx, res, queue_cases(rng, nq))
    nad, nov = 24, 16
    evaluate_scenarios(ctx, res, 'admit-delay', admit_delay_cases(rng, nad))
    evaluate_scenarios(ctx, res, 'overrun', overrun_cases(rng, nov))
    nsess = 400
    evaluate_session(ctx, res, [random_session_script(rng) for _ in range(nsess)])
    depth = 4
    ex = list(exhaustive_grid(depth))
    evaluate_acct(ctx, res, ex, 'exhaustive', thr)
    nrand = (120000 if full else 12000) if ctx.deep and not res.failed else 6000
    cases = []
    for _ in range(nrand):
        cfg = random_cfg(rng)
        cases.append((cfg, rng.random() < 0.15, random_history(rng, cfg)))
    evaluate_acct(ctx, res, cases, 'random', thr)
    res['scopes']['random_histories'] = nrand
    if ctx.deep and not res.failed:
        more = 5600 if full else 800
        evaluate_session(ctx, res, [random_session_script(rng) for _ in range(more)])
        nsess += more
        evaluate_queue(ctx, res, queue_cases(rng, 36))
        nq += 36
        evaluate_scenarios(ctx, res, 'admit-delay', admit_delay_cases(rng, 200 if full else 48))
        evaluate_scenarios(ctx, res, 'overrun', overrun_cases(rng, 200 if full else 32))
        nad += 200 if full else 48
        nov += 200 if full else 32
    if full and not res.failed:
        depth = 5
        ex5 = [c for c in exhaustive_grid(5) if len(c[2]) == 5]
        evaluate_acct(ctx, res, ex5, 'exhaustive', thr)
        ex += ex5
    res['scopes']['exhaustive'] = {'alphabet': 11, 'max_len': depth, 'histories': len(ex)}
    res['scopes']['session'] = nsess
    res['scopes']['queued_when_hard_limit_reached'] = nq
    res['scopes']['delay_decided_at_admission'] = nad
    res['scopes']['bursts_with_queue_timeouts'] = nov
    for cfg, client, ops in cases[:2]:
        res.sample({'cfg': cfg, 'client': client, 'ops': ' '.join(op_text(o) for o in ops)[:300]})
    return res.finish(RULE, exhaustive=not res.failed)


def replay(ctx, case):
    if 'case' in case and isinstance(case['case'], dict):
        case = case['case']
    res = Results()
    _init(ctx.repo)
    thr = ctx.facts.get('drift_threshold', 100)
    if case.get('level') == 'queue':
        evaluate_queue(ctx, res, [{k: v for k, v in case.items() if k != 'level'}])
    elif case.get('level') in ('admit-delay', 'overrun'):
        c = {k: v for k, v in case.items() if k != 'level'}
        if 'bursts' in c:
            c['bursts'] = [tuple(b) for b in c['bursts']]
        evaluate_scenarios(ctx, res, case['level'], [c])
    elif case.get('level') == 'session':
        evaluate_session(ctx, res, [(case['cfg'], case['client'], [tuple(s) for s in case['script']],
                                     case.get('kind', 'rpc'))])
    else:
        evaluate_acct(ctx, res, [(case['cfg'], case.get('client', False),
                                  [tuple(o) for o in case['ops']])], 'replay', thr)
    res.sample(case)
    return res.finish('replay of one recorded case')
