"""C02 correspondence + search: real `JSONRPCConnection.receive_message` + `Request.send_result`
(and a serving `RPCSession` on a fake transport for what is actually written) vs the Lean model
(`drv_c02`), and the property oracle - from the property text, independent of the model - on
every implementation trace.

A case is {'proto', 'max', 'members': [payload..], 'order': [member index..], 'errs': [member
index..]}: the batch `members` is received, then the request members deliver their results in
`order` (members listed in `errs` deliver an RPCError instead of a value).  A single request /
notification is {'proto', 'max', 'single': payload, 'err': bool}.

`max_response_size` is a public attribute "intended to be settable dynamically": `max` is its
value when the message is RECEIVED; `lims` (one per delivery, in completion order; default: `max`
every time) are the values it is set to before each result is supplied, `lim` the same for a
single request; `decoy`: the attribute is first set to another value and then to the intended
one (several changes between two events).  For two batches in flight `ilims` gives the value per
interleaving step.  The oracle judges every size clause with the limit in force AT THE MOMENT THE
RESULT WAS SUPPLIED (see `limits_of`), and the model line carries that limit per delivery.

Layers: connection (`receive_message` + `send_result`, this file), serving session with gated
handlers (harness/c02_session.py), serving session on the virtual clock with a processing
timeout and a send buffer that fills up and drains (harness/c02_backpressure.py).

What the oracle takes from where.  From the property text: the counting clauses (exactly one
response / batch response, only when every member has its result, one entry per request member
matched by id, one error entry per invalid member, nothing for notifications), "the response to a
request whose handler delivered carries that result unless it is too large", and the size clause.
The size clause is read at both levels at which it is satisfiable (see props/C02.json
level_note): (i) a response *object* - the thing that has an id - larger than the maximum is
replaced by an error object with the same id; (ii) a batch response in which nothing was replaced
and which has no error entries for invalid members is not larger than the maximum, and more
generally the results *kept* in a batch response, taken as a batch of their own, are not.  The
bytes between / around batch entries are not fixed by the text: they are measured from the code
(facts `join_sep_len`, `bracket_len`), never hard-coded.  The member classifier is the request
grammar of JSON-RPC 1.0 / 2.0 / Loose *as this library reads it* - in particular a member with
`"id": null` is a notification (JSON-RPC 2.0 itself would call it a request with a null id)."""
import itertools
import json
import logging
import os
from multiprocessing import Pool

from harness import vloop
from harness.base import Results, corpus_lines
from harness.c02_util import (PROTO_CLASS, case_wire, id_token, py_detect, resp_len, same_id, value,
                              value_token)
from tools.facts.common import fresh_import


# ------------------------------------------------------------------ harness-side protocol rules
def admits_request_id(proto, idv):
    if proto == 'v1':
        return True
    return (isinstance(idv, (int, float, str)) or idv is None) and not isinstance(idv, bool)


def classify_member(proto, p):
    """('req', id) | ('notif',) | ('invalid', recovered id or None) for one batch member /
    single message under `proto` (the request rules of JSON-RPC 1.0 / 2.0 / Loose as this
    library reads them)."""
    if not isinstance(p, dict):
        return ('invalid', None)
    if proto == 'v1':
        if 'id' not in p:
            return ('invalid', None)
        rid = p['id']
        ok = isinstance(p.get('method'), str) and isinstance(p.get('params'), list)
    else:
        rid = p.get('id')
        if 'id' in p and not admits_request_id(proto, rid):
            return ('invalid', None)
        if proto == 'v2' and p.get('jsonrpc') != '2.0':
            return ('invalid', rid)
        ok = isinstance(p.get('method'), str) and isinstance(p.get('params', []), (list, dict))
    if not ok:
        return ('invalid', rid)
    return ('notif',) if rid is None else ('req', rid)


def result_for(jr, member, is_err):
    """the result member `member`'s handler delivers (an int, a dict or a string, by member)"""
    n = 9 * member + 1 + member % 3
    return (jr.RPCError(n, f'm{n}'), f'e{n}') if is_err else (value(n), f'v{n}')


def member_of_token(n):
    return n // 9 if n > 0 and n % 9 in (1, 2, 3) and (n % 9 - 1) == (n // 9) % 3 else None


# ------------------------------------------------------------------ decoding what was sent
def decode_entry(e):
    """('r', member, id) for a handler-supplied result, ('E', id, code) for any other error
    entry (the code only for diagnostics), ('?', ..) for anything else"""
    if not isinstance(e, dict) or 'id' not in e:
        return ('?', repr(e)[:40])
    rid = e['id']
    err = e.get('error')
    if err is not None:
        if isinstance(err, dict) and isinstance(err.get('code'), int) \
                and err.get('message') == f'm{err["code"]}' and member_of_token(err['code']) is not None:
            return ('r', member_of_token(err['code']), rid)
        return ('E', rid, err.get('code') if isinstance(err, dict) else None)
    if 'result' in e:
        t = value_token(e['result'])
        if t is not None and member_of_token(t) is not None:
            return ('r', member_of_token(t), rid)
    return ('?', repr(e)[:40])


def show_entries(entries, off=0):
    out = []
    for d in entries:
        if d[0] == 'r':
            out.append(f'r{d[1] - off}@{id_token(d[2])}')
        elif d[0] == 'E':
            out.append(f'E@{id_token(d[1])}')
        else:
            out.append('?' + d[1])
    return '[' + ','.join(out) + ']'


def normalise_model(tok):
    """model entries `e<m>@id` / `b<m>@id` -> `E@id` (the wire does not carry member numbers)"""
    if tok[:1] in ('[', 'E') and tok.endswith(']'):
        pre, body = tok.split('[', 1)
        items = [x for x in body[:-1].split(',') if x]
        items = [('E@' + x.split('@', 1)[1]) if x[0] in 'eb' else x for x in items]
        return pre + '[' + ','.join(items) + ']'
    if tok.startswith('b@') or tok.startswith('e@'):
        return 'E@' + tok[2:]
    return tok


# ------------------------------------------------------------------ the limit schedule of a case
def limits_of(case):
    """the value `max_response_size` has when each result is supplied, in completion order
    (for a single request: a one-element list).  This is what the harness sets / what the
    scenario makes the session set - never read back from the connection."""
    if 'single' in case:
        return [case.get('lim', case['max'])]
    lims = case.get('lims')
    if lims is None:
        return [case['max']] * len(case['order'])
    return list(lims)


def limit_changes(case):
    """does the limit in force at some supply differ from the one at receipt?"""
    return any(l != case['max'] for l in limits_of(case))


def set_limit(conn, lim, decoy=False):
    """change the public attribute (several times if `decoy`: only the last value counts)"""
    if decoy:
        conn.max_response_size = lim + 13
        conn.max_response_size = 0 if lim else 7
    conn.max_response_size = lim


def setlim_answer_ok(jr, proto, msg, rid, lim):
    """the session layers change the limit through an ordinary request `set_limit(lim)` whose
    handler assigns the attribute and returns True: its one response is itself supplied under
    the NEW limit - the result `true` unless that response is larger than `lim`, then an error
    under the same id"""
    cls = getattr(jr, PROTO_CLASS[proto])
    over = 0 < lim < len(cls.response_message(True, rid))
    if not isinstance(msg, dict) or msg.get('id') != rid:
        return False
    if over:
        return msg.get('error') is not None and msg.get('result') is None
    return msg.get('result') is True and msg.get('error') is None


# ------------------------------------------------------------------ implementation side
def recv_batch(jr, conn, case):
    """receive the batch on `conn`; returns (rec, deliver) where deliver(m) hands member m's
    result to its `send_result` (False: stop)"""
    raw = case_wire(case)
    rec = {'raised': None, 'calls': [], 'lens': [], 'exc': None, 'items': None, 'rawlens': []}
    try:
        items = conn.receive_message(raw)
    except jr.ProtocolError as e:
        msg = e.error_message
        rec['raised'] = [decode_entry(x) for x in json.loads(msg)] if msg else 'no-message'
        return rec, None
    except Exception as e:   # noqa
        rec['exc'] = type(e).__name__
        return rec, None
    # lengths are measured with the protocol in force (AutoDetect: what the harness detects)
    inforce = getattr(jr, PROTO_CLASS[case.get('inforce', case['proto'])])
    rec['items'] = ['r' if isinstance(it, jr.Request) else 'n' if isinstance(it, jr.Notification)
                    else '?' for it in items]
    kinds = [classify_member(case.get('inforce', case['proto']), p) for p in case['members']]
    valid = [i for i, k in enumerate(kinds) if k[0] != 'invalid']
    by_member = dict(zip(valid, items))
    off = case.get('moff', 0)

    def deliver(m, lim=None):
        it = by_member.get(m)
        result, _tok = result_for(jr, m + off, m in case.get('errs', ()))
        if lim is not None:
            set_limit(conn, lim, case.get('decoy'))
        if m in case.get('unenc', ()):
            # a first attempt with a result that cannot be encoded: must raise ProtocolError,
            # emit nothing and leave the batch as it was (C03's repair of F9 relies on it)
            try:
                leaked = it.send_result({1, 2})
                rec['exc'] = 'UnencodableAccepted' if leaked is None else 'UnencodableEmitted'
                return False
            except jr.ProtocolError:
                pass
            except Exception as e:   # noqa
                rec['exc'] = type(e).__name__
                return False
        try:
            rec['lens'].append(resp_len(inforce, result, kinds[m][1]))
            out = it.send_result(result)
        except Exception as e:   # noqa
            rec['exc'] = type(e).__name__
            return False
        rec['calls'].append(None if out is None else [decode_entry(x) for x in json.loads(out)])
        rec['rawlens'].append(None if out is None else len(out))
        return True
    return rec, deliver


def run_impl_batch(jr, case):
    """returns dict(raised=entries|None, items_ok, calls=[entries|None..], lens=[..], exc)"""
    proto = getattr(jr, PROTO_CLASS[case['proto']])
    conn = jr.JSONRPCConnection(proto)
    conn.max_response_size = case['max']
    rec, deliver = recv_batch(jr, conn, case)
    if deliver:
        for m, lim in zip(case['order'], limits_of(case)):
            if not deliver(m, lim):
                break
    return rec


def run_impl_multi(jr, case):
    """several batches in flight on ONE connection: all are received first, then their members
    deliver in the interleaving `case['interleave']` (which batch delivers its next member);
    returns one record per batch"""
    proto = getattr(jr, PROTO_CLASS[case['proto']])
    conn = jr.JSONRPCConnection(proto)
    conn.max_response_size = case['max']
    subs = sub_cases(case)
    got = [recv_batch(jr, conn, sc) for sc in subs]
    nxt = [0] * len(subs)
    dead = set()
    for b in case['interleave']:
        rec, deliver = got[b]
        if deliver is None or b in dead or nxt[b] >= len(subs[b]['order']):
            continue
        if not deliver(subs[b]['order'][nxt[b]], subs[b]['lims'][nxt[b]]):
            dead.add(b)
        nxt[b] += 1
    return [g[0] for g in got]


def sub_cases(case):
    """the batches of a multi case as ordinary cases; member numbers (result tokens) continue
    across the batches so that an entry that strays into the wrong batch is recognised"""
    out, off = [], 0
    # the limit is the connection's: delivery k of batch b sees the value of its interleaving step
    ilims = case.get('ilims') or [case['max']] * len(case['interleave'])
    lims = [[] for _ in case['multi']]
    for b, lim in zip(case['interleave'], ilims):
        if len(lims[b]) < len(case['multi'][b]['order']):
            lims[b].append(lim)
    for b, sub in enumerate(case['multi']):
        lims[b] += [case['max']] * (len(sub['order']) - len(lims[b]))
        out.append(dict(sub, proto=case['proto'], max=case['max'], moff=off, lims=lims[b],
                        decoy=case.get('decoy'), inforce=case.get('inforce', case['proto'])))
        off += len(sub['members'])
    return out


def run_impl_single(jr, case):
    proto = getattr(jr, PROTO_CLASS[case['proto']])
    conn = jr.JSONRPCConnection(proto)
    conn.max_response_size = case['max']
    rec = {'exc': None, 'reply': None, 'len': 0, 'items': None, 'raised': None}
    try:
        items = conn.receive_message(case_wire(case))
    except jr.ProtocolError as e:
        rec['raised'] = decode_entry(json.loads(e.error_message)) if e.error_message else 'no-message'
        return rec
    except Exception as e:   # noqa
        rec['exc'] = type(e).__name__
        return rec
    rec['items'] = ['r' if isinstance(it, jr.Request) else 'n' if isinstance(it, jr.Notification)
                    else '?' for it in items]
    if rec['items'] == ['r']:
        result, _ = result_for(jr, 0, case.get('err'))
        rid = case['single'].get('id')
        inforce = getattr(jr, PROTO_CLASS[case.get('inforce', case['proto'])])
        rec['len'] = resp_len(inforce, result, rid)
        if 'lim' in case:
            set_limit(conn, case['lim'], case.get('decoy'))
        try:
            out = items[0].send_result(result)
        except Exception as e:   # noqa
            rec['exc'] = type(e).__name__
            return rec
        rec['reply'] = None if out is None else decode_entry(json.loads(out))
    return rec


# ------------------------------------------------------------------ the property oracle
# bytes between two entries / around a batch, and what the code adds per entry to its running
# size: measured from the code under test (tools/facts/c02.py), set by `_init`
WIRE = {'sep': 2, 'br': 2, 'inc': 2}


def set_wire(facts):
    """take the wire parameters from the regenerated facts (never hard-coded in a clause)"""
    if not isinstance(facts, dict):
        return
    for k, f in (('sep', 'join_sep_len'), ('br', 'bracket_len'), ('inc', 'size_increment')):
        v = facts.get(f)
        if isinstance(v, int) and not isinstance(v, bool) and v >= 0:
            WIRE[k] = v


def batch_len(lens):
    """encoded length of a batch whose entries have the given lengths"""
    return sum(lens) + WIRE['sep'] * (len(lens) - 1) + WIRE['br']


def batch_oracle(case, rec):
    """None or (key, why).  From the property text: exactly one batch response, only when every
    request member has its result, one entry per request member (matched by id) plus one error
    entry per invalid member; only notifications -> nothing; the entry of a member whose handler
    delivered is that result unless too large; size clause at entry and at batch level (module
    docstring), every time with the maximum configured AT THE MOMENT THE RESULT WAS SUPPLIED
    (`limits_of`; what it was when the batch was received plays no role).  `case['busy']`: members whose handler did not deliver before the processing
    timeout - any well-formed entry under the member's id is their one response.
    `rec['sent']`, if present, lists every batch message that left: (number of request members
    that had their result when it was written - 1, entries, length in bytes)."""
    proto = case.get('inforce', case['proto'])
    kinds = [classify_member(proto, p) for p in case['members']]
    reqs = [i for i, k in enumerate(kinds) if k[0] == 'req']
    invalid = [i for i, k in enumerate(kinds) if k[0] == 'invalid']
    notifs = [i for i, k in enumerate(kinds) if k[0] == 'notif']
    busy = set(case.get('busy', ()))
    off = case.get('moff', 0)
    if rec['exc']:
        return ('c02:unexpected-exception:' + rec['exc'],
                'escaped receive_message / send_result: no batch response carrying the ids of these requests '
                'can come out')
    if 'sent' in rec:
        sent = list(rec['sent'])
    else:
        sent = []     # (when, entries, bytes)
        if rec['raised'] is not None:
            if rec['raised'] == 'no-message':
                return 'c02:error-without-reply', 'ProtocolError without a message for the peer'
            sent.append(('receive', rec['raised'], None))
        rawlens = rec.get('rawlens') or [None] * len(rec['calls'])
        for j, out in enumerate(rec['calls']):
            if out is not None:
                sent.append((j, out, rawlens[j]))
    extra = rec.get('extra', 0)
    want = 1 if (reqs or invalid) else 0
    if len(sent) + extra != want:
        if not reqs and invalid and notifs and not sent and not extra:
            return ('c02:notif-invalid-no-reply',
                    f'batch of notifications and {len(invalid)} invalid member(s): no response at all')
        return 'c02:reply-count', f'{len(sent) + extra} batch responses sent, {want} called for'
    if not want:
        return None
    when, entries, rawlen = sent[0]
    if reqs and when != len(reqs) - 1:
        return 'c02:reply-too-early', f'batch response sent at {when}, before every member had its result'
    if any(e[0] == '?' for e in entries):
        return 'c02:malformed-entry', f'entries {entries}'
    if len(entries) != len(reqs) + len(invalid):
        return 'c02:entry-count', f'{len(entries)} entries for {len(reqs)} requests + {len(invalid)} invalid'
    # one entry per request member, matched by id; the rest are the invalid members' errors
    pool = list(entries)
    real, replaced = [], []
    lens = dict(zip(case['order'], rec['lens']))
    lim_at = dict(zip(case['order'], limits_of(case)))
    for m in case['order']:
        rid = kinds[m][1]
        hit = [e for e in pool if e[0] == 'r' and e[1] == m + off]
        if hit:
            e = hit[0]
            if not same_json(e[2], rid):
                return 'c02:wrong-id', f'member {m} (id {rid!r}) answered under id {e[2]!r}'
            real.append(m)
        else:
            hit = [e for e in pool if e[0] == 'E' and same_json(e[1], rid)]
            if not hit:
                return 'c02:missing-entry', f'no entry under id {rid!r} for member {m}'
            e = hit[0]
            if m not in busy:
                if lim_at[m] == 0:
                    return ('c02:replaced-without-limit',
                            f'member {m} delivered its result but got an error entry (code '
                            f'{e[2] if len(e) > 2 else "?"}) although max_response_size was 0 '
                            f'when the result was supplied{_sched(case)}')
                replaced.append(m)
        pool.remove(e)
    if any(e[0] != 'E' for e in pool) or len(pool) != len(invalid):
        return 'c02:invalid-member-errors', f'left-over entries {pool} for {len(invalid)} invalid members'
    # (i) a response object larger than the maximum configured when its result was supplied is
    # replaced (by an error entry with the same id: matched above)
    for m in real:
        if 0 < lim_at[m] < lens[m]:
            return ('c02:oversize-not-replaced',
                    f'the response to member {m} is {lens[m]} bytes, max_response_size was '
                    f'{lim_at[m]} when its result was supplied, but it was sent{_sched(case)}')
    # (ii) the results kept up to and including one supplied under a positive maximum, as a batch
    # of their own, are within that maximum (constant limit: all results kept are within it)
    pos = {m: k for k, m in enumerate(case['order'])}
    for m in real:
        if lim_at[m] > 0:
            kept = [lens[x] for x in real if pos[x] <= pos[m]]
            if batch_len(kept) > lim_at[m]:
                return ('c02:oversize-not-replaced',
                        f'real results kept up to member {m} need {batch_len(kept)} > '
                        f'{lim_at[m]} bytes (the maximum when member {m} supplied its '
                        f'result){_sched(case)}')
    if case['order'] and not invalid and not busy:
        last = lim_at[case['order'][-1]]
        # (ii') nothing replaced, no invalid member: the bytes that left are within the maximum
        # in force when the last result was supplied
        if last > 0 and len(real) == len(reqs) and rawlen is not None and rawlen > last:
            return ('c02:batch-over-limit',
                    f'batch response of {rawlen} > {last} bytes, nothing replaced{_sched(case)}')
        # (iii) an entry is not replaced under a maximum the whole batch fits under
        whole = batch_len([lens[m] for m in case['order']])
        over = [m for m in replaced if whole <= lim_at[m]]
        if over:
            return ('c02:replaced-though-within-limit',
                    f'the whole batch needs {whole} bytes, max_response_size was '
                    f'{[lim_at[m] for m in over]} when members {over} supplied their results, '
                    f'but their entries were replaced{_sched(case)}')
    return None


def _sched(case):
    """the limit schedule, for the `why` text of a history in which the limit changes"""
    if not limit_changes(case):
        return ''
    return f' [max_response_size at receipt {case["max"]}, at the supplies {limits_of(case)}]'


def same_json(a, b):
    """the same id value (NaN is the same id as NaN; see harness/c02_util.same_id)"""
    return same_id(a, b)


def single_oracle(case, rec):
    """None or (key, why): exactly one response under the request's id (the handler's result
    unless too large; any response under the id if the handler did not deliver in time,
    `case['busy']`), nothing for a notification.  What an *invalid* single message gets is not
    in the property text: compared with the model only."""
    proto = case.get('inforce', case['proto'])
    kind = classify_member(proto, case['single'])
    if rec['exc']:
        return ('c02:unexpected-exception:' + rec['exc'],
                f'escaped receive_message / send_result: no response carrying the id {kind[1:]!r} comes out')
    if kind[0] == 'invalid':
        return None
    if rec['raised'] is not None:
        if kind[0] == 'notif':
            return 'c02:notification-answered', f'{rec["raised"]} emitted for a notification'
        return 'c02:valid-request-rejected', f'{rec["raised"]}'
    if kind[0] == 'notif':
        if rec['items'] != ['n'] or rec['reply'] is not None or rec.get('extra'):
            return 'c02:notification-answered', f'{rec}'
        return None
    if rec['items'] != ['r'] or rec['reply'] is None:
        return 'c02:request-not-answered', f'{rec}'
    if rec.get('extra'):
        return 'c02:reply-count', f'{1 + rec["extra"]} responses written for one request'
    rep = rec['reply']
    rid = kind[1]
    lim = limits_of(case)[0]        # the maximum configured when the result was supplied
    over = 0 < lim < rec['len']
    if rep[0] == 'r':
        if not same_json(rep[2], rid):
            return 'c02:wrong-id', f'answered under {rep[2]!r}, request id {rid!r}'
        if over:
            return ('c02:oversize-not-replaced',
                    f'{rec["len"]} > {lim} (max_response_size when the result was supplied) but '
                    f'the result was sent{_sched(case)}')
    elif rep[0] == 'E':
        if not same_json(rep[1], rid):
            return 'c02:wrong-id', f'error under {rep[1]!r}, request id {rid!r}'
        if not over and not case.get('busy'):
            code = rep[2] if len(rep) > 2 else '?'
            if lim == 0:
                return ('c02:replaced-without-limit',
                        f'the handler delivered its result but the response is an error (code '
                        f'{code}) although max_response_size was 0 when it was supplied{_sched(case)}')
            return ('c02:replaced-though-within-limit',
                    f'{rec["len"]} bytes, limit {lim} when the result was supplied, answered by an '
                    f'error (code {code}){_sched(case)}')
    else:
        return 'c02:malformed-entry', f'{rep}'
    return None


# ------------------------------------------------------------------ case -> model line, impl -> text
def model_line(case, rec):
    proto = case.get('inforce', case['proto'])
    if 'single' in case:
        kind = classify_member(proto, case['single'])
        tok = 'N' if kind[0] == 'notif' else f'{"R" if kind[0] == "req" else "X"}:{id_token(kind[1])}'
        return f'S {limits_of(case)[0]} {rec["len"]} {tok}'
    toks = []
    for p in case['members']:
        k = classify_member(proto, p)
        toks.append('N' if k[0] == 'notif' else f'{"R" if k[0] == "req" else "X"}:{id_token(k[1])}')
    lens = rec['lens'] + [0] * (len(case['order']) - len(rec['lens']))
    calls = ','.join(f'{m}:{l}:{lim}' for m, l, lim in zip(case['order'], lens, limits_of(case))) or '-'
    return f'B {",".join(toks)} {calls}'


def impl_text(case, rec):
    if rec.get('exc'):
        return '!' + rec['exc']
    if 'single' in case:
        if rec['raised'] is not None:
            r = rec['raised']
            return 'E?' if r == 'no-message' else f'E@{id_token(r[1])}' if r[0] == 'E' else '?'
        rep = rec['reply']
        if rep is None:
            return 'none'
        return f'r@{id_token(rep[2])}' if rep[0] == 'r' else f'E@{id_token(rep[1])}' if rep[0] == 'E' else '?'
    off = case.get('moff', 0)
    if rec['raised'] is not None:
        return 'E' + show_entries(rec['raised'], off) if rec['raised'] != 'no-message' else 'E?'
    if not rec['calls']:
        return '.'
    return ' '.join('-' if c is None else show_entries(c, off) for c in rec['calls'])


def is_deep(ctx):
    """explore at thorough depth: thorough tier, or the second pass lib/vcheck.py makes after a
    fingerprint drift / a broken obligation when the quick-depth pass found nothing unlisted
    (vcheck sets `ctx.deep` for it; the known finding F8 does not suppress that pass any more,
    so the harness no longer looks at `ctx.deep_reasons` itself - it made both passes deep)."""
    return bool(ctx.deep)


def unlisted_failure(ctx, res):
    """something failed that is not a recorded known finding (scopes stop growing then)"""
    try:
        with open(os.path.join(ctx.verif, 'known_findings.json')) as f:
            known = {k['key'] for k in json.load(f).get('known', []) if k['property'] == ctx.pid}
    except OSError:
        known = set()
    return bool(res.n_disagreements) or any(v['key'] not in known for v in res['violations'])


# ------------------------------------------------------------------ workers
_jr = None


def _init(repo, facts=None):
    global _jr
    _jr = fresh_import(repo, 'aiorpcx.jsonrpc')
    set_wire(facts)


def _prepare(case):
    if case['proto'] == 'auto' and 'inforce' not in case and 'multi' not in case:
        case['inforce'] = py_detect(case['members'] if 'members' in case else case['single'])
    return case


def _run_batch(cases):
    async def go():
        out = []
        for c in cases:
            _prepare(c)
            if 'multi' in c:
                recs = run_impl_multi(_jr, c)
                out.append([(impl_text(sc, r), batch_oracle(sc, r), model_line(sc, r))
                            for sc, r in zip(sub_cases(c), recs)])
                continue
            if 'single' in c:
                rec = run_impl_single(_jr, c)
                verdict = single_oracle(c, rec)
            else:
                rec = run_impl_batch(_jr, c)
                verdict = batch_oracle(c, rec)
            out.append((impl_text(c, rec), verdict, model_line(c, rec)))
        return out
    return vloop.run(go())


def run_impl(ctx, cases):
    n = len(cases)
    if n < 8000:
        _init(ctx.repo, ctx.facts)
        return _run_batch(cases)
    nproc = min(12, os.cpu_count() or 1)
    size = max(2000, n // (nproc * 4))
    jobs = [cases[i:i + size] for i in range(0, n, size)]
    with Pool(nproc, initializer=_init, initargs=(ctx.repo, ctx.facts)) as pool:
        parts = pool.map(_run_batch, jobs)
    return [r for p in parts for r in p]


def evaluate(ctx, cases, res, scope):
    if not cases:
        return
    outs = run_impl(ctx, cases)
    # one (case, sub-index, got, verdict, line) per judged batch / single
    flat = []
    for c, o in zip(cases, outs):
        if isinstance(o, list):
            flat += [(c, k, *t) for k, t in enumerate(o)]
        else:
            flat.append((c, None, *o))
    idx = [i for i, f in enumerate(flat) if f[4] is not None]
    model = ctx.model([flat[i][4] for i in idx])
    mod = dict(zip(idx, model)) if model is not None else {}
    for i, (c, sub, got, verdict, line) in enumerate(flat):
        if verdict is not None:
            key = verdict[0] if sub is None or verdict[0].startswith('c02:notif-invalid') \
                else verdict[0] + '@two-batches'
            why = verdict[1] if sub is None else f'batch {sub} of the connection: {verdict[1]}'
            res.violation(key, c, why, impl=got, model_line=line)
        if i in mod:
            want = ' '.join(normalise_model(t) for t in mod[i].split(' '))
            if want != got:
                res.disagreement(c, got, want, model_line=line)
        if sub is not None:
            res.count('batches_in_flight_together')
            if sub == 0:
                res.nontrivial('multi|' + '|'.join(f[4] for f in flat[i:i + len(c['multi'])]))
        elif 'members' in c:
            res.count('batch_cases')
            res.count('batch_members_total', len(c['members']))
            lims = limits_of(c)
            res.count('cases_with_limit', c['max'] > 0 or any(lims))
            res.count('cases_with_replacement', 'E@' in got and any(lims))
            res.count('cases_limit_changed_in_flight', limit_changes(c))
            res.count('cases_limit_lowered_in_flight', any(
                0 < b < a or (a == 0 and b > 0) for a, b in zip([c['max']] + lims, lims)))
            res.count('cases_limit_raised_in_flight', any(
                0 < a < b or (b == 0 and a > 0) for a, b in zip([c['max']] + lims, lims)))
            res.count('cases_with_unencodable_attempt', bool(c.get('unenc')))
            if len(c['order']) >= 2:
                res.nontrivial(line + '|' + c['proto'])
        else:
            res.count('single_cases')
            res.count('single_cases_limit_changed_in_flight', limit_changes(c))
        if sub in (None, 0):
            res.count('cases_' + c['proto'])
    res['evaluations'] += len(cases)
    res['scopes'][scope] = res['scopes'].get(scope, 0) + len(cases)


# ------------------------------------------------------------------ enumeration
REQ_IDS = (7, 0.5, 'a')          # int, float, str; equal choices give duplicate ids


INF, NAN = float('inf'), float('nan')
BIG = 1e308                      # a very large FINITE float: the control next to the infinities
# (id value, raw JSON token or None = what json.dumps writes: `Infinity` `-Infinity` `NaN` `1e+308`)
NONFINITE_IDS = ((INF, '1e999'), (-INF, '-1e999'), (INF, None), (-INF, None), (NAN, None),
                 (BIG, None), (-1.7976931348623157e308, None))


def nonfinite_cases(jr, maxlen, protos):
    """request ids that are non-finite floats.  JSON-RPC 2.0 admits every Number as id; the
    legal JSON numbers `1e999` / `-1e999` are read by `json.loads` as +inf / -inf, and it also
    accepts the tokens `Infinity` `-Infinity` `NaN`.  Every composition up to `maxlen` members
    over {request id +inf (written `1e999` or `Infinity`, by member parity), request id -inf
    (`-Infinity` / `-1e999`), request id NaN, request id 1e308 (finite control), request id 7,
    notification, invalid member with id +inf, invalid member with id NaN} (equal choices give
    duplicate non-finite ids; NaN != NaN) x every completion order x the limits of
    `limits_for`.  The clause judged is "one response / one entry carrying that request's id":
    the id token that comes back must denote the same value (validity of the token `Infinity`
    as JSON is C05's known finding, not judged here)."""
    def mk(style, m, idv=None, **kw):
        p = {'method': 'm', 'params': [m]}
        if style == 'v2':
            p['jsonrpc'] = '2.0'
        if idv is not None:
            p['id'] = idv
        return dict(p, **kw)
    opts = [('req', lambda st, m: (mk(st, m, INF), '1e999' if m % 2 == 0 else None)),
            ('req', lambda st, m: (mk(st, m, -INF), '-1e999' if m % 2 else None)),
            ('req', lambda st, m: (mk(st, m, NAN), None)),
            ('req', lambda st, m: (mk(st, m, BIG), None)),
            ('req', lambda st, m: (mk(st, m, 7), None)),
            ('notif', lambda st, m: (mk(st, m), None)),
            ('invalid', lambda st, m: (mk(st, m, INF, method=1), '1e999' if m % 2 else None)),
            ('invalid', lambda st, m: (mk(st, m, NAN, method=1), None))]
    for proto in protos:
        style = 'v2' if proto in ('v2', 'auto') else 'loose'
        for n in range(1, maxlen + 1):
            for combo in itertools.product(range(len(opts)), repeat=n):
                built = [opts[k][1](style, m) for m, k in enumerate(combo)]
                members = [b[0] for b in built]
                raw = {str(m): b[1] for m, b in enumerate(built) if b[1]}
                reqs = [m for m, k in enumerate(combo) if opts[k][0] == 'req']
                errs = [m for m in reqs if m % 3 == 2]
                for order in itertools.permutations(reqs):
                    for mx in limits_for(jr, proto, members, order, errs, False):
                        yield {'proto': proto, 'max': mx, 'members': members, 'order': list(order),
                               'errs': errs, 'raw': raw}


def member_options(style):
    """every kind of member: requests with each admissible id type, two notification forms,
    two invalid forms (id recoverable / not)"""
    def req(idv, m):
        p = {'method': 'm', 'params': [m]}
        if style == 'v2':
            p['jsonrpc'] = '2.0'
        if idv is not None:
            p['id'] = idv
        return p
    opts = [('req', lambda m, i=i: req(i, m)) for i in REQ_IDS]
    opts.append(('notif', lambda m: req(None, m)))
    opts.append(('notif', lambda m: dict(req(None, m), id=None)))
    opts.append(('invalid', lambda m: dict(req(3, m), method=1)))     # id 3 recoverable
    opts.append(('invalid', lambda m: 5))                             # not even an object
    # members that *look like responses* (used only next to a member that does not, see
    # `looks_like_response_batch`): an object without "method" but with "result", and a valid
    # request carrying a superfluous "error": null
    opts.append(('invalid', lambda m: dict({'result': m, 'id': 90 + m},
                                           **({'jsonrpc': '2.0'} if style == 'v2' else {}))))
    opts.append(('req', lambda m: dict(req(7, m), error=None)))
    return opts


def looks_like_response_batch(members):
    """the library reads a batch all of whose members carry "result"/"error" as a batch of
    responses - outside C02"""
    return all(isinstance(p, dict) and ('result' in p or 'error' in p) for p in members)


def limits_for(jr, proto_name, members, order, errs, rich):
    """max_response_size values around the decision points of this case"""
    yield 0
    if not order:
        return
    proto = getattr(jr, PROTO_CLASS['v2' if proto_name == 'auto' else proto_name])
    lens = []
    for m in order:
        result, _ = result_for(jr, m, m in errs)
        lens.append(resp_len(proto, result, members[m].get('id')))
    inc = WIRE['inc']
    first = lens[0] + inc
    total = sum(l + inc for l in lens)
    cands = [first, first - 1, total, total - 1, lens[0] - 1] if rich else \
        [first - 1, total - 1 if len(lens) > 1 else first]
    seen = set()
    for c in cands:
        if c > 0 and c not in seen:
            seen.add(c)
            yield c


def exhaustive_cases(jr, maxlen, protos, rich, thin=1):
    count = 0
    for proto in protos:
        style = 'v2' if proto in ('v2', 'auto') else 'loose'
        opts = member_options(style)
        for n in range(1, maxlen + 1):
            for combo in itertools.product(range(len(opts)), repeat=n):
                members = [opts[k][1](m) for m, k in enumerate(combo)]
                if looks_like_response_batch(members):
                    continue
                reqs = [m for m, k in enumerate(combo) if opts[k][0] == 'req']
                for order in itertools.permutations(reqs):
                    count += 1
                    if thin > 1 and count % thin:
                        continue
                    errs = [m for m in reqs if m % 3 == 2]
                    for mx in limits_for(jr, proto, members, order, errs, rich):
                        yield {'proto': proto, 'max': mx, 'members': members, 'order': list(order),
                               'errs': errs}


def unenc_cases(jr, maxlen):
    """every small composition x completion order, with each request member in turn making a
    first attempt with a result that cannot be encoded (the batch must be left as it was)"""
    for c in exhaustive_cases(jr, maxlen, ('v2',), False):
        if c['max'] != 0 and len(c['order']) > 2:
            continue
        for u in c['order']:
            yield dict(c, unenc=[u])


def schedule_member_options(style):
    """the members of the limit-schedule family: requests with an int / a str id (equal choices
    give duplicate ids), a notification, an invalid member with / without recoverable id"""
    opts = member_options(style)
    return [opts[0], opts[2], opts[3], opts[5], opts[6]]


def schedule_cases(jr, maxlen, protos, thin=1):
    """`max_response_size` changes while the batch is in flight: every composition up to
    `maxlen` members x every completion order x every limit schedule (value at receipt, value
    when each result is supplied) over the decision points of THAT delivery - the running size
    after delivery j is S_j whatever the limits are, so for delivery j the points are 0
    (unlimited), len_j - 1 (the entry alone is too large), S_j - 1 (replaced), S_j (kept); at
    receipt: 0, smaller than every response, large enough for the whole batch.  Contains
    lowering and raising between receipt and the first supply and between supplies, 0 <->
    positive, and (every other case) several assignments between two events (`decoy`)."""
    inc = WIRE['inc']
    count = 0
    for proto in protos:
        style = 'v2' if proto in ('v2', 'auto') else 'loose'
        cls = getattr(jr, PROTO_CLASS['v2' if proto == 'auto' else proto])
        opts = schedule_member_options(style)
        for n in range(1, maxlen + 1):
            for combo in itertools.product(range(len(opts)), repeat=n):
                members = [opts[k][1](m) for m, k in enumerate(combo)]
                reqs = [m for m, k in enumerate(combo) if opts[k][0] == 'req']
                if not reqs:
                    continue
                errs = [m for m in reqs if m % 3 == 2]
                for order in itertools.permutations(reqs):
                    lens = [resp_len(cls, result_for(jr, m, m in errs)[0], members[m]['id'])
                            for m in order]
                    run, points = 0, []
                    for l in lens:
                        run += l + inc
                        points.append(sorted({0, l - 1, run - 1, run}))
                    for a in sorted({0, min(lens) - 1, run}):
                        for lims in itertools.product(*points):
                            count += 1
                            if thin > 1 and count % thin:
                                continue
                            yield {'proto': proto, 'max': a, 'members': members, 'order': list(order),
                                   'errs': errs, 'lims': list(lims), 'decoy': bool(count % 2)}


def multi_cases(jr, rng, n_random, kinds=('r7', 'ra', 'n', 'x'), protos=('v2', 'loose'),
                moving=True):
    """two request batches in flight on one connection (the closure state of the one must not
    leak into the other): every pair of compositions up to 2 members from {request id 7, request
    id "a", notification, invalid} x every interleaving of their deliveries, x a limit; plus
    seeded random pairs of larger batches"""
    def mk(style, kind, m):
        p = {'method': 'm', 'params': [m]}
        if style == 'v2':
            p['jsonrpc'] = '2.0'
        if kind == 'r7':
            p['id'] = 7
        elif kind == 'rinf':
            p['id'] = INF
        elif kind == 'rnan':
            p['id'] = NAN
        elif kind == 'ra':
            p['id'] = 'a'
        elif kind == 'x':
            p = dict(p, id=3, method=1)
        return p
    comps = [c for n in (1, 2) for c in itertools.product(kinds, repeat=n)]
    for proto in protos:
        style = proto
        for a in comps:
            for b in comps:
                subs = []
                for comp in (a, b):
                    members = [mk(style, k, m) for m, k in enumerate(comp)]
                    reqs = [m for m, k in enumerate(comp) if k[0] == 'r']
                    # an id +inf is written as the legal JSON number `1e999` by the first batch
                    raw = {str(m): '1e999' for m, k in enumerate(comp) if k == 'rinf' and comp is a}
                    subs.append({'members': members, 'order': reqs, 'errs': [], 'raw': raw})
                na, nb = len(subs[0]['order']), len(subs[1]['order'])
                if na + nb == 0:
                    inter = [()]
                else:
                    inter = sorted(set(itertools.permutations([0] * na + [1] * nb)))
                for il in inter:
                    for rev in ((False, False), (True, False)) if na > 1 else ((False, False),):
                        ss = [dict(s, order=list(reversed(s['order'])) if r else s['order'])
                              for s, r in zip(subs, rev)]
                        for mx in (0, 50):
                            yield {'proto': proto, 'max': mx, 'multi': ss, 'interleave': list(il)}
                        if il and moving:
                            # the connection's limit changes between the deliveries (each
                            # delivery, of whichever batch, sees the value of its moment)
                            for mx, alt in ((50, (0, 50)), (0, (50, 0)), (0, (36, 80))):
                                yield {'proto': proto, 'max': mx, 'multi': ss, 'interleave': list(il),
                                       'ilims': [alt[k % 2] for k in range(len(il))]}
    for _ in range(n_random):
        a, b = random_case(rng, jr), random_case(rng, jr)
        proto = rng.choice(['v2', 'loose'])
        if a['proto'] == 'auto' or b['proto'] == 'auto' or a['proto'] != b['proto']:
            continue
        subs = [{k: c[k] for k in ('members', 'order', 'errs', 'unenc', 'raw')} for c in (a, b)]
        il = [0] * len(a['order']) + [1] * len(b['order'])
        rng.shuffle(il)
        c = {'proto': a['proto'], 'max': rng.choice([0, a['max'], b['max']]), 'multi': subs,
             'interleave': il}
        if rng.random() < 0.5:
            c['ilims'] = [rng.choice([0, a['max'], b['max'], rng.randint(1, 400)]) for _ in il]
        yield c


def single_cases(jr):
    out = []
    for proto in ('v1', 'v2', 'loose', 'auto'):
        style = {'v1': 'v1', 'v2': 'v2', 'loose': 'loose', 'auto': 'v2'}[proto]
        plain = (7, 0, -3, 1.5, 2.0, 'a', '', None) + (([1], {'a': 1}) if proto == 'v1' else ())
        for idv, rawtok in [(i, None) for i in plain] + list(NONFINITE_IDS):
            for err in (False, True):
                if style == 'v1':
                    p = {'method': 'm', 'params': [0], 'id': idv}
                else:
                    p = {'method': 'm', 'params': [0]}
                    if style == 'v2':
                        p['jsonrpc'] = '2.0'
                    if idv is not None:
                        p['id'] = idv
                proto_cls = getattr(jr, PROTO_CLASS[style])
                result, _ = result_for(jr, 0, err)
                try:
                    ln = resp_len(proto_cls, result, idv)
                except Exception:   # noqa
                    ln = 60
                n0 = len(out)
                for mx in (0, ln, ln - 1, 1, ln + 1):
                    out.append({'proto': proto, 'max': mx, 'single': p, 'err': err})
                # the limit is changed between the receipt of the request and its result
                # (lowered, raised, 0 <-> positive): every pair over {0, ln - 1, ln, ln + 1}
                k = 0
                for a in (0, ln - 1, ln, ln + 1):
                    for b in (0, ln - 1, ln, ln + 1):
                        if a != b:
                            k += 1
                            out.append({'proto': proto, 'max': a, 'lim': b, 'single': p, 'err': err,
                                        'decoy': bool(k % 2)})
                if rawtok:
                    for c in out[n0:]:
                        c['raw'] = {'0': rawtok}
        # invalid single messages (what they get is compared with the model, not judged)
        for bad in ({'jsonrpc': '2.0', 'method': 1, 'id': 4}, {'jsonrpc': '2.0', 'method': 'm', 'params': 'oops', 'id': 5},
                    {'jsonrpc': '2.0', 'method': 'm', 'id': [1]}, {'jsonrpc': '2.0', 'method': None}, 5, 'x',
                    {'jsonrpc': '2.0', 'method': 1, 'id': INF}, {'jsonrpc': '2.0', 'method': 1, 'id': NAN},
                    ({'jsonrpc': '2.0', 'method': 1, 'id': -INF}, '-1e999')):
            bad, rawtok = bad if isinstance(bad, tuple) else (bad, None)
            if proto == 'auto' and not isinstance(bad, dict):
                continue
            out.append({'proto': proto, 'max': 0, 'single': bad, 'err': False})
            if rawtok:
                out[-1]['raw'] = {'0': rawtok}
    return out


def random_case(rng, jr):
    proto = rng.choice(['v2', 'loose', 'auto'])
    style = 'v2' if proto in ('v2', 'auto') else 'loose'
    n = rng.randint(1, 8)
    members = []
    ids = [rng.choice([rng.randint(-2, 5), rng.randint(0, 6) / 2, rng.choice(['a', 'b', '', '7'])])
           for _ in range(3)]
    if rng.random() < 0.2:
        # one or two of the ids in play are non-finite floats (or the very large finite control)
        for _ in range(rng.randint(1, 2)):
            ids[rng.randrange(3)] = rng.choice([INF, -INF, NAN, BIG])
    for m in range(n):
        r = rng.random()
        p = {'method': 'm', 'params': [m]}
        if style == 'v2':
            p['jsonrpc'] = '2.0'
        if r < 0.6:
            p['id'] = rng.choice(ids)
        elif r < 0.75:
            if rng.random() < 0.5:
                p['id'] = None
        elif r < 0.85:
            p['id'] = rng.choice(ids)
            p['method'] = rng.choice([1, None, ['m']])
        elif r < 0.9:
            p['id'] = rng.choice(ids)
            p['params'] = 'oops'
        else:
            p = rng.choice([5, 'x', None, [1], {'id': [1], 'method': 'm'}])
        members.append(p)
    kinds = [classify_member(style, p) for p in members]
    reqs = [m for m, k in enumerate(kinds) if k[0] == 'req']
    order = list(reqs)
    rng.shuffle(order)
    errs = [m for m in reqs if rng.random() < 0.25]
    unenc = [m for m in reqs if rng.random() < 0.1]
    lim = list(limits_for(jr, proto, [p if isinstance(p, dict) else {} for p in members], order, errs, True))
    mx = rng.choice(lim + [rng.randint(1, 400)])
    nerrs = [m for m, k in enumerate(kinds) if k[0] == 'notif' and rng.random() < 0.3]
    # an infinite id is written as the legal JSON number 1e999 / -1e999 half of the time
    raw = {str(m): ('1e999' if p['id'] > 0 else '-1e999') for m, p in enumerate(members)
           if isinstance(p, dict) and isinstance(p.get('id'), float) and p['id'] in (INF, -INF)
           and rng.random() < 0.5}
    case = {'proto': proto, 'max': mx, 'members': members, 'order': order, 'errs': errs,
            'unenc': unenc, 'nerrs': nerrs, 'raw': raw}
    if order and rng.random() < 0.5:
        # the limit changes while the batch is in flight: stays / 0 / a decision point / anything
        pool = lim + [0, mx, mx, rng.randint(1, 400)]
        case['lims'] = [rng.choice(pool) for _ in order]
        case['decoy'] = rng.random() < 0.3
    return case


def parse_corpus_line(line):
    return json.loads(line)


RULE = ('case = (protocol, max_response_size, batch composition, completion order); exhaustive over '
        'every composition up to the stated length with members from {request with int / float / str '
        'id (equal choices give duplicate ids), notification without id / with null id, invalid member '
        'with / without recoverable id} x every completion order of the request members x limits at '
        'the decision points (0, first entry fits exactly / by one byte not, whole batch fits exactly / '
        'not), for v2, Loose and AutoDetect; max_response_size CHANGED while the batch / the request is in '
        'flight: every composition up to 3 members over {request int/str id, notification, invalid} x every '
        'completion order x every schedule (value at receipt, value at each supply) over the decision points of '
        'each delivery (0, entry alone too large, running size exceeds by one / fits exactly), singles with every '
        'pair (limit at receipt, limit at supply) around the response length; request ids that are non-finite '
        'floats (+inf written 1e999 / Infinity, -inf, NaN, and 1e308 as finite control) as singles on all four '
        'protocols, in every composition up to 3 members (duplicates, mixed with ordinary ids, invalid members '
        'carrying them) x every completion order, in two batches in flight, in the random batches and at the '
        'session / back-pressure layers (raw wire text); two batches in flight with the limit '
        'alternating between deliveries, half of the random batches with a random schedule; single requests/notifications on all four protocols with '
        'every id type x limits at the boundary; a first attempt with an unencodable result by each request member; two '
        'batches in flight on one connection x every interleaving of their deliveries; seeded random batches up to 8 '
        'members; a serving '
        'RPCSession on a fake transport for what is written (gated handlers; and on the virtual clock: handler '
        'durations x processing timeout x send-buffer pause/resume instants); non-trivial = at least two request '
        'members; distinct = distinct (model line, protocol)')


def run(ctx):
    res = Results()
    rng = ctx.rng
    _init(ctx.repo, ctx.facts)
    jr = _jr
    cc = [parse_corpus_line(l) for l in corpus_lines(ctx.verif, 'C02')]
    evaluate(ctx, [c for c in cc if 'layer' not in c], res, 'corpus')
    from harness import c02_session, c02_backpressure
    for c in cc:
        if c.get('layer') == 'bp':
            c02_backpressure.replay(ctx, c, res)
        elif c.get('layer') == 'session':
            c02_session.replay(ctx, c, res)
    evaluate(ctx, single_cases(jr), res, 'singles')
    evaluate(ctx, list(nonfinite_cases(jr, 3, ('v2', 'loose'))), res, 'nonfinite_float_ids_len_le_3')
    evaluate(ctx, list(multi_cases(jr, rng, 0, kinds=('rinf', 'rnan', 'r7', 'x'), protos=('v2',),
                                   moving=False)), res, 'two_batches_in_flight_nonfinite_ids')
    evaluate(ctx, list(unenc_cases(jr, 2 if not is_deep(ctx) else 3)), res, 'exhaustive_unencodable_attempt')
    evaluate(ctx, list(multi_cases(jr, rng, 300 if not is_deep(ctx) else 3000)), res, 'two_batches_in_flight')
    evaluate(ctx, list(schedule_cases(jr, 3, ('v2', 'loose'))), res, 'limit_schedules_len_le_3')
    if is_deep(ctx) and not unlisted_failure(ctx, res):
        evaluate(ctx, list(schedule_cases(jr, 3, ('auto',))), res, 'limit_schedules_len_le_3_auto')
        evaluate(ctx, [c for c in schedule_cases(jr, 4, ('v2',), thin=3 if ctx.tier == 'thorough' else 12)
                       if len(c['members']) == 4], res, 'limit_schedules_len_4')
    done = 0
    for n, protos, rich in ((3, ('v2', 'loose', 'auto'), True), (4, ('v2', 'loose'), False)):
        if unlisted_failure(ctx, res) and n > 3:
            break
        ex = [c for c in exhaustive_cases(jr, n, protos, rich) if len(c['members']) > done]
        evaluate(ctx, ex, res, f'exhaustive_len_le_{n}')
        done = n
    def depth():
        if unlisted_failure(ctx, res):
            return 0
        return 2 if ctx.tier == 'thorough' else 1 if is_deep(ctx) else 0
    if depth() >= 1:
        thin = 1 if depth() == 2 else 8
        ex = [c for c in exhaustive_cases(jr, 5, ('v2',), False, thin=thin) if len(c['members']) == 5]
        evaluate(ctx, ex, res, 'exhaustive_len_5' + ('' if thin == 1 else '_every_8th'))
        if thin == 1:
            done = 5
    if depth() >= 2:
        ex = [c for c in exhaustive_cases(jr, 5, ('loose',), False, thin=2) if len(c['members']) == 5]
        evaluate(ctx, ex, res, 'exhaustive_len_5_loose_every_2nd')
    ngen = (8000, 20000, 300000)[depth()]
    gen = [random_case(rng, jr) for _ in range(ngen)]
    evaluate(ctx, gen, res, 'generated')
    for c in gen[:2]:
        res.sample({'case': c})
    res['scopes']['exhaustive_max_len'] = done
    c02_session.run(ctx, res)
    c02_backpressure.run(ctx, res)
    return res.finish(RULE, exhaustive=not unlisted_failure(ctx, res))


def replay(ctx, case):
    if 'case' in case and isinstance(case['case'], dict):
        case = case['case']
    res = Results()
    if case.get('layer') == 'session':
        from harness import c02_session
        c02_session.replay(ctx, case, res)
    elif case.get('layer') == 'bp':
        from harness import c02_backpressure
        c02_backpressure.replay(ctx, case, res)
    else:
        evaluate(ctx, [case], res, 'replay')
    res.sample(case)
    return res.finish('replay of one recorded case')
