"""A fake network for `aiorpcx.socks.SOCKSProxy`, shared by harness/c16.py, harness/c17.py and
tools/facts/c16.py / c17.py.

Everything is driven through the **public** API (`SOCKSProxy.create_connection`,
`SOCKSProxy.auto_detect_at_address`); the only thing replaced inside `aiorpcx.socks` are the
module-level names `asyncio` and `socket`.  No private method or attribute of the library is
called or read here, so renaming / inlining / re-signaturing `_handshake`, `_connect_one`,
`_connect`, `_detect_proxy`, keeping the protocol object in a differently named local, ... does
not disturb the observations.

Observables (per call and per proxy connection):
  * result of the public call: returned value or the exception that escaped;
  * per connection: every `sendall` (bytes the proxy received, and how many reply bytes had
    been delivered when it was made), every `recv` as (requested, returned), the reply bytes
    left unread;
  * which call opened the connection and for which remote address (the k-th resolution of the
    proxy's own address inside a call belongs to the k-th remote address).

An *attempt* describes what one `getaddrinfo` entry of the proxy's address meets:
    ('x',)                 `sock_connect` raises ConnectionRefusedError
    ('s',)                 `socket.socket(family)` raises OSError (EAFNOSUPPORT)
    ('t', stream, segs)    the peer answers: reply `stream` delivered in segments of the given
                           lengths (then whatever is left in one piece); b'' once exhausted
    ('p', stream, segs)    the same, and `getpeername()` raises OSError afterwards

Calls can be run to completion one after the other (`run_one`) or interleaved at every await of
the fake loop by a deterministic hand scheduler (`run_interleaved`) - no event loop, no threads,
no wall clock."""
import errno
import socket as real_socket
import asyncio as real_asyncio

from harness.socks_common import Livelock, watchdog

PROXY_HOST = 'proxy.test'
PROXY_PORT = 1080


class _Yield:
    def __await__(self):
        yield self


class Conn:
    """one TCP connection, as the proxy sees it"""

    def __init__(self, call, group, index, stream, segments):
        self.call = call            # id of the call that opened it
        self.group = group          # which remote address of that call (k-th proxy resolution)
        self.index = index          # attempt index inside the group
        self.stream = bytes(stream)
        self.bounds = []
        pos = 0
        for ln in segments:
            pos += ln
            self.bounds.append(pos)
        self.pos = 0
        self.bi = 0                 # first segment bound not yet passed
        self.sent = []              # [(bytes, reply bytes delivered before this sendall)]
        self.recvs = []             # [(requested, returned)]
        self.calls = 0              # loop calls on this connection (livelock budget)
        self.closed = False

    def _budget(self):
        self.calls += 1
        if self.calls > 4 * len(self.stream) + 64:
            raise Livelock()

    def take(self, n):
        self._budget()
        if not isinstance(n, int) or n < 0:
            raise ValueError('negative buffersize in recv')
        if self.pos >= len(self.stream) or n == 0:
            self.recvs.append((n, 0))
            return b''
        end = len(self.stream)
        bounds = self.bounds
        while self.bi < len(bounds) and bounds[self.bi] <= self.pos:
            self.bi += 1
        if self.bi < len(bounds) and bounds[self.bi] < end:
            end = bounds[self.bi]
        k = min(n, end - self.pos)
        data = self.stream[self.pos:self.pos + k]
        self.pos += k
        self.recvs.append((n, k))
        return data

    def put(self, data):
        self._budget()
        self.sent.append((bytes(data), self.pos))

    @property
    def unread(self):
        return self.stream[self.pos:]

    @property
    def received(self):
        """everything the proxy received on this connection, concatenated"""
        return b''.join(m for m, _ in self.sent)


class FakeSocket:
    """stands for `socket.socket`; created only through `World.socket_module.socket(...)`"""
    world = None

    def __init__(self, family=-1, *args, **kw):
        w = self.world
        self.w = w
        self.family = family
        self.conn = None
        self.attempt = w._next_attempt(self)
        if self.attempt[0] == 's':
            raise OSError(errno.EAFNOSUPPORT, 'Address family not supported by protocol')

    def setblocking(self, flag):
        pass

    def settimeout(self, t):
        pass

    def setsockopt(self, *a):
        pass

    def fileno(self):
        return 99

    def getpeername(self):
        if self.attempt[0] == 'p':
            raise OSError(errno.ENOTCONN, 'Transport endpoint is not connected')
        return ('127.0.0.1', PROXY_PORT)

    def getsockname(self):
        return ('127.0.0.1', 50000)

    def close(self):
        if self.conn is not None:
            self.conn.closed = True


class FakeTransport:
    def __init__(self, sock, protocol):
        self.sock = sock
        self.protocol = protocol

    def get_extra_info(self, name, default=None):
        if name == 'socket':
            return self.sock
        if name == 'peername':
            return ('127.0.0.1', PROXY_PORT)
        return default

    def close(self):
        self.sock.close()


class _Call:
    def __init__(self, cid, groups):
        self.id = cid
        self.groups = groups        # list (per remote address) of lists of attempts
        self.group = -1             # index of the current proxy resolution
        self.k = 0                  # next attempt inside the current group
        self.conns = []
        self.sockets = 0            # sockets created
        self.extra = 0              # sockets created beyond the scripted attempts
        self.tried = {}             # group -> number of entries for which a socket was asked
        self.result = None          # ('ok', value) | ('exc', exception)


class World:
    """fake `asyncio` + `socket` for one or several calls on SOCKSProxy objects"""

    def __init__(self, yields=False, dest_infos=None):
        self.yields = yields
        self.calls = {}
        self.current = None
        self.dest_infos = dest_infos or {}      # host -> getaddrinfo result for destinations
        self.conns = []
        world = self

        class _Socket(FakeSocket):
            pass
        _Socket.world = world
        self.socket_class = _Socket

        class _SocketModule:
            socket = _Socket

            def __getattr__(self, name):
                return getattr(real_socket, name)
        self.socket_module = _SocketModule()

        class _Asyncio:
            def get_event_loop(self_):
                return world.loop

            get_running_loop = get_event_loop

            def __getattr__(self_, name):
                return getattr(real_asyncio, name)
        self.asyncio_module = _Asyncio()
        self.loop = _Loop(self)

    def reset(self, yields=False, dest_infos=None):
        """forget every call and connection (a World is cheap to reuse, not to build)"""
        self.yields = yields
        self.calls = {}
        self.current = None
        self.dest_infos = dest_infos or {}
        self.conns = []
        return self

    # -- scripted attempts
    def add_call(self, cid, groups):
        self.calls[cid] = _Call(cid, groups)
        return self.calls[cid]

    def _next_attempt(self, sock):
        c = self.calls[self.current]
        c.sockets += 1
        g = c.groups[c.group] if 0 <= c.group < len(c.groups) else []
        if c.k < len(g):
            a = g[c.k]
        else:
            c.extra += 1
            a = ('x',)
        sock.call, sock.group, sock.index = c.id, c.group, c.k
        c.k += 1
        c.tried[c.group] = c.k
        return a

    async def _tick(self):
        if self.yields:
            await _Yield()


class _Loop:
    def __init__(self, world):
        self.w = world

    async def getaddrinfo(self, host, port, **kw):
        w = self.w
        await w._tick()
        if host == PROXY_HOST:
            c = w.calls[w.current]
            c.group += 1
            c.k = 0
            n = len(c.groups[c.group]) if c.group < len(c.groups) else 0
            return [(real_socket.AF_INET, real_socket.SOCK_STREAM, 6, '', ('127.0.0.1', PROXY_PORT))] * n
        if host in w.dest_infos:
            return list(w.dest_infos[host])
        raise real_socket.gaierror(real_socket.EAI_NONAME, 'Name or service not known')

    async def sock_connect(self, sock, addr):
        w = self.w
        await w._tick()
        a = sock.attempt
        if a[0] == 'x':
            raise ConnectionRefusedError(errno.ECONNREFUSED, 'Connection refused')
        conn = Conn(sock.call, sock.group, sock.index, a[1], a[2])
        sock.conn = conn
        w.conns.append(conn)
        w.calls[sock.call].conns.append(conn)

    async def sock_recv(self, sock, n):
        await self.w._tick()
        return sock.conn.take(n)

    async def sock_recv_into(self, sock, buf):
        await self.w._tick()
        data = sock.conn.take(len(buf))
        buf[:len(data)] = data
        return len(data)

    async def sock_sendall(self, sock, data):
        await self.w._tick()
        sock.conn.put(data)

    async def create_connection(self, protocol_factory, host=None, port=None, *, sock=None, **kw):
        await self.w._tick()
        protocol = protocol_factory()
        return FakeTransport(sock, protocol), protocol


class patched:
    """`with patched(mods, world):` - the world's fake modules stand for `asyncio` / `socket`
    inside aiorpcx.socks"""

    def __init__(self, mods, world):
        self.socks = mods.socks
        self.world = world

    def __enter__(self):
        s = self.socks
        self.saved = {n: getattr(s, n) for n in ('asyncio', 'socket') if hasattr(s, n)}
        s.asyncio, s.socket = self.world.asyncio_module, self.world.socket_module
        return self.world

    def __exit__(self, *exc):
        for n, v in self.saved.items():
            setattr(self.socks, n, v)
        return False


def run_one(world, cid, coro):
    """run one call to completion (its awaits on the fake loop never suspend)"""
    assert not world.yields
    world.current = cid
    c = world.calls[cid]
    try:
        coro.send(None)
    except StopIteration as e:
        c.result = ('ok', e.value)
    except Livelock:
        c.result = ('exc', Livelock())
    except Exception as e:      # observed: whatever escaped the public call
        c.result = ('exc', e)
    else:
        coro.close()
        raise RuntimeError('coroutine suspended on the fake loop')
    return c.result


def run_interleaved(world, coros, schedule, max_steps=100000):
    """coros: {cid: coroutine}; schedule: list of cids - which call advances to its next await
    at each step (finished calls are skipped); afterwards round-robin until all are done"""
    assert world.yields
    live = dict(coros)
    steps = 0

    def step(cid):
        world.current = cid
        c = world.calls[cid]
        try:
            live[cid].send(None)
        except StopIteration as e:
            c.result = ('ok', e.value)
            del live[cid]
        except Livelock:
            c.result = ('exc', Livelock())
            del live[cid]
        except Exception as e:      # observed
            c.result = ('exc', e)
            del live[cid]

    for cid in schedule:
        if cid in live:
            step(cid)
            steps += 1
    while live:
        for cid in list(live):
            if cid in live:
                step(cid)
                steps += 1
                if steps > max_steps:
                    for co in live.values():
                        co.close()
                    for cid2 in live:
                        world.calls[cid2].result = ('exc', Livelock())
                    return


def outcome_name(result, socks=None):
    """'ok' or the kind of exception that escaped, in the model's taxonomy: the two SOCKS
    exceptions, `OSError` for OSError and all its subclasses (ConnectionRefusedError, ...),
    otherwise the class name"""
    if result is None:
        return 'no-result'
    if result[0] == 'ok':
        return 'ok'
    e = result[1]
    if socks is not None:
        for cls in (socks.SOCKSFailure, socks.SOCKSProtocolError, socks.SOCKSError):
            if isinstance(e, cls):
                return cls.__name__
    if isinstance(e, OSError) and type(e).__module__ in ('builtins', 'socket'):
        return 'OSError'
    return type(e).__name__


class Factory:
    """protocol_factory for create_connection"""

    def __call__(self):
        return type('P', (), {})()


def make_proxy(mods, proto, auth):
    from harness import socks_common as sc
    return mods.socks.SOCKSProxy(mods.util.NetAddress(PROXY_HOST, PROXY_PORT), mods.cls[proto],
                                 sc.make_auth(mods, auth))


__all__ = ['World', 'Conn', 'patched', 'run_one', 'run_interleaved', 'outcome_name', 'Factory',
           'make_proxy', 'PROXY_HOST', 'PROXY_PORT', 'watchdog', 'Livelock']
