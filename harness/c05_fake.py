"""Fake asyncio transport + helpers to run a real aiorpcx RPCSession under harness/vloop.py.

The transport records writes and close/abort, delivers `connection_lost` through `call_soon`
as real transports do, and never blocks.  Nothing in /repo is patched except that the module
global `aiorpcx.session.time` is rebound to a shim whose `time()` is the loop's virtual clock
(session code calls `time.time()`)."""
import asyncio


class FakeTransport(asyncio.Transport):
    def __init__(self):
        super().__init__()
        self.writes = []
        self.closing = False
        self.aborted = False
        self.proto = None
        self.reading = True

    def get_extra_info(self, name, default=None):
        return ('1.2.3.4', 5) if name == 'peername' else default

    def write(self, data):
        self.writes.append(bytes(data))

    def close(self):
        if not self.closing:
            self.closing = True
            asyncio.get_event_loop().call_soon(self.proto.connection_lost, None)

    def abort(self):
        self.aborted = True
        if not self.closing:
            self.closing = True
            asyncio.get_event_loop().call_soon(self.proto.connection_lost, None)

    def is_closing(self):
        return self.closing

    def pause_reading(self):
        self.reading = False

    def resume_reading(self):
        self.reading = True


class _Clock:
    """stands in for the `time` module inside aiorpcx.session"""

    def time(self):
        try:
            return asyncio.get_event_loop().time()
        except RuntimeError:
            return 0.0


def bind_virtual_time(session_mod):
    session_mod.time = _Clock()


def make(rawsocket_mod, session_mod, session_cls, kind=None):
    """-> (RSTransport protocol, FakeTransport, session); must run inside the loop"""
    kind = kind or session_mod.SessionKind.SERVER
    p = rawsocket_mod.RSTransport(session_cls, None, kind)
    t = FakeTransport()
    t.proto = p
    p.connection_made(t)
    return p, t, p.session


async def settle(n=25):
    """let everything runnable run (no virtual time passes)"""
    for _ in range(n):
        await asyncio.sleep(0)
