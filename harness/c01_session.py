"""C01, session layer (PARTIAL: the await plumbing is asyncio's): a real client `RPCSession` on a
fake transport with back-pressure, callers that are cancelled / time out at each point where
`send_request` / `send_batch` can wait, and a scripted peer that answers what it saw ON THE WIRE
(ids decoded from the written bytes) in any order, replays answers, answers late, answers
malformed, or goes away.

A scenario is JSON:

    {'layer': 'session', 'proto': .., 'seed': n, 'srt': sent_request_timeout, 'msd': max_send_delay,
     'calls':  [['req'] | ['req', T] | ['batch', 'rnr', raise_errors] | ['batch', 'rnr', re, T]],
     'tags':   [g, ..]   (optional) call i sends method 'm' with args [g_i, member]: calls with the
                         same tag (and shape) make EQUAL requests / batches of equal members, as
                         two pollers would; default g_i = i (all distinct),
     'script': [step, ..]}

`T` = the caller wraps its call in `timeout_after(T)`.  Steps (the loop is run until nothing is
runnable after every step; time is virtual):

    ['call', i]        a task starts call i
    ['pause'] / ['resume']   the socket send buffer is full / has drained (pause_writing /
                       resume_writing reach the protocol; writers park in `transport.write`)
    ['cancel', i]      the task of call i is cancelled
    ['advance', dt]    dt seconds pass
    ['answer', i, shape]     the peer answers the message of call i if it saw it; shape 'ok' (result
                       or error per member, members in a seeded order) or 'mal' (single: a
                       malformed response whose id is recoverable)
    ['dup', i]         the peer repeats its answer to call i
    ['unknown']        the peer answers an id it never saw
    ['lost']           the connection drops

Without 'script': every call is started, then every message seen is answered in a seeded order
with one replay and one unknown id mixed in.

The oracle (`session_oracle`) is written from the property text over what crossed the wire, in
its true order (`FakeTransport.log`), and what each caller got:
  * ids of requests on the wire that the peer has not answered yet are pairwise distinct;
  * a caller that gets a result / error / batch outcome gets exactly what the peer sent in
    answer to ITS message (the message ITS task wrote - the writer of every message is known
    exactly, equal requests included; the peer's answers differ per call), and gets it when
    that answer arrives (if it is still waiting); the answer to a request that is on the wire,
    unanswered and still awaited is never rejected as a protocol error;
  * an answer for something that is not outstanding is counted as a protocol error
    (`session.errors`) and disturbs nobody; a later request is still answered.
The same traffic is replayed through the Lean model at connection level: requests in the order
the connection created them (recorded at the public `send_request` / `send_batch`), messages in
the order delivered, futures cancelled by callers that gave up, the connection lost."""
import asyncio
import contextvars
import json
import logging
import random

from harness import vloop
from harness.c01 import (PROTO_CLASS, OutsideModel, Resolver, abstract, fut_state, make_resp,
                         value, value_token, wire_ids)
from harness.c01_fake import make_session, settle
from tools.facts.common import fresh_import


CURRENT_CALL = contextvars.ContextVar('c01_current_call', default=-1)


def tag_of(sc, i):
    tags = sc.get('tags')
    return tags[i] if tags and i < len(tags) else i


def reply_for(call, member):
    """what the scripted peer answers to member `member` of call `call`: (kind, n)"""
    n = 3 + 5 * call + member
    return ('err' if (call + member) % 4 == 3 else 'val'), n


def tok_of(kind, n):
    return f'v{n}' if kind == 'val' else f'e{n}'


def result_token(jr, x):
    if isinstance(x, jr.RPCError):
        return f'e{x.code}' if x.message == f'm{x.code}' else f'e?{x.code}'
    if isinstance(x, Exception):
        return '?' + type(x).__name__
    t = value_token(x)
    return f'v{t}' if t is not None else f'v?{x!r}'


def default_script(sc):
    rng = random.Random(sc['seed'])
    n = len(sc['calls'])
    script = [['call', i] for i in range(n)]
    order = list(range(n))
    rng.shuffle(order)
    stream = [['answer', i, 'ok'] for i in order]
    if sc.get('noise', True):
        stream.insert(rng.randint(1, len(stream)), ['dup', order[rng.randrange(n)]])
        stream.insert(rng.randint(1, len(stream)), ['unknown'])
    return script + stream


def expected_token(sc, i, shape='ok'):
    """what caller i must get if the peer's answer (of the given shape) reaches it"""
    call = sc['calls'][i]
    if call[0] == 'req':
        if shape == 'mal':
            return 'P'
        kind, n = reply_for(i, 0)
        return f'r{n}' if kind == 'val' else f'e{n}'
    members = [j for j, c in enumerate(call[1]) if c == 'r']
    toks = [tok_of(*reply_for(i, j)) for j in members]
    want = 'b[' + ';'.join(toks) + ']'
    if call[2] and any(t[0] == 'e' for t in toks):
        want = 'B!' + want
    return want


async def run_scenario(mods, sc, id_step=1, fail_draws=(True, True)):
    jr, rawsocket, session_mod, curio = mods
    proto = getattr(jr, PROTO_CLASS[sc['proto']])
    rng = random.Random(sc['seed'])
    events = []            # the history, in order (see session_oracle)
    created = []           # requests / batches in the order the connection created them
    verdicts = []          # per message handed to the connection: 'ok' | 'P' (ProtocolError)
    writers = []           # per transport write: the call whose task wrote it (-1: nobody's)

    class RecConn(jr.JSONRPCConnection):
        """records what goes through the connection's public send_request / send_batch"""
        def send_request(self, request):
            try:
                message, future = super().send_request(request)
            except Exception:   # noqa
                created.append({'op': ['S', 0], 'ids': None, 'fut': None, 'n': 1})
                events.append(('create', len(created) - 1))
                raise
            created.append({'op': ['S', 1], 'ids': wire_ids(message), 'fut': future, 'n': 1})
            events.append(('create', len(created) - 1))
            return message, future

        def send_batch(self, batch):
            ms = ''.join('r' if isinstance(x, jr.Request) else 'n' for x in batch)
            try:
                message, future = super().send_batch(batch)
            except Exception:   # noqa
                created.append({'op': ['B', ms, 0], 'ids': None, 'fut': None, 'n': ms.count('r')})
                events.append(('create', len(created) - 1))
                raise
            created.append({'op': ['B', ms, 1], 'ids': wire_ids(message), 'fut': future,
                            'n': ms.count('r')})
            events.append(('create', len(created) - 1))
            return message, future

        def receive_message(self, message):
            # one entry per message the session hands over, in order: was it rejected?
            text = bytes(message).decode('utf-8', 'replace')
            try:
                r = super().receive_message(message)
            except jr.ProtocolError:
                verdicts.append([text, 'P'])
                raise
            except BaseException as e:   # noqa: observation
                verdicts.append([text, '!' + type(e).__name__])
                raise
            verdicts.append([text, 'ok'])
            return r

    class Client(session_mod.RPCSession):
        sent_request_timeout = float(sc.get('srt', 30.0))
        max_send_delay = float(sc.get('msd', 20.0))

        def default_connection(self):
            return RecConn(proto)

    logging.disable(logging.CRITICAL)
    _p, transport, session = make_session(rawsocket, Client, session_mod.SessionKind.CLIENT)
    plain_write = transport.write

    def write(data):
        writers.append(CURRENT_CALL.get())
        plain_write(data)
    transport.write = write
    ncalls = len(sc['calls'])
    outcomes = [None] * ncalls
    tasks = [None] * ncalls

    async def one_call(i, call):
        if call[0] == 'req':
            r = await session.send_request('m', [tag_of(sc, i), 0])
            return ('r' + result_token(jr, r)[1:]) if not isinstance(r, Exception) \
                else result_token(jr, r)
        batch = None
        try:
            async with session.send_batch(raise_errors=bool(call[2])) as batch:
                for j, c in enumerate(call[1]):
                    if c == 'r':
                        batch.add_request('m', [tag_of(sc, i), j])
                    else:
                        batch.add_notification('n', [tag_of(sc, i), j])
            pre = ''
        except session_mod.BatchError:
            pre = 'B!'
        res = batch.results
        return pre + ('none' if res is None else
                      'b[' + ';'.join(result_token(jr, x) for x in res) + ']')

    async def do_call(i, call):
        CURRENT_CALL.set(i)        # this task's context only
        own = call[1] if call[0] == 'req' and len(call) > 1 else \
            call[3] if call[0] == 'batch' and len(call) > 3 else None
        try:
            if own:
                async with curio.timeout_after(own):
                    outcomes[i] = await one_call(i, call)
            else:
                outcomes[i] = await one_call(i, call)
        except jr.RPCError as e:
            outcomes[i] = f'e{e.code}' if e.message == f'm{e.code}' else f'e?{e.code}'
        except jr.ProtocolError:
            outcomes[i] = 'P'
        except curio.TaskTimeout:
            outcomes[i] = 'T'
        except asyncio.CancelledError:
            outcomes[i] = 'c'
        except Exception as e:   # noqa: observation
            outcomes[i] = '!' + type(e).__name__

    seen_log = 0
    seen_w = 0
    seen_out = [None] * ncalls
    created_by = {}        # index in `created` -> call index
    parked = []            # indices in `created` of the callers parked in transport.write
    fcancelled = set()
    on_wire = {}           # call index -> its message as the peer saw it
    answers = {}           # call index -> the answer the peer sent (for 'dup')
    all_ids = []

    def collect():
        """move what happened since the last step into `events`, in order"""
        nonlocal seen_log, seen_w
        for rec in transport.log[seen_log:]:
            if rec[0] == 'w':
                who = writers[seen_w] if seen_w < len(writers) else -1
                seen_w += 1
                for line in rec[1].split(b'\n'):
                    if not line:
                        continue
                    msg = json.loads(line)
                    events.append(('w', msg, who))
                    members = msg if isinstance(msg, list) else [msg]
                    for m in members:
                        if isinstance(m, dict) and m.get('id') is not None:
                            all_ids.append(m['id'])
                    if who >= 0 and any(isinstance(m, dict) and m.get('id') is not None
                                        for m in members):
                        on_wire.setdefault(who, msg)
            elif rec[0] == 'r':
                events.append(('r',) + pending_meta.pop(0))
            else:
                events.append(('lost',))
        seen_log = len(transport.log)
        for k, c in enumerate(created):
            if c['fut'] is not None and k not in fcancelled and c['fut'].cancelled():
                fcancelled.add(k)
                events.append(('fcancel', k))
        for i in range(ncalls):
            if outcomes[i] is not None and seen_out[i] is None:
                seen_out[i] = outcomes[i]
                for k in [k for k in parked if created_by.get(k) == i]:
                    # it gave up while parked: its message will never be written
                    events.append(('drop', parked.index(k)))
                    parked.remove(k)
                events.append(('o', i, outcomes[i]))

    pending_meta = []      # meta of the chunks fed but not yet delivered (reading paused)
    style = 'v2' if sc['proto'] == 'auto' else sc['proto']

    def peer_send(payload, meta):
        if transport.lost or transport.closing:
            return
        pending_meta.append((payload,) + meta)
        transport.feed(json.dumps(payload).encode() + b'\n')

    def answer_payload(i, shape):
        msg = on_wire[i]
        members = msg if isinstance(msg, list) else [msg]
        reqs = [m for m in members if m.get('id') is not None]
        if isinstance(msg, dict):
            if shape == 'mal':
                return make_resp(style, msg['id'], 'mal1', 4)
            kind, n = reply_for(i, 0)
            return make_resp(style, msg['id'], kind, n)
        parts = []
        for m in reqs:
            kind, n = reply_for(i, m['params'][1])
            parts.append(make_resp(style, m['id'], kind, n))
        rng.shuffle(parts)
        return parts

    script = sc.get('script') or default_script(sc)
    for step in script:
        k = step[0]
        ncreated = len(created)
        if k == 'call':
            i = step[1]
            if tasks[i] is None:
                tasks[i] = asyncio.ensure_future(do_call(i, sc['calls'][i]))
        elif k == 'pause':
            if not transport.paused_writing and not transport.closing:
                events.append(('pause',))
            transport.env_pause()
        elif k == 'resume':
            if transport.paused_writing:
                events.append(('resume',))
                parked.clear()
            transport.env_resume()
        elif k == 'cancel':
            if tasks[step[1]] is not None and not tasks[step[1]].done():
                tasks[step[1]].cancel()
        elif k == 'advance':
            await asyncio.sleep(step[1])
        elif k == 'answer':
            i, shape = step[1], (step[2] if len(step) > 2 else 'ok')
            if i in on_wire and i not in answers:
                if shape == 'mal' and not isinstance(on_wire[i], dict):
                    shape = 'ok'
                answers[i] = answer_payload(i, shape)
                peer_send(answers[i], ('answer', i, shape))
        elif k == 'dup':
            if step[1] in answers:
                peer_send(answers[step[1]], ('dup', step[1], 'ok'))
        elif k == 'unknown':
            unused = (max([x for x in all_ids if isinstance(x, int)] or [0])) + 10_000
            peer_send(make_resp(style, unused, 'val', 1), ('unknown', -1, 'ok'))
        elif k == 'lost':
            transport.drop()
        else:
            raise ValueError(step)
        await settle(12)
        if k == 'call':
            for kk in range(ncreated, len(created)):
                created_by[kk] = step[1]
                if created[kk]['ids'] is not None and transport.paused_writing \
                        and not transport.closing:
                    parked.append(kk)
        if transport.lost:
            parked.clear()
        collect()
    await settle(12)
    collect()
    futs = [fut_state(jr, c['fut']) for c in created if c['fut'] is not None]
    pending = len(session.connection.pending_requests())
    history = list(events)         # the probe below is not part of the judged history
    stuck = [i for i, t in enumerate(tasks) if t is not None and not t.done()]
    for t in tasks:
        if t is not None and not t.done():
            t.cancel()
    await settle(4)
    errors = session.errors
    # a later request is still answered (the message loop survived the noise)
    alive = None
    if not transport.is_closing() and not transport.paused_writing:
        transport.take_messages()
        probe = asyncio.ensure_future(session.send_request('m', [99, 0]))
        await settle(8)
        w = transport.take_messages()
        if w and isinstance(w[-1], dict) and 'id' in w[-1]:
            transport.feed(json.dumps(make_resp(style, w[-1]['id'], 'val', 7)).encode() + b'\n')
            await settle(8)
        alive = probe.done() and not probe.cancelled() and probe.exception() is None \
            and probe.result() == value(7)
        if not probe.done():
            probe.cancel()
    await session.close()
    logging.disable(logging.NOTSET)
    # connection-level history for the model
    rs = Resolver(id_step)
    conn_ops, ticket_of, nt = [], {}, 0
    for e in history:
        if e[0] == 'create':
            c = created[e[1]]
            used = c['n'] if c['ids'] is not None or fail_draws[0 if c['op'][0] == 'S' else 1] else 0
            rs.drew(used, c['ids'])
            conn_ops.append(c['op'])
            if c['fut'] is not None:
                ticket_of[e[1]] = nt
                nt += 1
        elif e[0] == 'r':
            conn_ops.append(['L' if isinstance(e[1], list) else 'R', e[1]])
        elif e[0] == 'fcancel':
            conn_ops.append(['X', ticket_of[e[1]]])
        elif e[0] == 'lost':
            conn_ops.append(['C'])
    try:
        start = rs.start()
    except OutsideModel as e:
        start = str(e)
    # the same history at session level (Sess.lean): who parked, who gave up where
    sess_ops = []
    for e in history:
        if e[0] == 'create':
            sess_ops.append(created[e[1]]['op'])
        elif e[0] == 'r':
            sess_ops.append(['L' if isinstance(e[1], list) else 'R', e[1]])
        elif e[0] == 'fcancel':
            sess_ops.append(['X', ticket_of[e[1]]])
        elif e[0] == 'lost':
            sess_ops.append(['C'])
        elif e[0] == 'pause':
            sess_ops.append(['P'])
        elif e[0] == 'resume':
            sess_ops.append(['U'])
        elif e[0] == 'drop':
            sess_ops.append(['D', e[1]])
    wire = []
    for e in history:
        if e[0] == 'w':
            members = e[1] if isinstance(e[1], list) else [e[1]]
            wire.append(','.join(str(m['id']) for m in members
                                 if isinstance(m, dict) and m.get('id') is not None))
    return {'outcomes': outcomes,
            'events': [list(e) for e in history if e[0] in ('w', 'r', 'lost', 'o', 'fcancel')],
            'conn_ops': conn_ops, 'sess_ops': sess_ops, 'wire': 'w' + ';'.join(wire),
            'start': start, 'futs': futs, 'pending': pending,
            'stuck': stuck, 'errors': errors, 'alive': alive, 'verdicts': verdicts}


RESPONSE_LIKE = ('r', 'e', 'b', 'P', 'B')


def session_oracle(sc, obs):
    """None or (key, why) - see the module docstring"""
    unanswered = {}        # call index -> ids of its message, written and not yet answered
    delivered = {}         # call index -> (event index, token the caller must get)
    got = {}               # call index -> (event index, outcome)
    rejected_due = 0
    nrecv = 0
    verdicts = obs.get('verdicts') or []
    gone = set()           # callers that have an outcome already
    for x, e in enumerate(obs['events']):
        if e[0] == 'w':
            msg = e[1]
            members = msg if isinstance(msg, list) else [msg]
            reqs = [m for m in members if isinstance(m, dict) and m.get('id') is not None]
            if not reqs:
                continue
            ids = [m['id'] for m in reqs]
            for j, i in enumerate(ids):
                if i in ids[:j]:
                    return 'c01:id-not-fresh', f'id {i!r} twice in one batch on the wire: {msg}'
                for other, oids in unanswered.items():
                    if i in oids:
                        return ('c01:id-not-fresh',
                                f'request(s) {msg} written with id {i!r} while the request of call '
                                f'{other} with the same id is on the wire and unanswered')
            who = e[2] if len(e) > 2 else reqs[0].get('params', [None])[0]
            unanswered[who] = ids
        elif e[0] == 'r':
            _payload, kind, i, shape = e[1], e[2], e[3], e[4]
            verdict = None     # what the connection said to exactly this message
            if nrecv < len(verdicts) and verdicts[nrecv][0] == json.dumps(_payload):
                verdict = verdicts[nrecv][1]
            nrecv += 1
            if kind == 'answer' and shape == 'ok' and i in unanswered and i not in gone \
                    and verdict == 'P':
                return ('c01:session-outstanding-response-rejected',
                        f'call {i} {sc["calls"][i]}: its request (ids {unanswered[i]}) is on the '
                        f'wire, unanswered and still awaited; the peer\'s response under '
                        f'{"that id" if len(unanswered[i]) == 1 else "those ids"} was rejected '
                        f'as a protocol error')
            if kind in ('answer', 'dup') and i in unanswered:
                del unanswered[i]
                delivered.setdefault(i, (x, expected_token(sc, i, shape)))
            else:
                rejected_due += 1
        elif e[0] == 'lost':
            unanswered.clear()
        elif e[0] == 'o':
            got[e[1]] = (x, e[2])
            gone.add(e[1])
    for i, call in enumerate(sc['calls']):
        members = call[1].count('r') if call[0] == 'batch' else 1
        out = got.get(i)
        if members == 0:
            if out and out[1] == '!TypeError':
                return ('c01:notification-only-batch-typeerror',
                        f'call {i} {call}: TypeError after the batch was written')
            if out and out[1] not in ('b[]', 'c', 'T'):
                return 'c01:session-wrong-outcome', f'call {i} {call}: got {out[1]}, nothing to wait for'
            continue
        if out and out[1][0] in RESPONSE_LIKE:
            d = delivered.get(i)
            if d is None or d[0] > out[0] or d[1] != out[1]:
                sent = 'nothing yet' if d is None or d[0] > out[0] else d[1]
                return ('c01:session-wrong-outcome',
                        f'call {i} {call}: got {out[1]}; under its id the peer had sent {sent}')
        # (what a caller that was never answered ends with - cancellation, a time-out, any other
        # exception - is not this property's business; the model comparison sees its future)
        d = delivered.get(i)
        if d is not None and (out is None or out[0] > d[0]):
            # it was still waiting when the peer's answer arrived
            if out is None:
                return ('c01:session-caller-never-completed',
                        f'call {i} {call}: the peer answered {d[1]}, the caller is still waiting')
            if out[1] != d[1]:
                return ('c01:session-wrong-outcome',
                        f'call {i} {call}: got {out[1]}, the peer sent {d[1]}')
    if obs['errors'] < rejected_due:
        return ('c01:session-unknown-id-not-rejected',
                f'{rejected_due} answers to ids that were not outstanding, session.errors = {obs["errors"]}')
    if obs['alive'] is False:
        return ('c01:session-dead-after-responses',
                'a request made after all this did not complete with the result the peer sent under its id')
    return None


# ------------------------------------------------------------------ scenario families
def draw_tags(rng, calls, p=0.45):
    """tags for `calls` such that a call repeats, with probability p, the request / the batch of
    an earlier call: same method and args (a batch: the same members; the later call's member
    string is overwritten to that end).  Time-outs and raise_errors stay the call's own."""
    tags = list(range(len(calls)))
    for i, call in enumerate(calls):
        earlier = [j for j in range(i) if calls[j][0] == call[0]]
        if earlier and rng.random() < p:
            j = rng.choice(earlier)
            tags[i] = tags[j]
            if call[0] == 'batch':
                call[1] = calls[j][1]
    return tags


def basic_scenarios(rng, n, protos=('v2', 'loose', 'v1', 'auto')):
    out = []
    # fixed ones first: the notification-only batch (F19), mixed shapes
    for proto in ('v2', 'loose', 'auto'):
        out.append({'layer': 'session', 'proto': proto, 'calls': [['batch', 'nn', 0]], 'seed': 1})
        out.append({'layer': 'session', 'proto': proto,
                    'calls': [['req'], ['batch', 'rnr', 0], ['req'], ['batch', 'rr', 1]], 'seed': 2})
    for k in range(n):
        proto = protos[k % len(protos)]
        calls = []
        for _ in range(rng.randint(1, 6)):
            if proto == 'v1' or rng.random() < 0.5:
                calls.append(['req'])
            else:
                ms = ''.join(rng.choice('rrn') for _ in range(rng.randint(1, 4)))
                calls.append(['batch', ms, int(rng.random() < 0.3)])
        sc = {'layer': 'session', 'proto': proto, 'calls': calls, 'seed': rng.randrange(10**6)}
        if k % 2:
            sc['tags'] = draw_tags(rng, calls)
        out.append(sc)
    return out


def backpressure_scenarios(protos=('v2',), laters=(0, 2, 3), seed=0, equal=False):
    """One sender (a request or a batch) gives up - cancelled, or its own timeout fires - at each
    point where it can wait: parked in `transport.write` behind a full send buffer, or awaiting
    the response.  Around it: 0-2 senders blocked before it and 0-2 after it; then the buffer
    drains and 0-3 further requests are made; the peer answers everything it saw (in the order
    seen or reversed) and repeats one answer.
    `equal`: all the single requests are equal (same method, same args) and so are all the
    batches of the same shape - the victim gives up among equals."""
    out = []
    for proto in protos:
        for nb in (0, 1, 2):
            for na in (0, 1, 2):
                for vkind in ('req', 'batch'):
                    if proto == 'v1' and vkind == 'batch':
                        continue
                    for giveup in ('cancel', 'timeout'):
                        for point in ('write', 'response'):
                            for nl in laters:
                                calls, script = [], [['pause']]
                                for _ in range(nb):
                                    calls.append(['req'])
                                    script.append(['call', len(calls) - 1])
                                v = len(calls)
                                if vkind == 'req':
                                    calls.append(['req', 5] if giveup == 'timeout' else ['req'])
                                else:
                                    calls.append(['batch', 'rr', 0, 5] if giveup == 'timeout'
                                                 else ['batch', 'rr', 0])
                                script.append(['call', v])
                                for _ in range(na):
                                    calls.append(['req'])
                                    script.append(['call', len(calls) - 1])
                                drop = [['cancel', v]] if giveup == 'cancel' else [['advance', 6]]
                                if point == 'write':
                                    script += drop + [['resume']]
                                else:
                                    script += [['resume']] + drop
                                for _ in range(nl):
                                    calls.append(['req'] if len(calls) % 3 or proto == 'v1'
                                                 else ['batch', 'rnr', 0])
                                    script.append(['call', len(calls) - 1])
                                order = list(range(len(calls)))
                                if (nb + na + nl) % 2:
                                    order.reverse()
                                script += [['answer', i, 'ok'] for i in order]
                                script += [['dup', order[0]], ['dup', v]]
                                sc = {'layer': 'session', 'proto': proto, 'calls': calls,
                                      'script': script, 'seed': seed + len(out)}
                                if equal:
                                    sc['tags'] = [0 if c[0] == 'req' else 100 + len(c[1])
                                                  for c in calls]
                                out.append(sc)
    return out


def equal_scenarios(protos=('v2', 'loose', 'v1', 'auto'), full=False):
    """k = 2 or 3 tasks hold EQUAL requests (same method, same args; or batches of the same
    members) at once, as several pollers would.  Caller g of them gives up - cancelled, its own
    `timeout_after`, or the session's `sent_request_timeout` (which takes the callers 0..g, who
    started earlier) - parked in `transport.write` or awaiting the response, while the others
    still wait.  Then the peer answers ALL of them, each with its own value, in wire order or
    reversed, repeats two answers; later calls repeat the same request once more and a different
    one; those are answered too."""
    out = []
    for proto in protos:
        for vkind in ('req', 'batch'):
            if proto == 'v1' and vkind == 'batch':
                continue
            for k in (2, 3):
                for g in range(k):
                    for how in ('cancel', 'timeout', 'srt'):
                        for point in ('response', 'write'):
                            for rev in ((0, 1) if full else ((g + k + (point == 'write')) % 2,)):
                                def mk(T=None):
                                    if vkind == 'req':
                                        return ['req'] + ([T] if T else [])
                                    return ['batch', 'rnr', 0] + ([T] if T else [])
                                calls = [mk(5 if how == 'timeout' and i == g else None)
                                         for i in range(k)]
                                script = [['pause']] if point == 'write' else []
                                for i in range(k):
                                    script += [['call', i], ['advance', 1]]
                                # call i starts at time i; srt = 10: at time g + 10.5 the callers
                                # 0..g have timed out, the others not yet
                                if how == 'cancel':
                                    script.append(['cancel', g])
                                elif how == 'timeout':
                                    script.append(['advance', 6])
                                else:
                                    script.append(['advance', g + 10.5 - k])
                                if point == 'write':
                                    script.append(['resume'])
                                later = [mk(), ['req'] if vkind == 'batch' or proto == 'v1'
                                         else ['batch', 'rr', 1]]
                                calls += later
                                script += [['call', k], ['call', k + 1]]
                                order = list(range(k + 2))
                                if rev:
                                    order.reverse()
                                script += [['answer', i, 'ok'] for i in order]
                                script += [['dup', g], ['dup', (g + 1) % k]]
                                out.append({'layer': 'session', 'proto': proto, 'calls': calls,
                                            'tags': [0] * (k + 1) + [1], 'script': script,
                                            'seed': 7 + len(out), 'srt': 10, 'msd': 40})
    return out


def reply_scenarios(protos=('v2', 'loose', 'v1', 'auto')):
    """malformed-with-id replies, late replies after a timeout (the caller's own and the
    session's sent_request_timeout), replies repeated after that, a lost connection, a send
    buffer that stays full for longer than max_send_delay"""
    out = []
    for proto in protos:
        b = ['req'] if proto == 'v1' else ['batch', 'rnr', 1]
        c3 = [['req'], b, ['req']]
        go = [['call', 0], ['call', 1], ['call', 2]]
        def S(calls, script, **kw):
            # as is, and once more with the two single requests (calls 0 and 2) EQUAL
            out.append(dict({'layer': 'session', 'proto': proto, 'calls': calls,
                             'script': script, 'seed': 3}, **kw))
            tags = list(range(len(calls)))
            tags[2] = 0
            out.append(dict({'layer': 'session', 'proto': proto, 'calls': calls,
                             'script': script, 'seed': 3, 'tags': tags}, **kw))
        # a malformed response whose id is recoverable completes exactly that request
        S(c3, go + [['answer', 2, 'mal'], ['answer', 0, 'ok'], ['dup', 2], ['answer', 1, 'ok']])
        S(c3, go + [['answer', 0, 'mal'], ['dup', 0], ['unknown'], ['answer', 1, 'ok'],
                    ['answer', 2, 'mal']])
        # late reply after the caller's own timeout, then a replay of it
        S([['req', 5], b, ['req']], go + [['advance', 6], ['answer', 0, 'ok'], ['dup', 0],
                                          ['answer', 2, 'ok'], ['answer', 1, 'ok']])
        S([['req'], b, ['req', 5]], go + [['advance', 6], ['answer', 2, 'ok'], ['answer', 0, 'ok'],
                                          ['dup', 2], ['answer', 1, 'ok']])
        # late replies after the session's sent_request_timeout; later requests are fine
        S(c3 + [['req'], b], go + [['advance', 9], ['answer', 1, 'ok'], ['call', 3], ['call', 4],
                                   ['answer', 0, 'ok'], ['answer', 4, 'ok'], ['dup', 1],
                                   ['answer', 3, 'ok'], ['answer', 2, 'mal']], srt=8)
        # a cancelled caller's late reply
        S(c3, go + [['cancel', 1], ['answer', 1, 'ok'], ['answer', 0, 'ok'], ['dup', 1],
                    ['answer', 2, 'ok']])
        S(c3, go + [['cancel', 2], ['answer', 2, 'ok'], ['answer', 0, 'ok'], ['dup', 2],
                    ['answer', 1, 'ok']])
        # the connection is lost with requests outstanding
        S(c3, go + [['answer', 1, 'ok'], ['lost'], ['answer', 0, 'ok']])
        S(c3, [['pause']] + go + [['lost'], ['resume']])
        # the send buffer stays full for longer than max_send_delay: the session aborts
        S(c3 + [['req']], [['call', 0], ['answer', 0, 'ok'], ['pause'], ['call', 1], ['call', 2],
                           ['advance', 25], ['resume'], ['call', 3]])
    return out


def semaphore_scenarios(protos=('v2',)):
    """The third place where a sender can wait: more than 50 outgoing calls at once queue at the
    session's outgoing-concurrency semaphore (after their ids were drawn, before their message is
    written).  53 requests; one of the three that queue is cancelled / times out there; answers
    free slots so that the others get written; then later requests; everything is answered.
    (The Lean session model does not have the semaphore: for these scenarios only the
    connection-level history is compared with the model.)"""
    out = []
    for proto in protos:
        for victim in (50, 51, 52):
            for giveup in ('cancel', 'timeout'):
                calls = [['req'] for _ in range(53)]
                if giveup == 'timeout':
                    calls[victim] = ['req', 5]
                script = [['call', i] for i in range(53)]
                script += [['cancel', victim]] if giveup == 'cancel' else [['advance', 6]]
                script += [['answer', 0, 'ok'], ['answer', 1, 'ok'], ['answer', 2, 'ok']]
                calls += [['req'], ['req'] if proto == 'v1' else ['batch', 'rr', 0]]
                script += [['call', 53], ['call', 54]]
                rest = [i for i in range(55) if i > 2]
                if victim % 2:
                    rest.reverse()
                script += [['answer', i, 'ok'] for i in rest] + [['dup', 52], ['dup', victim]]
                out.append({'layer': 'session', 'proto': proto, 'calls': calls, 'script': script,
                            'seed': victim, 'srt': 1000})
                # once more with all 54 single requests equal
                out.append({'layer': 'session', 'proto': proto, 'calls': calls, 'script': script,
                            'seed': victim, 'srt': 1000, 'tags': [0] * 54 + [1]})
    return out


def random_scenarios(rng, n, protos=('v2', 'loose', 'v1', 'auto')):
    """seeded random scripts over all step kinds: calls (some with their own time-out), buffer
    full / drained, cancellations, time passing (also beyond max_send_delay = 20 and
    sent_request_timeout = 30), answers (also malformed-with-id), replays, unknown ids, the
    connection lost - in any order"""
    out = []
    for k in range(n):
        proto = protos[k % len(protos)]
        ncalls = rng.randint(2, 7)
        calls = []
        for _ in range(ncalls):
            own = [rng.choice([3, 5, 8])] if rng.random() < 0.25 else []
            if proto == 'v1' or rng.random() < 0.6:
                calls.append(['req'] + own)
            else:
                ms = ''.join(rng.choice('rrn') for _ in range(rng.randint(1, 3)))
                calls.append(['batch', ms, int(rng.random() < 0.3)] + own)
        script, started, paused = [], [], False
        todo = list(range(ncalls))
        for _ in range(rng.randint(ncalls + 2, 3 * ncalls + 8)):
            r = rng.random()
            if todo and r < 0.30:
                i = todo.pop(0)
                started.append(i)
                script.append(['call', i])
            elif r < 0.40:
                script.append(['resume'] if paused else ['pause'])
                paused = not paused
            elif r < 0.48 and started:
                script.append(['cancel', rng.choice(started)])
            elif r < 0.56:
                script.append(['advance', rng.choice([1, 2, 4, 6, 9, 12, 25, 35])])
            elif r < 0.82 and started:
                script.append(['answer', rng.choice(started), 'mal' if rng.random() < 0.12 else 'ok'])
            elif r < 0.90 and started:
                script.append(['dup', rng.choice(started)])
            elif r < 0.95:
                script.append(['unknown'])
            elif r < 0.97:
                script.append(['lost'])
        if paused and rng.random() < 0.8:
            script.append(['resume'])
        script += [['call', i] for i in todo]
        script += [['answer', i, 'ok'] for i in range(ncalls) if rng.random() < 0.8]
        sc = {'layer': 'session', 'proto': proto, 'calls': calls, 'script': script,
              'seed': rng.randrange(10**6)}
        if k % 5 >= 2:
            sc['tags'] = draw_tags(rng, calls, 0.6)
        out.append(sc)
    return out


def scenarios(rng, n, tier='quick'):
    out = basic_scenarios(rng, n)
    out += reply_scenarios()
    out += equal_scenarios(full=(tier != 'quick'))
    out += semaphore_scenarios(('v2',) if tier == 'quick' else ('v2', 'loose', 'v1', 'auto'))
    out += random_scenarios(rng, 5 * n)
    if tier == 'quick':
        out += backpressure_scenarios(('v2', 'loose', 'v1', 'auto'), laters=(0, 2, 3))
        out += backpressure_scenarios(('v2', 'loose', 'v1', 'auto'), laters=(0, 2), equal=True)
    else:
        out += backpressure_scenarios(('v2', 'loose', 'v1', 'auto'), laters=(0, 1, 2, 3))
        out += backpressure_scenarios(('v2', 'loose', 'v1', 'auto'), laters=(0, 1, 2, 3), equal=True)
    return out


def _evaluate(ctx, scs, res, scope='session_scenarios'):
    jr = fresh_import(ctx.repo, 'aiorpcx.jsonrpc')
    rawsocket = fresh_import(ctx.repo, 'aiorpcx.rawsocket')
    session_mod = fresh_import(ctx.repo, 'aiorpcx.session')
    curio = fresh_import(ctx.repo, 'aiorpcx.curio')
    mods = (jr, rawsocket, session_mod, curio)
    from harness.c01 import id_params
    id_step, fail_draws = id_params(ctx.facts)

    async def go(part):
        out = []
        for sc in part:
            try:
                out.append(await run_scenario(mods, sc, id_step, fail_draws))
            except (vloop.Deadlock, vloop.Livelock) as e:
                out.append({'hang': type(e).__name__})
        return out
    # a fresh virtual loop per 50 scenarios: the loop's no-progress watchdog counts iterations
    # without virtual-time progress, and most scenarios never let time pass
    obs_list = []
    for a in range(0, len(scs), 50):
        part = scs[a:a + 50]
        try:
            obs_list += vloop.run(go(part))
        except (vloop.Deadlock, vloop.Livelock) as e:
            # outside any scenario's own await: find the scenario by running them one by one
            for sc in part:
                try:
                    obs_list += vloop.run(go([sc]))
                except (vloop.Deadlock, vloop.Livelock) as e2:
                    obs_list.append({'hang': type(e2).__name__})
    lines, idx, has_w = [], [], {}
    for k, (sc, obs) in enumerate(zip(scs, obs_list)):
        if 'hang' in obs:
            res.violation('c01:session-hang', sc, obs['hang'])
            continue
        v = session_oracle(sc, obs)
        if v:
            res.violation(v[0], sc, v[1], impl=obs['outcomes'],
                          wire=[e for e in obs['events'] if e[0] in ('w', 'r', 'lost')][:40])
        # connection-level replay of the same traffic through the model
        try:
            if isinstance(obs['start'], str):
                raise OutsideModel(obs['start'])
            a = abstract({'proto': sc['proto'], 'ops': obs['conn_ops']}, start=obs['start'])
            if len(sc['calls']) <= 40:
                b = abstract({'proto': sc['proto'], 'ops': obs['sess_ops']}, variant='W',
                             start=obs['start'] or 0)
            else:
                b = None      # callers queue at the concurrency semaphore: outside Sess.lean
            lines += [a, b or a]
            idx.append(k)
            has_w[k] = b is not None
        except OutsideModel as e:
            res.disagreement(sc, obs['futs'], f'ids outside the model: {e}')
        except ValueError:
            res.count('session_outside_model_grid')
        res.count('session_calls', len(sc['calls']))
        res.count('session_wire_events', len(obs['events']))
        res.count('session_senders_parked_and_gave_up',
                  int(any(s[0] == 'pause' for s in sc.get('script', []))))
        if any(e[0] == 'r' for e in obs['events']) and len(sc['calls']) >= 2:
            res.nontrivial('session:' + json.dumps([sc['proto'], sc['calls'], sc.get('script'),
                                                    sc['seed'], sc.get('tags')]))
    model = ctx.model(lines)
    if model is not None:
        for n, k in enumerate(idx):
            sc, obs = scs[k], obs_list[k]
            line, out = lines[2 * n], model[2 * n]
            # session level: table, futures and the ids on the wire in wire order
            have_w = f'#{obs["pending"]} ' + (','.join(obs['futs']) if obs['futs'] else '.') \
                + ' ' + obs['wire']
            if has_w[k] and model[2 * n + 1] != have_w and not res.n_violations:
                res.disagreement(sc, have_w, model[2 * n + 1], model_line=lines[2 * n + 1])
            toks = out.split(' ')
            futs = [] if toks[-1] == '.' else toks[-1].split(',')
            pending = toks[-2]
            # received messages the model rejects = protocol errors the session must count
            rejected = sum(1 for op, t in zip(obs['conn_ops'], toks[:-2])
                           if op[0] in 'RL' and t == '!P')
            want = (futs, pending, rejected)
            have = (obs['futs'], f'#{obs["pending"]}', obs['errors'])
            if want != have and not res.n_violations:
                res.disagreement(sc, list(have), list(want), model_line=line)
    res['evaluations'] += len(scs)
    res['scopes'][scope] = res['scopes'].get(scope, 0) + len(scs)


def run(ctx, res):
    from harness.c01 import unlisted_failure
    n = 60 if unlisted_failure(ctx, res) else (1500 if ctx.tier == 'thorough' else 200 if ctx.deep else 60)
    tier = 'quick' if (ctx.tier != 'thorough' and not ctx.deep) or unlisted_failure(ctx, res) \
        else 'thorough'
    _evaluate(ctx, scenarios(ctx.rng, n, tier), res)


def replay(ctx, case, res):
    _evaluate(ctx, [case], res)
