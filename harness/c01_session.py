"""C01, session layer (PARTIAL: the await plumbing is asyncio's): a real client `RPCSession` on a
fake transport, a scripted peer that answers what was written in a permuted order (batch members
permuted too, plus a replay and an unknown id), and the oracle "every caller gets what the peer
sent under its request's id; `BatchRequest.results` is in the order the requests were added".

A scenario is JSON: {'layer': 'session', 'proto': .., 'calls': [['req'] | ['batch', 'rnr',
raise_errors]], 'seed': n}.  The same traffic is replayed through the Lean model at connection
level (sends in the order written, answers in the order delivered)."""
import asyncio
import json
import logging
import random

from harness import vloop
from harness.c01 import (PROTO_CLASS, abstract, err_obj, make_resp, value, value_token)
from harness.c01_fake import make_session, settle
from tools.facts.common import fresh_import


def reply_for(call, member):
    """what the scripted peer answers to member `member` of call `call`: (kind, n)"""
    n = 3 + 5 * call + member
    return ('err' if (call + member) % 4 == 3 else 'val'), n


def tok_of(kind, n):
    return f'v{n}' if kind == 'val' else f'e{n}'


def result_token(jr, x):
    if isinstance(x, jr.RPCError):
        return f'e{x.code}' if x.message == f'm{x.code}' else f'e?{x.code}'
    if isinstance(x, Exception):
        return '?' + type(x).__name__
    t = value_token(x)
    return f'v{t}' if t is not None else f'v?{x!r}'


async def run_scenario(mods, sc):
    jr, rawsocket, session_mod = mods
    proto = getattr(jr, PROTO_CLASS[sc['proto']])
    rng = random.Random(sc['seed'])

    class Client(session_mod.RPCSession):
        def default_connection(self):
            return jr.JSONRPCConnection(proto)

    logging.disable(logging.CRITICAL)
    _p, transport, session = make_session(rawsocket, Client, session_mod.SessionKind.CLIENT)
    outcomes = [None] * len(sc['calls'])

    async def do_call(i, call):
        try:
            if call[0] == 'req':
                r = await session.send_request('m', [i, 0])
                outcomes[i] = 'r' + result_token(jr, r)[1:] if not isinstance(r, Exception) \
                    else result_token(jr, r)
            else:
                batch = None
                try:
                    async with session.send_batch(raise_errors=bool(call[2])) as batch:
                        for j, c in enumerate(call[1]):
                            if c == 'r':
                                batch.add_request('m', [i, j])
                            else:
                                batch.add_notification('n', [i, j])
                    pre = ''
                except session_mod.BatchError:
                    pre = 'B!'
                res = batch.results
                outcomes[i] = pre + ('none' if res is None else
                                     'b[' + ';'.join(result_token(jr, x) for x in res) + ']')
        except jr.RPCError as e:
            outcomes[i] = f'e{e.code}' if e.message == f'm{e.code}' else f'e?{e.code}'
        except jr.ProtocolError:
            outcomes[i] = 'P'
        except asyncio.CancelledError:
            outcomes[i] = 'c'
        except Exception as e:   # noqa: observation
            outcomes[i] = '!' + type(e).__name__

    tasks = [asyncio.ensure_future(do_call(i, c)) for i, c in enumerate(sc['calls'])]
    await settle(12)
    written = transport.take_messages()
    style = 'v2' if sc['proto'] == 'auto' else sc['proto']
    # the peer answers every request it saw, recording what it sent under which id
    answers, conn_ops = [], []
    for msg in written:
        members = msg if isinstance(msg, list) else [msg]
        reqs = [m for m in members if m.get('id') is not None]
        if isinstance(msg, list):
            conn_ops.append(['B', ''.join('r' if m.get('id') is not None else 'n' for m in members), 1])
        else:
            conn_ops.append(['S', 1])
        if not reqs:
            continue
        parts = []
        for m in reqs:
            kind, n = reply_for(*m['params'])
            parts.append(make_resp(style, m['id'], kind, n))
        if isinstance(msg, list):
            rng.shuffle(parts)
            answers.append(['L', parts])
        else:
            answers.append(['R', parts[0]])
    rng.shuffle(answers)
    extra = []
    if answers and sc.get('noise', True):
        extra.append(answers[rng.randrange(len(answers))])                     # a replay
        extra.append(['R', make_resp(style, 10_000, 'val', 1)])                # unknown id
    stream = list(answers)
    for e in extra:
        stream.insert(rng.randint(1, len(stream)), e)
    for kind, payload in stream:
        _p.data_received(json.dumps(payload).encode() + b'\n')
        await settle(8)
    await settle(12)
    stuck = [i for i, t in enumerate(tasks) if not t.done()]
    for t in tasks:
        if not t.done():
            t.cancel()
    await settle(4)
    errors = session.errors
    # a later request is still answered (the message loop survived the noise)
    alive = None
    if not transport.is_closing():
        probe = asyncio.ensure_future(session.send_request('m', [99, 0]))
        await settle(8)
        w = transport.take_messages()
        if w and isinstance(w[-1], dict) and 'id' in w[-1]:
            _p.data_received(json.dumps(make_resp(style, w[-1]['id'], 'val', 7)).encode() + b'\n')
            await settle(8)
        alive = probe.done() and not probe.cancelled() and probe.exception() is None \
            and probe.result() == value(7)
        if not probe.done():
            probe.cancel()
    await session.close()
    logging.disable(logging.NOTSET)
    return {'outcomes': outcomes, 'written': written, 'conn_ops': conn_ops + stream,
            'stuck': stuck, 'errors': errors, 'alive': alive, 'noise': len(extra)}


def session_oracle(sc, obs):
    """None or (key, why): every caller got what the peer sent under its id, in member order"""
    if obs['stuck']:
        return 'c01:session-caller-never-completed', f'calls {obs["stuck"]} still waiting'
    for i, call in enumerate(sc['calls']):
        got = obs['outcomes'][i]
        if call[0] == 'req':
            kind, n = reply_for(i, 0)
            want = f'r{n}' if kind == 'val' else f'e{n}'
        else:
            members = [j for j, c in enumerate(call[1]) if c == 'r']
            toks = [tok_of(*reply_for(i, j)) for j in members]
            want = 'b[' + ';'.join(toks) + ']'
            if call[2] and any(t[0] == 'e' for t in toks):
                want = 'B!' + want
            if not members:
                if got == '!TypeError':
                    return ('c01:notification-only-batch-typeerror',
                            f'call {i} {call}: TypeError after the batch was written')
                want = 'b[]'
        if got != want:
            return 'c01:session-wrong-outcome', f'call {i} {call}: got {got}, the peer sent {want}'
    if obs['alive'] is False:
        return 'c01:session-dead-after-responses', 'a later request was not answered'
    return None


def scenarios(rng, n, protos=('v2', 'loose', 'v1', 'auto')):
    out = []
    # fixed ones first: the notification-only batch (F19), mixed shapes
    for proto in ('v2', 'loose', 'auto'):
        out.append({'layer': 'session', 'proto': proto, 'calls': [['batch', 'nn', 0]], 'seed': 1})
        out.append({'layer': 'session', 'proto': proto,
                    'calls': [['req'], ['batch', 'rnr', 0], ['req'], ['batch', 'rr', 1]], 'seed': 2})
    for k in range(n):
        proto = protos[k % len(protos)]
        calls = []
        for _ in range(rng.randint(1, 6)):
            if proto == 'v1' or rng.random() < 0.5:
                calls.append(['req'])
            else:
                ms = ''.join(rng.choice('rrn') for _ in range(rng.randint(1, 4)))
                calls.append(['batch', ms, int(rng.random() < 0.3)])
        out.append({'layer': 'session', 'proto': proto, 'calls': calls, 'seed': rng.randrange(10**6)})
    return out


def _evaluate(ctx, scs, res):
    jr = fresh_import(ctx.repo, 'aiorpcx.jsonrpc')
    rawsocket = fresh_import(ctx.repo, 'aiorpcx.rawsocket')
    session_mod = fresh_import(ctx.repo, 'aiorpcx.session')
    mods = (jr, rawsocket, session_mod)

    async def go():
        out = []
        for sc in scs:
            try:
                out.append(await run_scenario(mods, sc))
            except (vloop.Deadlock, vloop.Livelock) as e:
                out.append({'hang': type(e).__name__})
        return out
    obs_list = vloop.run(go())
    lines, idx = [], []
    for k, (sc, obs) in enumerate(zip(scs, obs_list)):
        if 'hang' in obs:
            res.violation('c01:session-hang', sc, obs['hang'])
            continue
        v = session_oracle(sc, obs)
        if v:
            res.violation(v[0], sc, v[1], impl=obs['outcomes'])
        # connection-level replay of the same traffic through the model
        try:
            lines.append(abstract({'proto': sc['proto'], 'ops': obs['conn_ops']}))
            idx.append(k)
        except ValueError:
            pass
        res.count('session_calls', len(sc['calls']))
        res.count('session_noise_messages', obs['noise'])
    model = ctx.model(lines)
    if model is not None:
        for line, out, k in zip(lines, model, idx):
            sc, obs = scs[k], obs_list[k]
            futs = out.split(' ')[-1]
            futs = [] if futs == '.' else futs.split(',')
            # futures in creation order = calls in the order their message was written
            order = []
            for msg in obs['written']:
                first = (msg if isinstance(msg, dict) else msg[0])['params'][0]
                if isinstance(msg, dict) or any(m.get('id') is not None for m in msg):
                    order.append(first)
            want = [obs['outcomes'][i].replace('B!', '') for i in order]
            if futs != want and not res.n_violations:
                res.disagreement(sc, want, futs, model_line=line)
    res['evaluations'] += len(scs)
    res['scopes']['session_scenarios'] = res['scopes'].get('session_scenarios', 0) + len(scs)


def run(ctx, res):
    from harness.c01 import unlisted_failure
    n = 60 if unlisted_failure(ctx, res) else (1500 if ctx.tier == 'thorough' else 200 if ctx.deep else 60)
    _evaluate(ctx, scenarios(ctx.rng, n), res)


def replay(ctx, case, res):
    _evaluate(ctx, [case], res)
