"""C01 correspondence + search: real `JSONRPCConnection` (and, partially, a real `RPCSession` on a
fake transport) vs the Lean model (`drv_c01`), and the property oracle - written from the
property text, independent of the model - on every implementation trace.

A case is `{'proto': 'v1'|'v2'|'loose'|'auto', 'ops': [...]}` with ops

    ['S', ok]                  send_request (ok=0: the request cannot be encoded)
    ['B', 'rnr', ok]           send_batch with request / notification members
    ['R', payload]             receive_message(json(payload))   - a single response
    ['L', [payload, ..]]       receive_message(json([...]))     - a response batch
    ['O', payload]             receive_message of a request / notification
    ['C']                      cancel_pending_requests
    ['X', t]                   the t-th future handed out is cancelled by its awaiter

Payloads are JSON values, so a case is a replay file as is.

IDS ARE READ FROM THE WIRE.  The number under `"id"` in a response payload of a case is a *draw
index*: `n` stands for "the id the peer saw in the n-th request this connection handed out"
(0-based; a send that fails still uses up its indices).  While the case runs, the harness decodes
the ids from the bytes `send_request` / `send_batch` returned and substitutes them (`Resolver`);
`1.0`, `1.5`, `"1"` become the float / half / string forms of that wire id, an index not drawn
yet is extrapolated from the last id seen.  On the unchanged tree (ids 0, 1, 2, ...) the
substitution is the identity.  Oracle and model see the resolved payloads only, so nothing
depends on where a connection starts counting, and the draw index tells the oracle which request
a response was *caused by* (a duplicate of the answer to request 0 stays an answer to request 0
even on a tree that hands the id 0 out again).

`abstract()` maps a resolved case to the model's input line (ids and "is this a valid response
for the protocol in force" are the only things the model needs to know about a payload)."""
import itertools
import json
import os
from multiprocessing import Pool

from harness import vloop
from harness.base import Results, corpus_lines
from tools.facts.common import fresh_import

PROTO_CLASS = {'v1': 'JSONRPCv1', 'v2': 'JSONRPCv2', 'loose': 'JSONRPCLoose',
               'auto': 'JSONRPCAutoDetect'}
DET = {'v1': '1', 'v2': '2', 'loose': 'L'}


# ------------------------------------------------------------------ values and tokens
def value(n):
    """result token n -> an actual JSON result (injective)"""
    if n == 0:
        return None
    if n % 3 == 1:
        return n
    if n % 3 == 2:
        return {'k': [n]}
    return f't{n}'


def value_token(v):
    if v is None:
        return 0
    if isinstance(v, bool):
        return None
    if isinstance(v, int):
        return v if v % 3 == 1 else None
    if isinstance(v, dict) and list(v) == ['k'] and isinstance(v['k'], list) and len(v['k']) == 1:
        return v['k'][0]
    if isinstance(v, str) and v[:1] == 't' and v[1:].isdigit():
        return int(v[1:])
    return None


def err_obj(n):
    return {'code': n, 'message': f'm{n}'}


def id_token(v):
    if isinstance(v, bool):
        return 'bT' if v else 'bF'
    if isinstance(v, int):
        return f'i{v}'
    if isinstance(v, float):
        h = v * 2
        if h != h or h in (float('inf'), float('-inf')) or h != int(h):
            raise ValueError(f'float id {v!r} outside the modelled grid')
        return f'h{int(h)}'
    if isinstance(v, str):
        return 's' + '.'.join(str(ord(c)) for c in v)
    if v is None:
        return 'n'
    if isinstance(v, list):
        return 'u0'
    if isinstance(v, dict):
        return 'u1'
    raise ValueError(v)


def is_number(v):
    return isinstance(v, (int, float)) and not isinstance(v, bool)


# ------------------------------------------------------------------ protocol rules (harness side)
def py_detect_one(p):
    if not isinstance(p, dict):
        return 'loose'
    ver = p.get('jsonrpc')
    if ver == '2.0':
        return 'v2'
    if ver == '1.0':
        return 'v1'
    if 'result' in p and 'error' in p:
        return 'v1'
    return 'loose'


def py_detect(payload):
    if isinstance(payload, list):
        parts = {py_detect_one(p) for p in payload}
        if len(parts) == 1:
            return parts.pop()
        for cand in ('v2', 'v1'):
            if cand in parts:
                return cand
        return 'loose'
    return py_detect_one(payload)


def classify(proto, p):
    """(id token or '-', well-formed?, result token 'vN'/'eN') of response payload `p` under
    protocol `proto` - the validity rules of JSON-RPC 1.0 / 2.0 / Loose as this library reads
    them.  The id token is the raw id; whether the protocol admits it is the model's business."""
    idtok = id_token(p['id']) if 'id' in p else '-'
    res = None
    if proto == 'v1':
        wf = 'result' in p and 'error' in p and (p['error'] is None or p['result'] is None)
        if wf:
            res = ('v', p['result']) if p['error'] is None else ('e', p['error'])
    elif proto == 'v2':
        wf = p.get('jsonrpc') == '2.0' and (('result' in p) != ('error' in p))
        if wf and 'error' in p:
            e = p['error']
            wf = isinstance(e, dict) and isinstance(e.get('code'), int) \
                and isinstance(e.get('message'), str)
        if wf:
            res = ('v', p['result']) if 'result' in p else ('e', p['error'])
    else:
        if p.get('error') is not None:
            wf = p.get('result') is None
            if wf:
                res = ('e', p['error'])
        else:
            wf = 'result' in p
            if wf:
                res = ('v', p['result'])
    tok = 'v0'
    if wf:
        if res[0] == 'v':
            t = value_token(res[1])
            if t is None:
                raise ValueError(f'result {res[1]!r} is not a harness value')
            tok = f'v{t}'
        else:
            e = res[1]
            if not (isinstance(e, dict) and isinstance(e.get('code'), int)
                    and e.get('message') == f'm{e["code"]}'):
                raise ValueError(f'error {e!r} is not a harness error object')
            tok = f'e{e["code"]}'
    return idtok, wf, tok


def admits(proto, idv):
    """may `idv` be the id of a message of this protocol?  (1.0: any JSON value; 2.0 and Loose:
    string, number or null - true/false are not numbers)"""
    if proto == 'v1':
        return True
    return (isinstance(idv, (int, float, str)) or idv is None) and not isinstance(idv, bool)


def make_resp(style, idv, kind, n, noid=False):
    """a response payload in the given style; kind val|err|mal1|mal2"""
    if style == 'v1':
        p = {'val': {'result': value(n), 'error': None},
             'err': {'result': None, 'error': err_obj(n)},
             'mal1': {'result': value(n), 'error': err_obj(n)} if n else {'result': 5, 'error': err_obj(n)},
             'mal2': {'jsonrpc': '1.0', 'result': value(n)}}[kind]
    elif style == 'v2':
        p = {'val': {'jsonrpc': '2.0', 'result': value(n)},
             'err': {'jsonrpc': '2.0', 'error': err_obj(n)},
             'mal1': {'jsonrpc': '2.0', 'result': value(n), 'error': err_obj(n)},
             'mal2': {'jsonrpc': '2.0', 'error': 'oops'}}[kind]
    else:
        p = {'val': {'result': value(n)},
             'err': {'error': err_obj(n)},
             'mal1': {'result': value(n) if n else 5, 'error': err_obj(n), 'x': 1},
             'mal2': {'error': None}}[kind]
    p = dict(p)
    if not noid:
        p['id'] = idv
    return p


def make_request(style, idv, n):
    if style == 'v1':
        return {'method': 'm', 'params': [n], 'id': idv}
    if style == 'v2':
        p = {'jsonrpc': '2.0', 'method': 'm', 'params': [n]}
    else:
        p = {'method': 'm', 'params': [n]}
    if idv is not None:
        p['id'] = idv
    return p


# ------------------------------------------------------------------ case -> model line
class OutsideModel(ValueError):
    """the ids the connection put on the wire are not what the model can express (not
    non-negative ints in arithmetic progression from a start): reported as a disagreement"""


def inforce_after(proto, inforce, op):
    """protocol in force after receiving op's message (AutoDetect settles on the first one)"""
    if inforce is not None or op[0] not in 'RLO':
        return inforce
    return py_detect(op[1])


def abstract(case, variant='R', start=None):
    """model input line of a case whose payloads carry the ids actually used on the wire
    (`run_impl_case` returns the resolved ops); `start` = first id of the history"""
    proto = case['proto']
    inforce = None if proto == 'auto' else proto
    toks = [f'{variant}:{proto}' + ('' if start is None else f':{start}')]
    for op in case['ops']:
        k = op[0]
        if k == 'S':
            toks.append(f'S{int(bool(op[1]))}')
        elif k == 'B':
            toks.append(f'B{op[1]}:{int(bool(op[2]))}')
        elif k in 'RLO':
            det = py_detect(op[1])
            inforce = inforce_after(proto, inforce, op)
            if k == 'O':
                toks.append('O' + DET[det])
            elif k == 'R':
                i, wf, r = classify(inforce, op[1])
                toks.append(f'R{DET[det]}:{i}/{int(wf)}/{r}')
            else:
                parts = []
                for p in op[1]:
                    i, wf, r = classify(inforce, p)
                    parts.append(f'{i}/{int(wf)}/{r}')
                toks.append(f'L{DET[det]}:' + ','.join(parts))
        elif k == 'C':
            toks.append('C')
        elif k == 'X':
            toks.append(f'X{op[1]}')
        elif k in 'PU' and variant == 'W':      # session histories: send buffer full / drained
            toks.append(k)
        elif k == 'D' and variant == 'W':       # the q-th parked caller gives up
            toks.append(f'D{op[1]}')
        else:
            raise ValueError(op)
    return ' '.join(toks)


# ------------------------------------------------------------------ ids: draw index -> wire id
def is_int(v):
    return isinstance(v, int) and not isinstance(v, bool)


class Resolver:
    """Maps the draw indices used in a case's response payloads to the ids the connection
    really put on the wire (decoded from the message bytes by the caller)."""

    def __init__(self, step=1):
        self.step = step or 1
        self.nom = 0            # next draw index
        self.act = {}           # draw index -> wire id
        self.first = None       # (draw index, wire id) of the first id seen

    def drew(self, count, wire_ids):
        """a send used up `count` draw indices; `wire_ids` = the ids decoded from its message
        (None / fewer when the send failed or the message shows fewer ids)"""
        noms = list(range(self.nom, self.nom + count))
        self.nom += count
        for n, a in zip(noms, wire_ids or []):
            self.act[n] = a
            if self.first is None:
                self.first = (n, a)
        return noms

    def predict(self, n):
        if not self.act:
            return n
        m = max(self.act)
        a = self.act[m]
        return a + self.step * (n - m) if is_int(a) else n

    def wire(self, n):
        """(wire id, draw index if that index was really drawn else None)"""
        if n in self.act:
            return self.act[n], n
        return self.predict(n), None

    def resolve(self, v):
        """id value of a case payload -> (value to put on the wire, cause draw index or None,
        form): form 'int' = exactly the id, 'float' = a float equal to it, '' = anything else"""
        if isinstance(v, bool) or v is None:
            return v, None, ''
        if isinstance(v, int):
            if v < 0:
                return v, None, ''
            a, c = self.wire(v)
            return a, c, 'int' if c is not None else ''
        if isinstance(v, float):
            if v != v or v in (float('inf'), float('-inf')) or v < 0:
                return v, None, ''
            if v == int(v):
                a, c = self.wire(int(v))
                return (float(a), c, 'float' if c is not None else '') if is_int(a) else (v, None, '')
            if v * 2 == int(v * 2):
                a, _c = self.wire(int(v))
                return (a + 0.5, None, '') if is_int(a) else (v, None, '')
            return v, None, ''
        if isinstance(v, str) and v.isdigit() and len(v) < 8:
            a, _c = self.wire(int(v))
            return str(a), None, ''
        if isinstance(v, list) and len(v) == 1 and is_int(v[0]) and v[0] >= 0:
            return [self.wire(v[0])[0]], None, ''
        if isinstance(v, dict) and list(v) == ['a'] and is_int(v['a']) and v['a'] >= 0:
            return {'a': self.wire(v['a'])[0]}, None, ''
        return v, None, ''

    def payload(self, p):
        """(payload with the wire id, cause, form)"""
        if not isinstance(p, dict) or 'id' not in p:
            return p, None, ''
        a, c, form = self.resolve(p['id'])
        q = dict(p)
        q['id'] = a
        return q, c, form

    def start(self):
        """the id the counter started from, as the model counts (a failed send uses up its ids)"""
        if self.first is None:
            return None
        n, a = self.first
        if not is_int(a) or a - self.step * n < 0:
            raise OutsideModel(f'first id on the wire is {a!r} (draw index {n})')
        return a - self.step * n


# ------------------------------------------------------------------ implementation side
class _Unencodable:
    pass


def fut_state(jr, f):
    if not f.done():
        return 'p'
    if f.cancelled():
        return 'c'
    e = f.exception()
    if e is not None:
        if isinstance(e, jr.RPCError):
            return f'e{e.code}' if e.message == f'm{e.code}' else f'e?{e.code}:{e.message}'
        if isinstance(e, jr.ProtocolError):
            return 'P'
        return '?' + type(e).__name__
    r = f.result()
    if isinstance(r, tuple):
        items = []
        for x in r:
            if isinstance(x, jr.RPCError):
                items.append(f'e{x.code}' if x.message == f'm{x.code}' else f'e?{x.code}')
            elif isinstance(x, Exception):
                items.append('?' + type(x).__name__)
            else:
                t = value_token(x)
                items.append(f'v{t}' if t is not None else f'v?{x!r}')
        return 'b[' + ';'.join(items) + ']'
    t = value_token(r)
    return f'r{t}' if t is not None else f'r?{r!r}'


def wire_ids(msg):
    """the ids in a message handed out by send_request / send_batch, in message order"""
    p = json.loads(msg)
    return [m['id'] for m in (p if isinstance(p, list) else [p]) if isinstance(m, dict) and 'id' in m]


def run_impl_case(jr, case, step=1, fail_draws=(True, True)):
    """Runs the case against a fresh connection (inside a running loop).  Returns
    (obs tokens, final token list, trace, resolver) - trace[i] = dict(op = the op with the ids
    really used on the wire, causes/forms per response member, exc, states, pending, ids (decoded
    from the message), noms (draw indices), ticket)."""
    conn = jr.JSONRPCConnection(getattr(jr, PROTO_CLASS[case['proto']]))
    rs = Resolver(step)
    futs, obs, trace = [], [], []
    for op in case['ops']:
        k = op[0]
        before = [fut_state(jr, f) for f in futs]
        rec = {'op': op, 'exc': None, 'ids': None, 'noms': None, 'ticket': None, 'ret': None,
               'causes': [], 'forms': []}
        nreq = 1 if k == 'S' else op[1].count('r') if k == 'B' else 0
        try:
            if k == 'S':
                arg = 1 if op[1] else _Unencodable()
                msg, fut = conn.send_request(jr.Request('m', [arg]))
                futs.append(fut)
                rec['ids'] = wire_ids(msg)
                rec['ticket'] = len(futs) - 1
                o = 's' + ','.join(str(i) for i in rec['ids']) + f'/{rec["ticket"]}'
            elif k == 'B':
                items = []
                for j, c in enumerate(op[1]):
                    arg = _Unencodable() if (not op[2] and j == 0) else j
                    items.append(jr.Request('m', [arg]) if c == 'r' else jr.Notification('n', [arg]))
                if not op[2] and not items:
                    raise jr.ProtocolError(0, 'harness: nothing to make unencodable')
                msg, fut = conn.send_batch(jr.Batch(items))
                rec['ids'] = wire_ids(msg)
                if fut is not None:
                    futs.append(fut)
                    rec['ticket'] = len(futs) - 1
                o = 's' + ','.join(str(i) for i in rec['ids']) + '/' + \
                    ('-' if fut is None else str(rec['ticket']))
            elif k in 'RL':
                if k == 'R':
                    q, c, form = rs.payload(op[1])
                    rec['op'] = ['R', q]
                    rec['causes'], rec['forms'] = [c], [form]
                else:
                    parts = [rs.payload(m) for m in op[1]]
                    rec['op'] = ['L', [x[0] for x in parts]]
                    rec['causes'], rec['forms'] = [x[1] for x in parts], [x[2] for x in parts]
                rec['ret'] = len(conn.receive_message(json.dumps(rec['op'][1]).encode()))
                o = None
            elif k == 'O':
                rec['ret'] = len(conn.receive_message(json.dumps(op[1]).encode()))
                o = None
            elif k == 'C':
                conn.cancel_pending_requests()
                o = None
            elif k == 'X':
                if op[1] < len(futs):
                    futs[op[1]].cancel()
                o = 'd'
            else:
                raise ValueError(op)
        except jr.ProtocolError:
            rec['exc'] = 'ProtocolError'
            # an incoming request the protocol in force refuses is not this property's business
            o = None if k == 'O' else '!P'
        except TypeError:
            rec['exc'] = 'TypeError'
            o = '!T'
        except Exception as e:   # noqa: any other escaping exception is an observation
            rec['exc'] = type(e).__name__
            o = '!' + type(e).__name__
        if k in 'SB':
            used = nreq if rec['exc'] is None or fail_draws[0 if k == 'S' else 1] else 0
            rec['noms'] = rs.drew(used, rec['ids'])
        after = [fut_state(jr, f) for f in futs]
        changed = [t for t, (a, b) in enumerate(zip(before, after)) if a != b]
        if o is None:
            o = ('c' if k == 'C' else 'd') + ','.join(str(t) for t in changed)
        rec['states'] = after
        rec['changed'] = changed
        rec['pending'] = len(conn.pending_requests())
        obs.append(o)
        trace.append(rec)
    final = [f'#{len(conn.pending_requests())}',
             ','.join(fut_state(jr, f) for f in futs) if futs else '.']
    return obs, final, trace, rs


# ------------------------------------------------------------------ the property oracle
def same_id(a, b):
    """would a peer / a dict take these two ids for the same one?"""
    try:
        return bool(a == b)
    except Exception:   # noqa
        return a is b


def oracle(case, trace):
    """None if the property holds on this trace, else (key, reason).  Written from the property
    text: every future completes with exactly what the peer sent under its request's id (batch:
    one outcome per request member, in member order), whatever the order; no response completes
    a different request or the same request twice; ids outstanding at the same time are pairwise
    distinct; a response to an id that is not outstanding is rejected as a protocol error and
    disturbs nothing.

    Everything is judged on the ids decoded from the wire (`rec['ids']`, the resolved payloads
    `rec['op']`).  `rec['causes']` says which request the scripted peer was answering (the draw
    index the case named): it matters only on a tree that hands an id out a second time - there
    a duplicate of the answer to the id's earlier holder must not complete the later one
    ("a response never completes a different request").

    Readings that go beyond the text are NOT judged here (the model comparison reports them as
    disagreements): what the ids look like (any JSON values, as long as they are distinct),
    whether an id is ever drawn again after its request completed, and whether a response whose
    id is a float equal to an outstanding int id (1.0 for 1) counts as "sent under that id" - it
    may complete that request (with exactly what it carries) or be rejected."""
    proto = case['proto']
    inforce = None if proto == 'auto' else proto
    outstanding = {}        # ticket -> ('s', (id,)) / ('b', (ids..))
    holder = {}             # draw index -> ticket of the request that drew it
    exp = []                # expected state of every future
    nfut = 0
    for step, rec in enumerate(trace):
        op = rec['op']
        k = op[0]
        where = f'op {step} {json.dumps(op)}'
        if k in 'SB':
            if rec['exc'] is None:
                ids = rec['ids']
                live = [i for key in outstanding.values() for i in key[1]]
                for j, i in enumerate(ids):
                    if any(same_id(i, x) for x in live):
                        return 'c01:id-not-fresh', f'{where}: id {i!r} is already outstanding'
                    if any(same_id(i, x) for x in ids[:j]):
                        return 'c01:id-not-fresh', f'{where}: id {i!r} twice in one batch'
                nreq = 1 if k == 'S' else op[1].count('r')
                if len(ids) != nreq:
                    return 'c01:id-not-fresh', f'{where}: {len(ids)} ids for {nreq} requests'
                if rec['ticket'] is not None:
                    outstanding[rec['ticket']] = ('s' if k == 'S' else 'b', tuple(ids))
                    for n in rec['noms'] or []:
                        holder[n] = rec['ticket']
                    exp.append('p')
                    nfut += 1
                elif nreq:
                    return 'c01:no-future', f'{where}: requests sent but no awaitable returned'
        elif k in 'RLO':
            inforce = inforce_after(proto, inforce, op)
            target, outcome, lenient, floaty, stale = None, None, False, False, False
            bool_id = False
            if k == 'R':
                p = op[1]
                idtok, wf, tok = classify(inforce, p)
                idv = p.get('id')
                bool_id = isinstance(idv, bool)
                recoverable = 'id' in p and admits(inforce, idv)
                if recoverable and is_number(idv):
                    for t, key in outstanding.items():
                        if key[0] == 's' and is_number(key[1][0]) and key[1][0] == idv:
                            target = (key, t)
                    if target:
                        outcome = ('r' + tok[1:] if tok[0] == 'v' else tok) if wf else 'P'
                        floaty = isinstance(idv, float)
                        c = rec['causes'][0]
                        stale = c is not None and holder.get(c) != target[1]
            elif k == 'L':
                ps = op[1]
                cls = [classify(inforce, p) for p in ps]
                bool_id = any(isinstance(p.get('id'), bool) for p in ps)
                good = inforce != 'v1' and all(
                    'id' in p and admits(inforce, p['id']) and is_number(p['id']) for p in ps)
                if good:
                    got = sorted(p['id'] for p in ps)
                    for t, key in outstanding.items():
                        if key[0] == 'b' and len(key[1]) == len(got) and \
                                all(is_number(a) and a == b for a, b in zip(key[1], got)):
                            target = (key, t)
                    if target:
                        floaty = any(isinstance(p['id'], float) for p in ps)
                        stale = any(c is not None and holder.get(c) != target[1]
                                    for c in rec['causes'])
                        if all(c[1] for c in cls):
                            by_id = {}
                            for p, c in zip(ps, cls):
                                by_id[[m for m in target[0][1] if m == p['id']][0]] = c[2]
                            outcome = 'b[' + ';'.join(by_id[m] for m in target[0][1]) + ']'
                        else:
                            # a malformed member: the whole message may be refused (nothing
                            # completes) - the property does not say more
                            lenient = True
            if rec['exc'] not in (None, 'ProtocolError'):
                fam = 'c01:unexpected-exception:' + rec['exc']
                if rec['exc'] == 'TypeError' and k == 'R' and isinstance(op[1].get('id'), (list, dict)):
                    fam = 'c01:unhashable-id-typeerror'
                elif rec['exc'] == 'TypeError' and k == 'L' and len(op[1]) >= 2:
                    idvs = [p.get('id') for p in op[1]]
                    if not (all(is_number(i) or isinstance(i, bool) for i in idvs)
                            or all(isinstance(i, str) for i in idvs)):
                        fam = 'c01:unsortable-ids-typeerror'
                return fam, f'{where}: {rec["exc"]} escaped receive_message'
            if k == 'O' or (target is None):
                if rec['changed']:
                    fam = 'c01:bool-id-completes-request' if bool_id else 'c01:foreign-id-completes-request'
                    return fam, (f'{where}: no outstanding request has this id, yet future(s) '
                                 f'{rec["changed"]} changed to {[rec["states"][t] for t in rec["changed"]]}')
                if k in 'RL' and rec['exc'] is None:
                    fam = 'c01:bool-id-completes-request' if bool_id else 'c01:unknown-id-not-rejected'
                    return fam, f'{where}: accepted without a protocol error'
            elif stale:
                # the peer was answering an earlier holder of this id (a duplicate / late
                # response); the id has since been handed to another request
                if target[1] in rec['changed'] or rec['exc'] is None:
                    return ('c01:response-completes-different-request',
                            f'{where}: this is the peer\'s answer to the request of draw '
                            f'{[c for c in rec["causes"] if c is not None]}, which is no longer '
                            f'outstanding; it was accepted for future {target[1]} of a different request that '
                            f'was handed the same id {target[0][1]}')
            elif lenient or (floaty and rec['exc'] is not None):
                if rec['exc'] is None:
                    # accepted although a member was malformed: then only this batch may move
                    if any(t != target[1] for t in rec['changed']):
                        return 'c01:other-ticket-disturbed', f'{where}: changed {rec["changed"]}'
                    exp[target[1]] = rec['states'][target[1]]
                    del outstanding[target[1]]
            else:
                if rec['exc'] is not None:
                    return 'c01:valid-response-rejected', f'{where}: {rec["exc"]} for an outstanding id'
                if exp[target[1]] == 'p':
                    exp[target[1]] = outcome
                del outstanding[target[1]]
        elif k == 'C':
            for t in outstanding:
                if exp[t] == 'p':
                    exp[t] = 'c'
            outstanding.clear()
        elif k == 'X':
            if op[1] < nfut and exp[op[1]] == 'p':
                exp[op[1]] = 'c'
        # every future is exactly where the peer's messages put it; nothing else moved
        if rec['states'] != exp:
            bad = [t for t in range(min(len(exp), len(rec['states']))) if rec['states'][t] != exp[t]]
            t = bad[0] if bad else -1
            was = trace[step - 1]['states'][t] if step and t < len(trace[step - 1]['states']) else 'p'
            if t >= 0 and was != 'p' and was != rec['states'][t]:
                return 'c01:completed-twice', f'{where}: future {t} went {was} -> {rec["states"][t]}'
            fam = 'c01:wrong-outcome'
            if k in 'RL' and any(isinstance(p.get('id'), bool)
                                 for p in ([op[1]] if k == 'R' else op[1]) if isinstance(p, dict)):
                fam = 'c01:bool-id-completes-request'
            return fam, f'{where}: futures are {rec["states"]}, the peer\'s messages call for {exp}'
        if rec['pending'] != len(outstanding):
            return 'c01:pending-count', (f'{where}: pending_requests() has {rec["pending"]} entries, '
                                         f'{len(outstanding)} requests are unanswered')
    return None


def unlisted_failure(ctx, res):
    """something failed that is not a recorded known finding (scopes stop growing then)"""
    try:
        with open(os.path.join(ctx.verif, 'known_findings.json')) as f:
            known = {k['key'] for k in json.load(f).get('known', []) if k['property'] == ctx.pid}
    except OSError:
        known = set()
    return bool(res.n_disagreements) or any(v['key'] not in known for v in res['violations'])


# ------------------------------------------------------------------ workers
_jr = None
_step = 1
_fail_draws = (True, True)


def id_params(facts):
    """what the facts say about the id counter: (step, does a failed send_request /
    send_batch use up the ids it drew) - parameters of the model, not laws"""
    facts = facts or {}
    return (facts.get('id_step', 1) or 1,
            (bool(facts.get('fail_draws_single', True)), bool(facts.get('fail_draws_batch', True))))


def _init(repo, step=1, fail_draws=(True, True)):
    global _jr, _step, _fail_draws
    _jr = fresh_import(repo, 'aiorpcx.jsonrpc')
    _step = step or 1
    _fail_draws = tuple(fail_draws)


def _run_one(c):
    """(observation string, oracle verdict, model input line | None, why there is no line)"""
    obs, final, trace, rs = run_impl_case(_jr, c, _step, _fail_draws)
    got = ' '.join(obs + final)
    verdict = oracle(c, trace)
    try:
        line = abstract({'proto': c['proto'], 'ops': [r['op'] for r in trace]}, start=rs.start())
        why = None
    except OutsideModel as e:
        line, why = None, f'ids outside the model: {e}'
    except ValueError as e:
        line, why = None, f'payload outside the modelled grids: {e}'
    return got, verdict, line, why


def _run_batch(cases):
    async def go():
        return [_run_one(c) for c in cases]
    return vloop.run(go())


def run_impl(ctx, cases):
    n = len(cases)
    step, fail_draws = id_params(ctx.facts)
    if n < 6000:
        _init(ctx.repo, step, fail_draws)
        return _run_batch(cases)
    nproc = min(12, os.cpu_count() or 1)
    size = max(2000, n // (nproc * 4))
    jobs = [cases[i:i + size] for i in range(0, n, size)]
    with Pool(nproc, initializer=_init, initargs=(ctx.repo, step, fail_draws)) as pool:
        parts = pool.map(_run_batch, jobs)
    return [r for p in parts for r in p]


def evaluate(ctx, cases, res, scope):
    if not cases:
        return
    outs = run_impl(ctx, cases)
    idx = [i for i, o in enumerate(outs) if o[2] is not None]
    model = ctx.model([outs[i][2] for i in idx])
    model_of = dict(zip(idx, model)) if model is not None else {}
    for i, (c, (got, verdict, line, why)) in enumerate(zip(cases, outs)):
        if verdict is not None:
            res.violation(verdict[0], c, verdict[1], impl=got, model_line=line)
        if line is None:
            if isinstance(why, str) and why.startswith('ids outside'):
                res.disagreement(c, got, why)
            else:
                res.count('cases_outside_model_grid')
            continue
        if model is not None and model_of[i] != got:
            res.disagreement(c, got, model_of[i], model_line=line)
        kinds = {op[0] for op in c['ops']}
        res.count('ops_total', len(c['ops']))
        res.count('cases_with_batch_response', 'L' in kinds)
        res.count('cases_with_rejection', '!' in got)
        res.count('cases_' + c['proto'])
        if len(c['ops']) >= 3 and kinds & {'R', 'L'}:
            res.nontrivial(line)
    res['evaluations'] += len(cases)
    res['scopes'][scope] = res['scopes'].get(scope, 0) + len(cases)


# ------------------------------------------------------------------ corpus
def parse_corpus_line(line):
    """corpus format: `<proto> <op> ...` with ops in the model's syntax, responses given in the
    style of the protocol (auto: 2.0 style)"""
    toks = line.split()
    proto = toks[0]
    style = 'v2' if proto == 'auto' else proto
    ops = []

    def resp(tok):
        i, wf, r = tok.split('/')
        noid = i == '-'
        idv = None if noid else parse_id(i)
        kind = ('val' if r[0] == 'v' else 'err') if wf == '1' else 'mal1'
        return make_resp(style, idv, kind, int(r[1:]), noid=noid)
    for t in toks[1:]:
        if t[0] == 'S':
            ops.append(['S', int(t[1:])])
        elif t[0] == 'B':
            ms, ok = t[1:].split(':')
            ops.append(['B', ms, int(ok)])
        elif t[0] == 'R':
            ops.append(['R', resp(t.split(':', 1)[1])])
        elif t[0] == 'L':
            ops.append(['L', [resp(x) for x in t.split(':', 1)[1].split(',')]])
        elif t[0] == 'O':
            ops.append(['O', make_request(style, 77, 1)])
        elif t[0] == 'C':
            ops.append(['C'])
        elif t[0] == 'X':
            ops.append(['X', int(t[1:])])
        else:
            raise ValueError(t)
    return {'proto': proto, 'ops': ops}


def parse_id(tok):
    if tok == 'n':
        return None
    if tok in ('bT', 'bF'):
        return tok == 'bT'
    if tok[0] == 'i':
        return int(tok[1:])
    if tok[0] == 'h':
        return int(tok[1:]) / 2
    if tok[0] == 's':
        return ''.join(chr(int(x)) for x in tok[1:].split('.')) if tok[1:] else ''
    if tok[0] == 'u':
        return [1] if tok[1:] == '0' else {'a': 1}
    raise ValueError(tok)


# ------------------------------------------------------------------ exhaustive small scopes
SHAPES = ('val', 'err', 'mal1')


def _styles(proto):
    return ('v1', 'v2', 'loose') if proto == 'auto' else (proto,)


def exhaustive_cases(nsend_max, send_kinds, shapes_shifts, thin=1):
    start, step = 0, 1       # draw indices (see the module docstring), not wire ids
    count = 0
    for proto in ('v1', 'v2', 'loose', 'auto'):
        kinds = ['S'] if proto == 'v1' else send_kinds
        for k in range(1, nsend_max + 1):
            for sends in itertools.product(kinds, repeat=k):
                nxt = start
                keys, ops = [], []
                for s in sends:
                    if s == 'S':
                        ops.append(['S', 1])
                        keys.append(('s', (nxt,)))
                        nxt += step
                    else:
                        ms = s[2:]
                        ops.append(['B', ms, 1])
                        ids = tuple(nxt + j * step for j in range(ms.count('r')))
                        nxt += step * len(ids)
                        if ids:
                            keys.append(('b', ids))
                unused = nxt
                perm_sets = [list(itertools.permutations(key[1])) if key[0] == 'b' else [key[1]]
                             for key in keys]
                for style in _styles(proto):
                    for member_orders in itertools.product(*perm_sets):
                        for order in itertools.permutations(range(len(keys))):
                            for shift in shapes_shifts:
                                n = [0]

                                def resp_for(ki):
                                    key = keys[ki]
                                    if key[0] == 's':
                                        n[0] += 1
                                        kind = SHAPES[(n[0] + shift) % 3]
                                        return ['R', make_resp(style, key[1][0], kind, n[0] + 3)]
                                    members = []
                                    for m in member_orders[ki]:
                                        n[0] += 1
                                        kind = SHAPES[(n[0] + shift) % 2]
                                        members.append(make_resp(style, m, kind, n[0] + 3))
                                    return ['L', members]
                                base = [resp_for(ki) for ki in order]
                                for ins in insertions(style, keys, base, unused):
                                    for pos in range(len(base) + 1):
                                        count += 1
                                        if thin > 1 and count % thin:
                                            continue
                                        stream = base[:pos] + ([ins] if ins else []) + base[pos:]
                                        yield {'proto': proto, 'ops': ops + stream}
                                        if ins is None:
                                            break


def insertions(style, keys, base, unused):
    """None (no insertion) and one extra message of every kind the property names: a
    duplicate, an unknown id, and ids that are not the id of any request although Python
    would find them equal or comparable."""
    yield None
    for m in base:
        yield m                                                    # duplicate
    first = keys[0][1][0] if keys else 0
    single_ids = [key[1][0] for key in keys if key[0] == 's']
    batch_keys = [key[1] for key in keys if key[0] == 'b']
    yield ['R', make_resp(style, unused, 'val', 1)]                # not yet sent
    yield ['R', make_resp(style, first == 1, 'val', 1)]            # bool "equal" to an id
    yield ['R', make_resp(style, True, 'err', 1)]
    yield ['R', make_resp(style, False, 'val', 4)]
    yield ['R', make_resp(style, float(first), 'val', 7)]          # 1.0 for 1
    yield ['R', make_resp(style, first + 0.5, 'val', 7)]
    yield ['R', make_resp(style, str(first), 'val', 1)]
    yield ['R', make_resp(style, None, 'val', 1)]
    yield ['R', make_resp(style, None, 'err', 1)]
    yield ['R', make_resp(style, first, 'val', 1, noid=True)]
    yield ['R', make_resp(style, first, 'mal2', 1)]
    if style == 'v1':
        yield ['R', make_resp(style, [first], 'val', 1)]           # unhashable
        yield ['R', make_resp(style, {'a': first}, 'val', 1)]
    for ids in batch_keys:
        yield ['R', make_resp(style, ids[0], 'val', 1)]            # single answer to a member
        yield ['L', [make_resp(style, i, 'val', 1) for i in ids[:-1]] or
               [make_resp(style, unused, 'val', 1)]]               # a member missing
        yield ['L', [make_resp(style, i, 'val', 1) for i in ids] +
               [make_resp(style, ids[0], 'val', 4)]]               # a member twice
        yield ['L', [make_resp(style, i, 'val', 1) for i in ids[:-1]] +
               [make_resp(style, unused, 'val', 4)]]               # a foreign member
        yield ['L', [make_resp(style, bool(i) if i in (0, 1) else i, 'val', 1) for i in ids]]
        yield ['L', [make_resp(style, float(i), 'val', 7) for i in reversed(ids)]]
        yield ['L', [make_resp(style, i, 'val', 1) for i in ids[:-1]] +
               [make_resp(style, 'x', 'val', 4)]]                  # unsortable: int and str
        yield ['L', [make_resp(style, i, 'val', 1) for i in ids[:-1]] +
               [make_resp(style, None, 'val', 4)]]                 # unsortable: None
        yield ['L', [make_resp(style, i, 'val', 1, noid=(j == 0)) for j, i in enumerate(ids)]]
    # response batches with a MALFORMED member whose id is recoverable: its id is that of an
    # outstanding single request / of nothing; the batch is unknown, or the rest of it answers an
    # outstanding batch.  Such a message is refused as a whole and completes nothing - in
    # particular not the single request whose id the bad member carries.
    bad_kinds = ('mal1',) if style != 'v2' else ('mal1', 'nojsonrpc')

    def bad(i, kind, n=4):
        if kind == 'nojsonrpc':
            return make_resp('loose', i, 'val', n)       # lacks "jsonrpc":"2.0" under 2.0
        return make_resp(style, i, kind, n)
    for s_id in single_ids[:2] + [unused + 1]:
        for kind in bad_kinds:
            yield ['L', [bad(s_id, kind)]]
            yield ['L', [make_resp(style, unused, 'val', 1), bad(s_id, kind)]]
            yield ['L', [bad(s_id, kind), make_resp(style, unused, 'err', 1)]]
            for ids in batch_keys[:1]:
                yield ['L', [make_resp(style, i, 'val', 1) for i in ids[:-1]] + [bad(s_id, kind)]]
                yield ['L', [make_resp(style, i, 'val', 1) for i in ids] + [bad(s_id, kind)]]
    if len(single_ids) >= 2:
        yield ['L', [make_resp(style, i, 'val', 1) for i in single_ids]]   # singles as a batch
        yield ['L', [make_resp(style, single_ids[0], 'val', 1), bad(single_ids[1], 'mal1')]]
    yield ['L', [make_resp(style, 'a', 'val', 1), make_resp(style, 'b', 'val', 4)]]
    yield ['O', make_request(style, 5, 1)]
    yield ['O', make_request(style, None, 1)]
    yield ['C']
    yield ['X', 0]


# ------------------------------------------------------------------ seeded generator
def random_case(rng, hostile=False):
    proto = rng.choice(['v1', 'v2', 'v2', 'loose', 'auto', 'auto'])
    start, step = 0, 1       # draw indices (see the module docstring), not wire ids
    nxt = start
    inforce = None if proto == 'auto' else proto
    keys = []      # outstanding keys as the generator believes them to be
    answered = []  # keys already answered (for replays)
    nfut = 0
    ops = []
    nops = rng.randint(3, 12)
    while len(ops) < nops:
        r = rng.random()
        can_batch = (inforce or 'v2') != 'v1'
        style = inforce or rng.choice(['v1', 'v2', 'loose'])
        if hostile and proto == 'auto' and rng.random() < 0.12:
            # a peer that changes dialect after the protocol was detected (detection happens once)
            style = rng.choice(['v1', 'v2', 'loose'])
        if r < 0.28 and len(keys) < 5:
            ok = rng.random() > 0.06
            ops.append(['S', int(ok)])
            if ok:
                keys.append(('s', (nxt,)))
                nfut += 1
            nxt += step
        elif r < 0.42 and len(keys) < 5:
            ms = ''.join(rng.choice('rrn') for _ in range(rng.randint(1, 4)))
            ok = rng.random() > 0.06
            ops.append(['B', ms, int(ok)])
            nreq = ms.count('r')
            if can_batch and ok and nreq:
                keys.append(('b', tuple(nxt + j * step for j in range(nreq))))
                nfut += 1
            nxt += step * nreq
        elif r < 0.80:
            # a response: mostly to something outstanding
            pool = keys if (keys and rng.random() < 0.8) else (answered or keys)
            n = rng.randint(0, 30)

            def mutate_id(i):
                q = rng.random()
                if not hostile and q < 0.8:
                    return i
                if q < 0.3:
                    return i
                return rng.choice([float(i), i + 0.5, bool(i) if i in (0, 1) else True, str(i),
                                   None, nxt + rng.randint(0, 3), -1 - i, [i], {'a': i}, 'x', ''])
            if not pool:
                ops.append(['R', make_resp(style, mutate_id(rng.randint(0, 4)), 'val', n)])
            else:
                key = rng.choice(pool)
                kind = rng.choice(['val', 'val', 'err', 'mal1', 'mal2'] if hostile else
                                  ['val', 'val', 'val', 'err', 'err', 'mal1'])
                if key[0] == 's' and can_batch and rng.random() < (0.12 if hostile else 0.06):
                    # instead of the answer: a response batch (belonging to nothing) one member of
                    # which is malformed and carries this single request's id; the request stays
                    # outstanding and is answered later
                    mb = make_resp(style, key[1][0], 'mal1', n) if style != 'v2' or rng.random() < 0.5 \
                        else make_resp('loose', key[1][0], 'val', n)
                    members = [make_resp(style, nxt + 1 + j, 'val', n + j) for j in range(rng.randint(0, 2))]
                    members.insert(rng.randrange(len(members) + 1), mb)
                    ops.append(['L', members])
                    if inforce is None:
                        inforce = py_detect(members)
                    continue
                if key[0] == 's' or (hostile and rng.random() < 0.15):
                    msg = ['R', make_resp(style, mutate_id(key[1][0]), kind, n,
                                          noid=hostile and rng.random() < 0.1)]
                else:
                    ids = list(key[1])
                    rng.shuffle(ids)
                    if rng.random() < (0.5 if hostile else 0.12):
                        q = rng.random()
                        if q < 0.3 and len(ids) > 1:
                            ids.pop()
                        elif q < 0.6:
                            ids.append(rng.choice(ids))
                        else:
                            ids.append(nxt + 1)
                    members = []
                    for j, i in enumerate(ids):
                        mk = 'val' if rng.random() < 0.7 else rng.choice(['err', 'mal1'] if not hostile else ['err', 'mal1', 'mal2'])
                        if mk == 'mal2' and style == 'loose':
                            mk = 'mal1'
                        members.append(make_resp(style, mutate_id(i), mk, n + j))
                    singles = [k2[1][0] for k2 in keys if k2[0] == 's']
                    if rng.random() < (0.25 if hostile else 0.1):
                        # a malformed member carrying the id of an outstanding single request
                        # (or of nothing)
                        sid = rng.choice(singles) if singles and rng.random() < 0.8 else nxt + 2
                        mb = make_resp(style, sid, 'mal1', n + 9) if style != 'v2' or rng.random() < 0.5 \
                            else make_resp('loose', sid, 'val', n + 9)
                        members.insert(rng.randrange(len(members) + 1), mb)
                    if not all(('result' in m or 'error' in m) for m in members):
                        continue
                    msg = ['L', members]
                # unhashable ids only exist on 1.0; elsewhere they are malformed anyway
                ops.append(msg)
                if inforce is None:
                    inforce = py_detect(msg[1])
                if key in keys and rng.random() < 0.9:
                    keys.remove(key)
                    answered.append(key)
        elif r < 0.88:
            msg = ['O', make_request(style, rng.choice([None, 5, 'q']), 1)]
            ops.append(msg)
            if inforce is None:
                inforce = py_detect(msg[1])
        elif r < 0.93 and nfut:
            ops.append(['X', rng.randrange(nfut)])
        elif r < 0.96:
            ops.append(['C'])
            answered += keys
            keys = []
        else:
            continue
    return {'proto': proto, 'ops': ops}


# ------------------------------------------------------------------ targeted families
def answer_to(style, key, n, order=None, kind='val'):
    """the peer's answer to the request(s) with draw indices `key` = ('s'|'b', (idx..))"""
    if key[0] == 's':
        return ['R', make_resp(style, key[1][0], kind, n)]
    ids = list(key[1]) if order is None else [key[1][j] for j in order]
    return ['L', [make_resp(style, i, 'val' if (n + j) % 3 else 'err', n + j)
                  for j, i in enumerate(ids)]]


def reuse_cases():
    """A request (or batch) completes, is cancelled or is given up; a later request is sent;
    then a duplicate / late copy of the peer's answer to the EARLIER one arrives, before or after
    the answer to the later one.  On a tree that hands an id out a second time that copy finds
    the id outstanding again and completes a different request."""
    kinds = {'S': ('S', 1), 'B:rr': ('B', 'rr', 1), 'B:rnr': ('B', 'rnr', 1)}
    for proto in ('v1', 'v2', 'loose', 'auto'):
        names = ['S'] if proto == 'v1' else list(kinds)
        for style in _styles(proto):
            for a in names:
                for b in names:
                    for how in ('answered', 'cancelled', 'given-up-then-answered', 'two-rounds'):
                        ops, nxt = [], 0

                        def send(name):
                            nonlocal nxt
                            ops.append(list(kinds[name]))
                            n = 1 if name == 'S' else kinds[name][1].count('r')
                            key = ('s' if name == 'S' else 'b', tuple(range(nxt, nxt + n)))
                            nxt += n
                            return key
                        ka = send(a)
                        first = answer_to(style, ka, 4)
                        if how == 'answered':
                            ops.append(first)
                        elif how == 'cancelled':
                            ops.append(['C'])
                        elif how == 'given-up-then-answered':
                            ops += [['X', 0], first]
                        else:
                            ops.append(first)
                            kc = send(b)
                            ops.append(answer_to(style, kc, 10))
                        kb = send(b)
                        second = answer_to(style, kb, 7, order=None if kb[0] == 's' else [1, 0])
                        for tail in ([first, second], [second, first], [first, first, second]):
                            yield {'proto': proto, 'ops': ops + tail}


def malformed_member_cases():
    """A single request s (and possibly a batch) is outstanding; the peer sends a response batch
    one member of which is malformed with a recoverable id - the id of s, of a batch member, or of
    nothing; the batch is unknown or (minus the bad member) the answer to the outstanding batch;
    then the genuine answers arrive.  The bad batch is refused as a whole: s stays outstanding and
    completes with its own response."""
    for proto in ('v2', 'loose', 'auto'):
        for style in _styles(proto):
            if style == 'v1':
                continue
            kinds = ['mal1'] + (['nojsonrpc'] if style == 'v2' else [])
            for with_batch in (False, True):
                for kind in kinds:
                    for target in ('single', 'member', 'nothing'):
                        for shape in ('alone', 'first', 'last', 'with-batch-answer'):
                            if (shape == 'with-batch-answer' or target == 'member') and not with_batch:
                                continue
                            ops = [['S', 1], ['S', 1]]
                            bkey = None
                            if with_batch:
                                ops.append(['B', 'rnr', 1])
                                bkey = ('b', (2, 3))
                            unused = 7
                            bid = {'single': 1, 'member': 3, 'nothing': unused + 1}[target]
                            badm = make_resp('loose', bid, 'val', 4) if kind == 'nojsonrpc' \
                                else make_resp(style, bid, 'mal1', 4)
                            if shape == 'alone':
                                ms = [badm]
                            elif shape == 'first':
                                ms = [badm, make_resp(style, unused, 'val', 1)]
                            elif shape == 'last':
                                ms = [make_resp(style, unused, 'err', 1), badm]
                            else:
                                ms = [make_resp(style, 2, 'val', 1), make_resp(style, 3, 'val', 10), badm]
                            genuine = [answer_to(style, ('s', (1,)), 13), answer_to(style, ('s', (0,)), 16)]
                            if bkey:
                                genuine.append(answer_to(style, bkey, 19, order=[1, 0]))
                            for tail in (genuine, list(reversed(genuine))):
                                yield {'proto': proto, 'ops': ops + [['L', ms]] + tail}
                                yield {'proto': proto, 'ops': ops + tail[:1] + [['L', ms]] + tail[1:]}


def boundary_cases(warmups=(8, 98), sizes=(3,), extras=('', 'single', 'batch')):
    """ids across the digit boundaries 9/10 and 99/100: `w` singles are sent and answered, then
    a batch of >= 3 requests whose ids straddle the boundary (8,9,10 / 98,99,100) - alone, next
    to an outstanding single, and next to a second batch - is answered in every member order.
    A matcher that orders ids as text, or by anything but their numeric value, fails here."""
    for proto in ('v2', 'loose', 'auto'):
        for style in _styles(proto):
            if style == 'v1':
                continue
            for w in warmups:
                warm = []
                for i in range(w):
                    warm += [['S', 1], ['R', make_resp(style, i, 'val', 1)]]
                for size in sizes:
                    ids = tuple(range(w, w + size))
                    for order in itertools.permutations(range(size)):
                        for extra in extras:
                            if extra and order[0] == 0:
                                continue
                            ops = list(warm) + [['B', 'r' * size, 1]]
                            tail = [answer_to(style, ('b', ids), 4, order=list(order))]
                            if extra == 'single':
                                ops.append(['S', 1])
                                tail.append(['R', make_resp(style, w + size, 'err', 5)])
                            elif extra == 'batch':
                                ops.append(['B', 'rnr', 1])
                                tail.insert(0, answer_to(style, ('b', (w + size, w + size + 1)),
                                                         16, order=[1, 0]))
                            # and a replay of the batch answer, which must be rejected
                            yield {'proto': proto, 'ops': ops + tail + [tail[-1]]}


def usable(case):
    """the harness can abstract the case (all values inside the modelled grids)"""
    try:
        abstract(case)
        return True
    except ValueError:
        return False


RULE = ('case = (protocol, op stream) on a fresh JSONRPCConnection; ids in the peer\'s responses are '
        'the ones decoded from the bytes the connection handed out; corpus, then exhaustive: every '
        'sequence of up to N sends (single / 2-request batches with and without a notification) x '
        'every order of the answers x every order of the members inside each batch answer x '
        'result/error/malformed shapes x one inserted extra message (duplicate, unknown, bool, '
        'float-equal, half, str, null, missing id, unhashable, partial/over-full/foreign/unsortable '
        'batch answers, singles answered as a batch, cancel) at every position, for v1, v2, Loose and '
        'AutoDetect (three message styles); batches of >= 3 whose ids straddle 9/10 and 99/100 '
        '(after 8 / 98 answered singles) x every member order; late / duplicate answers to an '
        'earlier request after a later one was sent; then seeded random streams (<= 12 ops, <= 5 '
        'outstanding) and a hostile stream; session layer through a real RPCSession on a fake '
        'transport (permuted answers, replays, unknown ids, malformed-with-id, late replies after '
        'timeouts, connection lost, senders blocked by a full send buffer and cancelled / timed '
        'out there); non-trivial = at least 3 ops including a response; distinct = distinct model '
        'input lines')


def run(ctx):
    res = Results()
    rng = ctx.rng
    # (a) corpus first
    lines = corpus_lines(ctx.verif, 'C01')
    cc = [parse_corpus_line(l) for l in lines if not l.startswith('{')]
    evaluate(ctx, cc, res, 'corpus')
    # corpus lines that are JSON objects are session-layer scenarios (harness/c01_session.py)
    from harness import c01_session
    c01_session._evaluate(ctx, [json.loads(l) for l in lines if l.startswith('{')], res,
                          scope='corpus_session')
    # (b) targeted families, then exhaustive small scopes (smallest first; no enlarging once
    # something failed)
    evaluate(ctx, list(reuse_cases()), res, 'late_answer_after_later_request')
    evaluate(ctx, list(malformed_member_cases()), res, 'malformed_member_of_response_batch')
    evaluate(ctx, list(boundary_cases()), res, 'ids_across_digit_boundaries')
    ex = list(exhaustive_cases(2, ['S', 'B:rr', 'B:rnr'], (0, 1)))
    evaluate(ctx, ex, res, 'exhaustive_2_sends')
    # depth: quick < drift (a modelled function changed: explore more, still within the quick
    # budget) < thorough
    def depth():
        if unlisted_failure(ctx, res):
            return 0
        return 2 if ctx.tier == 'thorough' else 1 if ctx.deep else 0
    if depth() >= 1:
        ex = list(exhaustive_cases(2, ['S', 'B:rr', 'B:rnr', 'B:r', 'B:nn'], (2,)))
        evaluate(ctx, ex, res, 'exhaustive_2_sends_more_kinds')
        evaluate(ctx, list(boundary_cases((7, 9), (3, 4))) + list(boundary_cases((97, 99), (4,), ('',))),
                 res, 'ids_across_digit_boundaries_more')
    if depth() >= 2:
        ex = list(exhaustive_cases(3, ['S', 'B:rr', 'B:nrr'], (0, 1), thin=3))
        evaluate(ctx, ex, res, 'exhaustive_3_sends_every_3rd')
    # (c) seeded structured generator + hostile stream
    ngen = (8000, 25000, 300000)[depth()]
    gen = [c for c in (random_case(rng) for _ in range(ngen)) if usable(c)]
    evaluate(ctx, gen, res, 'generated')
    nh = (3000, 6000, 100000)[depth()]
    hostile = [c for c in (random_case(rng, hostile=True) for _ in range(nh)) if usable(c)]
    evaluate(ctx, hostile, res, 'hostile')
    for c in gen[:2] + hostile[:1]:
        res.sample({'model_line': abstract(c)})
    # (d) session layer (partial: the await plumbing is asyncio's)
    c01_session.run(ctx, res)
    return res.finish(RULE, exhaustive=not unlisted_failure(ctx, res))


def replay(ctx, case):
    if 'case' in case and isinstance(case['case'], dict):
        case = case['case']
    res = Results()
    if case.get('layer') == 'session':
        from harness import c01_session
        c01_session.replay(ctx, case, res)
    else:
        evaluate(ctx, [case], res, 'replay')
    res.sample(case)
    return res.finish('replay of one recorded case')
