"""C20 correspondence + search.

(i)  `_recalc_concurrency` arithmetic: EXHAUSTIVE current 1..250 x a grid of averages around every
     breakpoint (where current*trt/avg meets floor / cap / an integer / a half-integer), on a real
     client `RPCSession`; exact integer comparison with `drv_c20` (`R` lines), either neighbour
     accepted where the exact pre-rounding value is within 1e-9 of a rounding boundary.
(ii) + (iii) workloads on a real client `RPCSession` + fake transport + scripted peer on the
     virtual loop (`aiorpcx.session.time` = the loop's virtual clock): callers 1..120, singles and
     batches, peers {prompt, slow, silent, selective, garbage, error}, connection loss, external
     cancellation, configurations of sent_request_timeout / target_response_time /
     recalibrate_count.  The log of what every task did is replayed through the model's small-step
     monitor (`M` lines: limiter at 50 + `finally` block + recalibration).

ORACLE (from the property text; observables: outcome and virtual completion time of every call,
what the peer saw written and when, `max_concurrent` of the outgoing limiter):
 * every caller gets an outcome: result / error / cancelled (only when the harness cancelled it or
   the connection was lost) / TaskTimeout - never an indefinite wait (also: bounded by
   (queued-ahead + 2) * sent_request_timeout after its start);
 * no answer => TaskTimeout exactly sent_request_timeout after the request was written; a proper
   answer before that => result/error at the moment it arrives;
 * operations written and still awaited never outnumber the largest limit so far, nor the
   capacity left after reductions (one unit retired per completion);
 * the limit starts at 50, stays in [1, 250], and every change moves it up by at most
   max(3, 10%) and down by at most max(1, 20%)."""
import asyncio
import json
import math
import os
from fractions import Fraction as F
from multiprocessing import Pool

from harness.base import Results, corpus_lines
from harness.lim_fake import Env, find_outgoing_limiter

TIE = F(1, 10**9)


def fr(x):
    f = F(x)
    return str(f.numerator) if f.denominator == 1 else f'{f.numerator}/{f.denominator}'


# ------------------------------------------------------------------ (i) recalibration arithmetic
def step_oracle(cur, new):
    """literal reading of the property: None if fine, else (key, why)"""
    if not (1 <= new <= 250):
        return 'c20:limit-out-of-range', f'{cur} -> {new} leaves [1, 250]'
    if new - cur > max(3, 0.1 * cur) + 1e-9:
        return ('c20:step-up-exceeds-bound',
                f'limit {cur} -> {new}: up by {new - cur} > max(3, 10%) = {max(3, 0.1 * cur)}')
    if cur - new > max(1, 0.2 * cur) + 1e-9:
        return ('c20:step-down-exceeds-bound',
                f'limit {cur} -> {new}: down by {cur - new} > max(1, 20%) = {max(1, 0.2 * cur)}')
    return None


def avg_grid(cur, trt):
    """averages at which current*trt/avg hits m or m + 1/2 for every integer m in a window that
    covers [floor - 2, cap + 2], each with its two float neighbours; plus 0, tiny, huge"""
    lo = max(0, int(min(cur * 0.8, cur - 1)) - 2)
    hi = min(252, int(cur + max(3, cur * 0.1)) + 2)
    out = [0.0, 5e-324, 1e-300, 1e-9, 1e9, 1e300, trt, 2 * trt, trt / 2]
    for m2 in range(2 * lo, 2 * hi + 2):
        x = m2 / 2
        if x <= 0:
            continue
        a = cur * trt / x
        out += [a, math.nextafter(a, 0.0), math.nextafter(a, math.inf),
                a * (1 + 2.0**-20), a * (1 - 2.0**-20)]
    return out


def recalc_cases(deep):
    trts = [3.0, 0.5, 30.0] if deep else [3.0]
    for trt in trts:
        for cur in range(1, 251):
            for avg in avg_grid(cur, trt):
                yield cur, trt, avg
    # a few values outside the invariant range too (a user may call set_target)
    for cur in (251, 300, 1000):
        for avg in (0.0, 1.0, 1e9):
            yield cur, 3.0, avg


def run_recalc(env, cases):
    """the recalibration step in isolation: needs the private sample list and method by their
    usual names; returns None (the grid is skipped, the workloads and the facts table still
    exercise recalibration through send_request) when a rewrite renamed them"""
    env.new_loop()
    _p, _t, s = env.make_session(env.session.RPCSession, 'client')
    out = []
    lim = find_outgoing_limiter(s)
    samples = getattr(s, '_req_times', None)
    step = getattr(s, '_recalc_concurrency', None)
    if lim is None or not isinstance(samples, list) or step is None:
        env.close_loop()
        return None
    for cur, trt, avg in cases:
        lim.set_target(cur)
        s.target_response_time = trt
        samples[:] = [avg]
        try:
            step()
            out.append(lim.max_concurrent)
        except Exception as e:      # noqa: recalibration must not raise for any history
            out.append(f'{type(e).__name__}: {e}')
    env.close_loop()
    return out


def evaluate_recalc(ctx, res, cases):
    impl = run_recalc(_env, cases)
    if impl is None:
        res.count('recalc_grid_skipped_private_names_not_found', len(cases))
        return
    model = ctx.model([f'R {cur} {fr(trt)} {fr(avg)}' for cur, trt, avg in cases])
    for idx, ((cur, trt, avg), new) in enumerate(zip(cases, impl)):
        case = {'level': 'recalc', 'current': cur, 'target_response_time': trt, 'avg': avg}
        if not isinstance(new, int):
            res.violation('c20:recalc-raised', case, f'_recalc_concurrency raised {new}')
            res['evaluations'] += 1
            continue
        if 1 <= cur <= 250:
            bad = step_oracle(cur, new)
            if bad:
                res.violation(bad[0], case, bad[1], impl=new)
        if model is not None:
            mnew, pre, _pinned, _ppre = model[idx].split(';')
            mnew = int(mnew)
            if mnew != new:
                x = F(pre) + F(1, 2)
                near = abs(x - round(x)) <= TIE * max(1, abs(x))
                if near and abs(mnew - new) == 1:
                    res.count('recalc_rounding_tie_accepted')
                else:
                    res.disagreement(case, f'{cur} -> {new}', f'{cur} -> {mnew} (pre-round {float(F(pre))!r})')
        res['evaluations'] += 1
        res.count('recalc_points')
        res.count('recalc_raised', new > cur)
        res.count('recalc_lowered', new < cur)
        if new != cur:
            res.nontrivial(('r', cur, trt, avg))


# ------------------------------------------------------------------ (ii)/(iii) workloads
class Run:
    """one workload on a real client session"""

    def __init__(self, env, wl):
        self.env = env
        self.wl = wl
        env.new_loop()
        env.vtime.offset = float(2 ** 30)
        self.loop = env.loop
        RPCSession = env.session.RPCSession
        cfg = wl['cfg']
        # the three settings can be given the ways a user can give them: as attributes of a
        # subclass, or on the instance after the transport's session factory has constructed it
        # (the subclass then carries decoy values); `changes` re-assign sent_request_timeout on
        # the instance while the session is in use
        how = wl.get('configure', 'subclass')
        given = dict(sent_request_timeout=cfg['timeout'], target_response_time=cfg['trt'],
                     recalibrate_count=cfg['recal'])
        decoy = dict(sent_request_timeout=977.0, target_response_time=97.0, recalibrate_count=977)
        Cli = type('Cli', (RPCSession,), dict(given if how == 'subclass' else decoy,
                                               max_send_delay=cfg.get('send_delay', 20.0)))
        self.proto, self.tr, self.s = env.make_session(Cli, 'client')
        if how != 'subclass':
            for k, v in given.items():
                setattr(self.s, k, v)
        self.tr.on_write = self.on_write
        self.tr.on_lost = self.on_lost
        self.tr.on_resume_reading = self.flush
        self.held = []           # data that arrived while the session had paused reading
        self.lim = find_outgoing_limiter(self.s)
        self.log = []            # (kind, caller, time, limit, extra)
        self.tasks = {}
        self.written = {}        # caller -> write time
        self.reply_at = {}       # caller -> (time a proper answer is delivered, kind)
        self.lost_at = None
        self.finished = False
        self.cancelled_by_harness = set()
        self.TaskTimeout = env.curio.TaskTimeout
        self.RPCError = env.jsonrpc.RPCError
        self.ProtocolError = env.jsonrpc.ProtocolError
        env.idle()

    def note(self, kind, cid, extra=None):
        self.log.append((kind, cid, self.loop.time(), self.lim.max_concurrent, extra))

    # ---- peer
    def on_write(self, data):
        for line in data.split(b'\n'):
            if not line:
                continue
            try:
                msg = json.loads(line)
            except ValueError:
                continue
            items = msg if isinstance(msg, list) else [msg]
            reqs = [m for m in items if isinstance(m, dict) and 'method' in m]
            if not reqs:
                continue        # an error message the client sent about our garbage
            params = reqs[0].get('params') or [None]
            cid = params[0]
            if cid is None or cid in self.written:
                continue
            self.written[cid] = self.loop.time()
            self.note('E', cid)
            self.react(cid, msg, isinstance(msg, list))

    def react(self, cid, msg, is_batch):
        beh = self.wl['peer'](cid)
        kind, delay = beh
        if kind == 'silent':
            return
        items = msg if is_batch else [msg]
        answered = [m for m in items if 'id' in m]
        if kind == 'reply':
            rep = [{'jsonrpc': '2.0', 'result': m['params'], 'id': m['id']} for m in answered]
        elif kind == 'error':
            rep = [{'jsonrpc': '2.0', 'error': {'code': 7, 'message': 'no'}, 'id': m['id']} for m in answered]
        elif kind == 'partial':
            # answers only some members of a batch (a protocol violation at the client: the batch
            # is never completed); a single request is simply not answered
            if not is_batch or len(answered) < 2:
                return
            rep = [{'jsonrpc': '2.0', 'result': m['params'], 'id': m['id']} for m in answered[:-1]]
            self.loop.call_later(delay, self.deliver, json.dumps(rep).encode() + b'\n')
            return
        elif kind == 'garbage':
            g = [b'\xff\xfe{{', b'{"jsonrpc":"2.0","result":1,"id":987654321}', b'[]', b'nonsense'][cid % 4]
            self.loop.call_later(delay, self.deliver, g + b'\n')
            return
        else:
            raise AssertionError(kind)
        if not answered:
            return
        data = json.dumps(rep if is_batch else rep[0]).encode() + b'\n'
        self.loop.call_later(delay, self.deliver, data, cid, kind)

    def deliver(self, data, cid=None, kind=None):
        """hand bytes to the protocol as a real transport would: not while reading is paused
        (the session pauses reading while its send buffer is full), never after the loss"""
        if self.lost_at is not None:
            return
        if not self.tr.reading:
            self.held.append((data, cid, kind))
            return
        if cid is not None:
            self.reply_at[cid] = (self.loop.time(), kind)
            self.note('A', cid)
        self.proto.data_received(data)

    def flush(self):
        held, self.held = self.held, []
        for data, cid, kind in held:
            self.deliver(data, cid, kind)

    # ---- callers
    async def caller(self, c):
        cid = c['id']
        self.note('s', cid)
        try:
            if c['kind'] == 'single':
                r = await self.s.send_request('m', [cid])
                out = ('result', r)
            else:
                async with self.s.send_batch() as b:
                    for j, is_req in enumerate(c['items']):
                        if is_req:
                            b.add_request('m', [cid, j])
                        else:
                            b.add_notification('m', [cid, j])
                out = ('result', list(b.results) if b.results is not None else None)
        except self.TaskTimeout:
            out = ('timeout',)
        except asyncio.CancelledError:
            out = ('cancelled',)
        except (self.RPCError, self.ProtocolError) as e:
            out = ('error', type(e).__name__)
        except BaseException as e:       # noqa
            out = ('exc', type(e).__name__)
        self.note('d', cid, out)

    def start(self, c):
        self.tasks[c['id']] = self.loop.create_task(self.caller(c))

    def cancel(self, cid):
        t = self.tasks.get(cid)
        if t is not None and not t.done():
            self.cancelled_by_harness.add(cid)
            self.note('X', cid)
            t.cancel()

    def on_lost(self):
        # the transport is closing (peer dropped it, or the session aborted a stuck write)
        if self.lost_at is None and not self.finished:
            self.lost_at = self.loop.time()
            self.note('L', None)

    def drop(self):
        self.tr.close()

    def go(self):
        wl = self.wl
        for c in wl['callers']:
            self.loop.call_later(c['start'], self.start, c)
        for cid, t in wl.get('cancels', []):
            self.loop.call_later(t, self.cancel, cid)
        if wl.get('drop_at') is not None:
            self.loop.call_later(wl['drop_at'], self.drop)
        for t1, t2 in wl.get('pauses', []):
            # the socket send buffer is full between t1 and t2
            self.loop.call_later(t1, self.proto.pause_writing)
            self.loop.call_later(t2, self.proto.resume_writing)
        for tc, value in wl.get('changes', []):
            self.loop.call_later(tc, setattr, self.s, 'sent_request_timeout', value)
        n = len(wl['callers'])
        horizon = max([c['start'] for c in wl['callers']] + [0]) + \
            (n + 3) * (max_timeout(wl) + wl['cfg'].get('send_delay', 20.0) + 1) + 10
        self.env.advance(horizon)
        self.pending = [cid for cid, t in self.tasks.items() if not t.done()]
        self.finished = True        # tearing the loop down is not a connection loss of the workload
        self.env.close_loop()


def count_of(c):
    return 1 if c['kind'] == 'single' else len(c['items'])


def max_timeout(wl):
    return max([wl['cfg']['timeout']] + [v for _t, v in wl.get('changes', [])])


def timeout_in_force(wl, t):
    """sent_request_timeout at virtual time t -> (value, ambiguous): ambiguous when it is re-assigned
    at that very instant"""
    value, amb = wl['cfg']['timeout'], False
    for tc, v in sorted(wl.get('changes', [])):
        if abs(tc - t) < 1e-9:
            amb = True
        if tc <= t:
            value = v
    return value, amb


def judge(run):
    """the property oracle on the implementation's own trace -> (key, why) or None, stats"""
    wl = run.wl
    cfg = wl['cfg']
    timeout = cfg['timeout']
    callers = {c['id']: c for c in wl['callers']}
    stats = dict(result=0, error=0, timeout=0, cancelled=0, exc=0, max_inflight=0, limit_changes=0,
                 queued=0)
    first = [None]
    known = []

    def fail(key, why):
        if first[0] is None:
            first[0] = (key, why)

    if run.pending:
        fail('c20:no-outcome', f'callers {sorted(run.pending)[:5]} never got an outcome '
                               f'(waited {len(wl["callers"]) + 3} x (timeout + 1) virtual seconds)')
    inflight = set()
    queued = []
    done = {}
    limit = 50
    maxlimit = 50
    cap = 50
    start_info = {}
    prev_limit = 50
    for kind, cid, t, lim_now, extra in run.log:
        if lim_now != prev_limit:
            stats['limit_changes'] += 1
            bad = step_oracle(prev_limit, lim_now)
            if bad:
                fail(bad[0], bad[1] + f' at t={t}')
            prev_limit = lim_now
        limit = lim_now
        maxlimit = max(maxlimit, limit)
        if kind == 's':
            queued.append(cid)
            start_info[cid] = (t, len([q for q in queued if q != cid]))
        elif kind == 'E':
            if cid in queued:
                # (the order in which queued callers are written is not part of the property; it is
                # compared with the model by the monitor)
                queued.remove(cid)
            inflight.add(cid)
            cap = max(cap, limit)
            stats['max_inflight'] = max(stats['max_inflight'], len(inflight))
            if len(inflight) > maxlimit:
                fail('c20:in-flight-exceeds-max-limit',
                     f'{len(inflight)} operations awaiting a response at t={t}; largest limit so far {maxlimit}')
            else:
                # the text counts REQUESTS: a batch of k requests is k of them (one send operation,
                # one permit).  Reported under its own key: known finding, see awaiting_cap_full_fails
                nreq = sum(sum(1 for x in callers[c]['items'] if x) if callers[c]['kind'] == 'batch' else 1
                           for c in inflight)
                if nreq > maxlimit:
                    known.append(('c20:batch-requests-exceed-limit',
                                  f'{nreq} requests ({len(inflight)} send operations, batches included) await '
                                  f'responses at t={t}; the largest limit that has been in force is {maxlimit}'))
            # (with blocked writes a caller is written later than it entered the limiter, so the
            # capacity cannot be reconstructed from the writes: only the max-limit clause applies)
            if len(inflight) > cap and not wl.get('pauses'):
                fail('c20:in-flight-exceeds-capacity',
                     f'{len(inflight)} awaiting at t={t}; capacity after reductions {cap} (limit {limit})')
        elif kind == 'd':
            done[cid] = (t, extra)
            if cid in inflight:
                inflight.discard(cid)
                if cap > limit:
                    cap -= 1
            elif cid in queued:
                queued.remove(cid)
            out = extra
            c = callers[cid]
            stats[out[0]] = stats.get(out[0], 0) + 1
            lost = run.lost_at is not None and run.lost_at <= t
            tw = run.written.get(cid)
            t0, q_ahead = start_info.get(cid, (t, 0))
            slot = max_timeout(wl) + (cfg.get('send_delay', 20.0) if wl.get('pauses') else 0.0)
            # the response wait limit of this call: the one in force when its request was written
            timeout, t_amb = timeout_in_force(wl, tw) if tw is not None else (cfg['timeout'], False)
            if t - t0 > (q_ahead + 2) * slot + 1e-6:
                fail('c20:wait-not-bounded', f'caller {cid} started at {t0} with {q_ahead} queued ahead, '
                                             f'finished at {t} > (q+2)*(timeout [+ max_send_delay])')
            if out[0] == 'exc':
                if out[1] == 'TypeError' and c['kind'] == 'batch' and not any(c['items']):
                    fail('c20:all-notification-batch-typeerror',
                         f'send_batch with notifications only raised TypeError after the batch was written')
                else:
                    fail('c20:unexpected-exception', f'caller {cid} got {out[1]}')
            elif out[0] == 'cancelled':
                if cid not in run.cancelled_by_harness and not lost:
                    fail('c20:spurious-cancel', f'caller {cid} cancelled although the connection is up')
            elif out[0] == 'timeout':
                if tw is None and not any(t1 <= t <= t2 + 1e-9 or t1 <= t - cfg.get('send_delay', 20.0) <= t2
                                          for t1, t2 in wl.get('pauses', [])) and not lost:
                    fail('c20:timeout-without-write', f'caller {cid} got TaskTimeout at {t} although its '
                                                      f'request was never written and no write was blocked')
                if tw is not None and not t_amb and abs(t - (tw + timeout)) > 1e-9 * max(1.0, t):
                    fail('c20:timeout-at-wrong-time', f'caller {cid}: written at {tw}, TaskTimeout at {t}, '
                                                      f'expected {tw + timeout} (sent_request_timeout {timeout} '
                                                      f'in force when it was written, configured via '
                                                      f'{wl.get("configure", "subclass")})')
                ra = run.reply_at.get(cid)
                if ra is not None and tw is not None and ra[0] < tw + timeout - 1e-9 and not lost \
                        and (run.lost_at is None or ra[0] < run.lost_at):
                    fail('c20:answered-but-timed-out', f'caller {cid}: proper answer delivered at {ra[0]}, '
                                                       f'yet TaskTimeout at {t}')
            elif out[0] in ('result', 'error'):
                ra = run.reply_at.get(cid)
                if ra is None:
                    if not (c['kind'] == 'batch' and not any(c['items'])):
                        fail('c20:outcome-without-answer', f'caller {cid} got {out} but the peer never answered it')
                else:
                    if abs(t - ra[0]) > 1e-9 * max(1.0, t):
                        fail('c20:outcome-at-wrong-time', f'caller {cid}: answer delivered at {ra[0]}, outcome at {t}')
                    # errors inside a batch are delivered as items of the result tuple
                    want_kind = 'result' if ra[1] == 'reply' or c['kind'] == 'batch' else 'error'
                    if want_kind != out[0]:
                        fail('c20:wrong-outcome-kind', f'caller {cid}: peer sent {ra[1]}, caller got {out}')
                    if out[0] == 'result' and c['kind'] == 'single' and out[1] != [cid]:
                        fail('c20:wrong-result', f'caller {cid} got result {out[1]!r}')
        if not (1 <= limit <= 250):
            fail('c20:limit-out-of-range', f'limit {limit} at t={t}')
    # silent peers: whoever was written, never properly answered, not cancelled, no loss => timeout
    for cid, tw in run.written.items():
        if cid in done and cid not in run.reply_at and cid not in run.cancelled_by_harness \
                and run.lost_at is None:
            c = callers[cid]
            if done[cid][1][0] != 'timeout' and not (c['kind'] == 'batch' and not any(c['items'])):
                fail('c20:unanswered-without-timeout', f'caller {cid} never answered, outcome {done[cid][1]}')
    # the limit is re-estimated after every recalibration interval: over a stretch of completions
    # whose response times (per request) are ALL far above target_response_time and which spans at
    # least two full intervals (2*recalibrate_count samples + slack for batches that step over the
    # count), the limit must have been lowered at least once - unless it already is 1
    if run.lost_at is None and not wl.get('pauses') and cfg['trt'] > 0 and cfg['recal'] >= 1:
        recal, trt = cfg['recal'], cfg['trt']
        maxb = max([count_of(c) for c in wl['callers']] + [1])
        need = 2 * recal + 2 * maxb
        samples, saw_down, minlim, prev, t_first = 0, False, None, 50, None
        for kind, cid, t, lim_now, extra in run.log:
            if samples and lim_now < prev:
                saw_down = True
            prev = lim_now
            if kind != 'd' or cid not in run.written:
                continue
            c = callers[cid]
            if c['kind'] == 'batch' and not any(c['items']):
                continue            # a batch of notifications only does not wait for a response
            share = max(0.0, t - run.written[cid]) / count_of(c)
            if share > 1.5 * trt:
                if samples == 0:
                    t_first, minlim, saw_down = t, lim_now, False
                samples += count_of(c)
                minlim = min(minlim, lim_now)
                if samples >= need and not saw_down and minlim > 1:
                    fail('c20:limit-not-re-estimated',
                         f'{samples} consecutive response-time samples (t={t_first}..{t}) all above 1.5 x '
                         f'target_response_time {trt} with recalibrate_count {recal}, yet the limit never '
                         f'went down (it is {lim_now})')
                    break
            else:
                samples = 0
    # ... "re-estimated from measured response times after every recalibration interval": every
    # finished wait - answered OR ended by the response wait limit - is a measured response time
    # (a batch contributes its per-request share once per member); whenever recalibrate_count of
    # them have accumulated the interval closes and the limit is re-estimated.  Judged where the
    # direction is beyond doubt: an interval averaging at least twice target_response_time must
    # lower the limit (unless it is 1), one averaging at most half of it must raise it (unless 250).
    if run.lost_at is None and not wl.get('pauses') and not wl.get('cancels') \
            and cfg['trt'] > 0 and cfg['recal'] >= 1:
        recal, trt = cfg['recal'], cfg['trt']
        samples, prev_lim, closed = [], 50, 0
        for kind, cid, t, lim_now, extra in run.log:
            if kind == 'd' and cid in run.written:
                c = callers[cid]
                if not (c['kind'] == 'batch' and not any(c['items'])):
                    n = count_of(c)
                    samples += [max(0.0, t - run.written[cid]) / n] * n
                    if len(samples) >= recal:
                        avg = sum(samples) / len(samples)
                        closed += 1
                        what = (f'recalibration interval {closed} closed at t={t} with {len(samples)} finished waits '
                                f'(answered or timed out) averaging {avg:.6g}s against target_response_time {trt}: '
                                f'the limit went {prev_lim} -> {lim_now}')
                        if avg >= 2 * trt and prev_lim > 1 and lim_now >= prev_lim:
                            fail('c20:limit-not-re-estimated-after-interval', what + ', it had to go down')
                        if avg <= trt / 2 and prev_lim < 250 and lim_now <= prev_lim:
                            fail('c20:limit-not-re-estimated-after-interval', what + ', it had to go up')
                        samples = []
            prev_lim = lim_now
        stats['intervals_judged'] = closed
    # connection loss cancels every outstanding request at once
    if run.lost_at is not None:
        for cid, tw in run.written.items():
            if tw >= run.lost_at or cid not in done:
                continue
            t, out = done[cid]
            if t < run.lost_at - 1e-12:
                continue            # finished before the loss
            ra = run.reply_at.get(cid)
            tie = abs(tw + timeout_in_force(wl, tw)[0] - run.lost_at) < 1e-9 \
                or (ra is not None and abs(ra[0] - run.lost_at) < 1e-9)
            if tie or cid in run.cancelled_by_harness:
                continue
            if out[0] != 'cancelled' or abs(t - run.lost_at) > 1e-9:
                fail('c20:not-cancelled-on-connection-loss',
                     f'caller {cid} was awaiting a response when the connection was lost at '
                     f'{run.lost_at}; outcome {out} at {t}')
    # ... and a caller still queued for a slot at that moment gets the cancellation too: its request
    # can never be written any more, so no response and no "wait limit since it was written" exist
    if run.lost_at is not None and not wl.get('pauses'):
        for cid, (t0, _q) in start_info.items():
            if cid in run.written or cid not in done or t0 >= run.lost_at - 1e-12 \
                    or cid in run.cancelled_by_harness:
                continue
            t, out = done[cid]
            if t < run.lost_at - 1e-12:
                continue
            if out[0] != 'cancelled' or abs(t - run.lost_at) > 1e-9:
                fail('c20:not-cancelled-on-connection-loss',
                     f'caller {cid} was queued for a slot (request not yet written) when the connection was '
                     f'lost at {run.lost_at}; outcome {out} at {t}, expected cancellation at {run.lost_at}')
    stats['queued'] = sum(1 for cid, (t0, q) in start_info.items()
                          if cid in run.written and run.written[cid] > t0)
    if first[0] is None and known:
        first[0] = known[0]
    return first[0], stats


def monitor_ops(run):
    """translate the log into the small-step ops of `drv_c20 M` with the observations to compare
    (None as observation = do not compare this record)"""
    callers = {c['id']: c for c in run.wl['callers']}
    ops, want = [], []
    if run.wl.get('pauses'):
        return ops, want        # entry into the limiter is not observable while writes are blocked
    log = run.log
    written, queued, holders = {}, [], set()
    xed = set()       # cancel() called, task has not run yet: excluded from the queue comparison
    i = 0
    while i < len(log):
        kind, cid, t, lim, extra = log[i]
        if kind == 'L':
            break
        if kind == 'X':
            xed.add(cid)
            ops.append(f'X{cid}')
            want.append(([], sorted(holders), [q for q in queued if q not in xed], lim, set(xed)))
            i += 1
            continue
        if kind == 's':
            if i + 1 < len(log) and log[i + 1][0] == 'E' and log[i + 1][1] == cid:
                written[cid] = log[i + 1][2]
                holders.add(cid)
                ops.append(f's{cid}')
                want.append(([f'E{cid}'], sorted(holders), [q for q in queued if q not in xed], log[i + 1][3], set(xed)))
                i += 2
                continue
            queued.append(cid)
            ops.append(f's{cid}')
            want.append(([], sorted(holders), [q for q in queued if q not in xed], lim, set(xed)))
        elif kind == 'E':
            written[cid] = t
            if cid in queued:
                queued.remove(cid)
            holders.add(cid)
            ops.append(f'r{cid}')
            want.append(([f'E{cid}'], sorted(holders), [q for q in queued if q not in xed], lim, set(xed)))
        elif kind == 'd':
            xed.discard(cid)
            if cid in holders:
                holders.discard(cid)
                taken = max(0, t - written[cid])
                ops.append(f'd{cid}:{fr(taken)}:{count_of(callers[cid])}')
                want.append(([], sorted(holders), [q for q in queued if q not in xed], lim, set(xed)))
            elif cid in queued:
                queued.remove(cid)
                ops.append(f'c{cid}')
                want.append(([f'C{cid}'], sorted(holders), [q for q in queued if q not in xed], lim, set(xed)))
            else:
                break           # finished without ever reaching the limiter: outside the model
        i += 1
    return ops, want


def timed_ops(run):
    """the environment's actions of a workload as operations of the timed model (`drv_c20 T`): calls,
    deliveries of proper answers, the loss of the connection, separated by waits; None when the
    workload contains what the timed model does not cover (blocked writes, callers cancelled by
    their owner)"""
    wl = run.wl
    if wl.get('pauses') or wl.get('cancels') or wl.get('changes'):
        return None
    callers = {c['id']: c for c in wl['callers']}
    ops, now = [], 0.0
    for kind, cid, t, _lim, _extra in run.log:
        if kind not in ('s', 'A', 'L'):
            continue
        if t > now:
            ops.append(f'w{fr(t - now)}')
            now = t
        if kind == 's':
            c = callers[cid]
            if c['kind'] == 'batch' and not any(c['items']):
                continue            # notifications only: sent without a slot, nothing to wait for
            ops.append(f'c{cid}:{count_of(c)}')
        elif kind == 'A':
            ops.append(f'a{cid}')
        else:
            ops.append('l')
            break
    n = len(wl['callers'])
    ops.append(f"w{fr((n + 3) * (wl['cfg']['timeout'] + 1) + 10)}")
    return ops


def compare_timed(res, case, run_info, mline):
    """per caller: when written, when and how the call ended - implementation vs timed model"""
    written, done, ties, outside = run_info
    m_w, m_e = {}, {}
    for tok in mline.split():
        if tok[0] == 'W':
            i, t = tok[1:].split('@')
            m_w.setdefault(int(i), F(t))
        elif tok[0] == 'E':
            i, rest = tok[1:].split('@')
            t, k = rest.split(':')
            m_e.setdefault(int(i), (F(t), k))
    kind_of = {'result': 'A', 'error': 'A', 'timeout': 'T', 'cancelled': 'C'}
    for cid, (t, out) in sorted(done.items()):
        if cid in outside:
            continue
        got = (written.get(cid), t, kind_of.get(out[0], '?'))
        mw, me = m_w.get(cid), m_e.get(cid)
        ok = me is not None and me[1] == got[2] and abs(float(me[0]) - t) <= 1e-9 \
            and ((mw is None) == (got[0] is None)) and (mw is None or abs(float(mw) - got[0]) <= 1e-9)
        if not ok:
            if ties:
                res.count('timed_model_skipped_same_instant_events')
            else:
                res.disagreement(case, f'caller {cid}: written {got[0]}, ended {got[1]} {got[2]}',
                                 f'timed model: written {None if mw is None else float(mw)}, '
                                 f'ended {None if me is None else (float(me[0]), me[1])}')
            return
    res.count('timed_model_workloads_agreeing')


def timed_info(run):
    """what is compared, and whether two different kinds of events fall on the same instant (then the
    order in which the loop delivers them is not determined and the comparison is skipped)"""
    done = {}
    for kind, cid, t, _lim, extra in run.log:
        if kind == 'd':
            done[cid] = (t, extra)
    deadlines = {round(tw + timeout_in_force(run.wl, tw)[0], 9) for tw in run.written.values()}
    answers = {round(ra[0], 9) for ra in run.reply_at.values()}
    starts = {round(c['start'], 9) for c in run.wl['callers']}
    lost = {round(run.lost_at, 9)} if run.lost_at is not None else set()
    ties = bool(deadlines & answers or deadlines & lost or answers & lost or starts & lost
                or starts & deadlines or starts & answers)
    # outside the timed model: batches of notifications only (no slot, no wait), calls made after the
    # connection was lost
    outside = {c['id'] for c in run.wl['callers']
               if (c['kind'] == 'batch' and not any(c['items']))
               or (run.lost_at is not None and c['start'] >= run.lost_at - 1e-12)}
    return dict(run.written), done, ties, outside


def fmt_list(l):
    return '.'.join(str(x) for x in l) if l else '-'


def compare_monitor(res, case, cfg, ops, want, mline):
    if not ops:
        return
    recs = mline.split(' | ')
    if len(recs) != len(ops):
        res.disagreement(case, f'{len(ops)} ops', mline[:200])
        return
    for j, (op, w, rec) in enumerate(zip(ops, want, recs)):
        ev, h, wq, k, T, n, p = rec.split(';')
        m_ev = [] if ev == '-' else ev.split(',')
        m_h = h[2:]
        m_q = [x for x in (k[2:].split('.') if k[2:] != '-' else []) + (wq[2:].split('.') if wq[2:] != '-' else [])]
        m_T = int(T[2:])
        evs, holders, queued, lim, xed = w
        m_q = [x for x in m_q if int(x) not in xed]
        if m_T != lim and p[2:] != '-':
            x = F(p[2:]) + F(1, 2)
            if abs(x - round(x)) <= TIE * max(1, abs(x)):
                res.count('workload_abandoned_at_rounding_tie')
                return
        got = (evs, fmt_list(holders), [str(x) for x in queued], lim)
        mod = (m_ev, m_h, m_q, m_T)
        if got != mod:
            res.disagreement(case, f'op {j} {op}: {got}', f'{mod}', ops=' '.join(ops[:j + 1])[-400:])
            return


# ------------------------------------------------------------------ workload generation
def dy(rng, lo, hi, q=64):
    return rng.randint(int(lo * q), int(hi * q)) / q


def make_peer(spec):
    kind = spec['kind']

    def peer(cid):
        if kind == 'mixed':
            return spec['table'][cid % len(spec['table'])]
        return spec['table'][0]
    return peer


def random_workload(rng, big=False):
    # (all configured values: also recalibrate_count 0 and a zero / negative target_response_time)
    cfg = dict(timeout=rng.choice([30.0, 30.0, 2.0, 0.5]), trt=rng.choice([3.0, 3.0, 0.25, 10.0, 3.0, 0.0, -1.0]),
               recal=rng.choice([30, 30, 10, 3, 1, 0]))
    n = rng.choice([1, 2, 5, 20, 51, 60, 120]) if not big else rng.randint(1, 120)
    pattern = rng.choice(['burst', 'stagger', 'waves'])
    callers = []
    for i in range(n):
        if pattern == 'burst':
            st = 0.0
        elif pattern == 'stagger':
            st = i * rng.choice([0.015625, 0.25, 1.0])
        else:
            st = (i // 10) * rng.choice([0.5, 5.0, 40.0])
        if rng.random() < 0.2:
            k = rng.randint(1, 5)
            items = [rng.random() < 0.8 for _ in range(k)]
            if not any(items):
                items[0] = True      # all-notification batches are probed separately (F19)
            callers.append(dict(id=i, start=st, kind='batch', items=items))
        else:
            callers.append(dict(id=i, start=st, kind='single'))
    t = cfg['timeout']
    ref = cfg['trt'] if cfg['trt'] > 0 else 3.0      # peer speeds are relative to a sane response time
    beh = {
        'prompt': ('reply', 0.0),
        'fast': ('reply', dy(rng, 0, ref / 4 + 0.02)),
        'slow': ('reply', dy(rng, ref, max(ref * 3, 0.1))),
        'tooslow': ('reply', t + dy(rng, 0.25, 5)),
        'silent': ('silent', 0.0),
        'error': ('error', dy(rng, 0, 1)),
        'partial': ('partial', dy(rng, 0, 1)),
        'garbage': ('garbage', dy(rng, 0, 1)),
    }
    pk = rng.choice(['prompt', 'fast', 'slow', 'silent', 'mixed', 'mixed', 'mixed', 'tooslow', 'garbage'])
    if pk == 'mixed':
        names = [rng.choice(list(beh)) for _ in range(rng.randint(2, 7))]
        spec = dict(kind='mixed', names=names, table=[beh[x] for x in names])
    else:
        spec = dict(kind=pk, names=[pk], table=[beh[pk]])
    wl = dict(cfg=cfg, callers=callers, peer_spec=spec)
    how = rng.random()
    if how < 0.3:
        wl['configure'] = 'instance'
    elif how < 0.4:
        wl['configure'] = 'instance'
        wl['changes'] = [(dy(rng, 0, cfg['timeout'] * 2), rng.choice([30.0, 2.0, 0.5, 8.0]))]
    if rng.random() < 0.15 and n > 1:
        wl['drop_at'] = dy(rng, 0, t * 2)
    if rng.random() < 0.2:
        wl['cancels'] = [(rng.randrange(n), dy(rng, 0, t * 1.5)) for _ in range(rng.randint(1, 4))]
    if rng.random() < 0.12:
        cfg['send_delay'] = rng.choice([20.0, 1.0])
        t1 = dy(rng, 0, 2)
        wl['pauses'] = [(t1, t1 + rng.choice([0.25, cfg['send_delay'] / 2, cfg['send_delay'] + 1.0]))]
    return wl


def stepover_workload(rng):
    """k singles and then a batch whose samples step over recalibrate_count, followed by waves of
    slow singles: the limit has to keep being re-estimated"""
    r = rng.choice([3, 5, 10])
    trt = 0.25
    cfg = dict(timeout=2.0, trt=trt, recal=r)
    k = rng.randint(0, r - 1)
    callers = [dict(id=i, start=i * 0.015625, kind='single') for i in range(k)]
    size = rng.randint(r - k + 1, r - k + 4)
    callers.append(dict(id=k, start=k * 0.015625, kind='batch', items=[True] * size))
    n2 = 4 * r + 4 * size + 8
    for j in range(n2):
        callers.append(dict(id=k + 1 + j, start=2.0 + j * 0.03125, kind='single'))
    delay = rng.choice([1.0, 0.75, 1.5])
    return dict(cfg=cfg, callers=callers, peer_spec=dict(kind='slow', names=['slow'], table=[('reply', delay)]))


def lower_then_raise_workload(rng):
    """the limit is lowered by a slow response and raised again by a fast one before the lowering
    has been absorbed by completions, with callers queued: requests awaiting responses must stay
    within the largest limit that has been in force (50)"""
    trt = 2.0
    cfg = dict(timeout=400.0, trt=trt, recal=1)
    n_slow = 48
    slow_at = 300.0
    a_done = rng.choice([3.0, 4.0, 6.0])
    b_start = rng.choice([2.5, 2.0])
    b_taken = rng.choice([1.0, 0.5, 0.25])
    extra = rng.randint(6, 14)
    callers, table = [], []
    for i in range(n_slow):
        callers.append(dict(id=i, start=0.0, kind='single'))
        table.append(('reply', slow_at))
    callers.append(dict(id=n_slow, start=0.0, kind='single'))
    table.append(('reply', a_done))
    callers.append(dict(id=n_slow + 1, start=b_start, kind='single'))
    table.append(('reply', b_taken))
    for j in range(extra):
        callers.append(dict(id=n_slow + 2 + j, start=b_start + 0.25, kind='single'))
        table.append(('reply', 0.25))
    return dict(cfg=cfg, callers=callers,
                peer_spec=dict(kind='mixed', names=['per-caller'], table=table))


def blocked_cancel_workload(rng):
    """the send buffer is full, every caller that got a slot is blocked in its write and is then
    cancelled by its owner; once the buffer drains, later callers must still get an outcome"""
    cfg = dict(timeout=rng.choice([5.0, 2.0]), trt=3.0, recal=30, send_delay=20.0)
    n1 = rng.randint(50, 58)
    n2 = rng.randint(2, 6)
    callers = [dict(id=i, start=0.25, kind='single') for i in range(n1)]
    callers += [dict(id=n1 + j, start=6.0 + j * 0.25, kind='single') for j in range(n2)]
    return dict(cfg=cfg, callers=callers, pauses=[(0.0, 4.0)], cancels=[(i, 1.0) for i in range(n1)],
                peer_spec=dict(kind='prompt', names=['prompt'], table=[('reply', 0.0)]))


def blocked_partial_cancel_workload(rng):
    """the send buffer is full; some of the callers blocked in their write give up (cancelled by their
    owner), further callers arrive while it is still full; after it drains everybody who is still
    there must get the answer to his own request"""
    cfg = dict(timeout=rng.choice([5.0, 30.0]), trt=3.0, recal=30, send_delay=20.0)
    n1 = rng.randint(3, 8)
    n2 = rng.randint(2, 5)
    callers = [dict(id=i, start=0.25, kind='single' if rng.random() < 0.8 else 'batch', items=[True, True])
               for i in range(n1)]
    for c in callers:
        if c['kind'] == 'single':
            del c['items']
    callers += [dict(id=n1 + j, start=2.0 + j * 0.25, kind='single') for j in range(n2)]
    gone = rng.sample(range(n1), rng.randint(1, max(1, n1 // 2)))
    return dict(cfg=cfg, callers=callers, pauses=[(0.0, 4.0)], cancels=[(i, 1.0) for i in gone],
                peer_spec=dict(kind='prompt', names=['prompt'], table=[('reply', 0.0)]))


def partial_timeout_workload(rng):
    """a peer that answers only every k-th request (at once) and never the others: most waits end
    by the response wait limit; with a small recalibrate_count the limit has to be re-estimated
    from those waits too"""
    recal = rng.choice([2, 3, 4, 5])
    trt = rng.choice([0.0625, 0.03125])
    cfg = dict(timeout=rng.choice([1.0, 2.0]), trt=trt, recal=recal)
    every = rng.choice([2, 3, 4])
    rounds = rng.randint(4, 7)
    per = rng.choice([recal, 4, recal + 1])
    callers, table = [], []
    for r in range(rounds):
        for j in range(per):
            cid = len(callers)
            callers.append(dict(id=cid, start=r * (cfg['timeout'] + 0.5) + j * 0.015625, kind='single'))
            table.append(('reply', 0.0) if cid % every == 0 else ('silent', 0.0))
    return dict(cfg=cfg, callers=callers, configure=rng.choice(['subclass', 'instance']),
                peer_spec=dict(kind='mixed', names=['answers-some'], table=table))


def reconfigured_workload(rng):
    """the response wait limit given on the INSTANCE (as for a session obtained from connect_rs)
    and re-assigned while the session is in use; a peer that never answers: every call has to end
    with TaskTimeout after the limit that was in force when its request was written"""
    first = rng.choice([0.5, 2.0, 4.0])
    cfg = dict(timeout=first, trt=3.0, recal=30)
    n1, n2 = rng.randint(1, 4), rng.randint(1, 4)
    tc = first * 2 + 1.0
    second = rng.choice([0.25, 1.0, 8.0])
    callers = [dict(id=i, start=i * 0.0625, kind='single' if i % 3 else 'batch', items=[True, True]) for i in range(n1)]
    callers += [dict(id=n1 + j, start=tc + 0.25 + j * 0.0625, kind='single') for j in range(n2)]
    for c in callers:
        if c['kind'] == 'single':
            c.pop('items', None)
    return dict(cfg=cfg, callers=callers, configure='instance', changes=[(tc, second)],
                peer_spec=dict(kind='silent', names=['silent'], table=[('silent', 0.0)]))


def zero_timeout_workload(rng):
    """sent_request_timeout configured as exactly 0 (a legal limit: "do not wait at all"), on the
    class or on the instance, a peer that never answers: every call - single requests and batches -
    ends with TaskTimeout at the instant its request was written"""
    cfg = dict(timeout=0.0, trt=3.0, recal=30)
    n = rng.randint(1, 5)
    callers = [dict(id=i, start=i * rng.choice([0.0625, 1.0]), kind='single' if i % 3 != 1 else 'batch',
                    items=[True, True]) for i in range(n)]
    for c in callers:
        if c['kind'] == 'single':
            c.pop('items', None)
    wl = dict(cfg=cfg, callers=callers,
              peer_spec=dict(kind='silent', names=['silent'], table=[('silent', 0.0)]))
    if rng.random() < 0.5:
        wl['configure'] = 'instance'
    return wl


def loss_while_queued_workload(rng):
    """more callers than the limit, a peer that does not answer, the connection is lost while the
    excess is still queued for a slot: everybody - awaiting a response or queued - is cancelled"""
    cfg = dict(timeout=30.0, trt=3.0, recal=30)
    n = rng.randint(52, 70)
    callers = [dict(id=i, start=0.0 if i < 50 else rng.choice([0.0, 0.25, 1.0]), kind='single') for i in range(n)]
    return dict(cfg=cfg, callers=callers, drop_at=rng.choice([2.0, 5.0, 29.0]),
                peer_spec=dict(kind='silent', names=['silent'], table=[('silent', 0.0)]))


def corpus_workloads(verif):
    out = []
    for line in corpus_lines(verif, 'C20'):
        d = json.loads(line)
        if d.get('level') == 'workload':
            out.append(d['workload'])
    return out


def corpus_recalc(verif):
    out = []
    for line in corpus_lines(verif, 'C20'):
        d = json.loads(line)
        if d.get('level') == 'recalc':
            out.append((d['current'], d['target_response_time'], d['avg']))
    return out


_env = None


def _init(repo):
    global _env
    _env = Env(repo)


def _wl_batch(wls):
    out = []
    for wl in wls:
        wl = dict(wl)
        wl['peer'] = make_peer(wl['peer_spec'])
        run = Run(_env, wl)
        run.go()
        verdict, stats = judge(run)
        ops, want = monitor_ops(run)
        out.append((verdict, stats, ops, want, timed_ops(run), timed_info(run)))
    return out


def _pmap(ctx, fn, cases, chunk=20):
    if len(cases) < 400:
        if _env is None or _env.repo != ctx.repo:
            _init(ctx.repo)
        return fn(cases)
    nproc = min(12, os.cpu_count() or 1)
    jobs = [cases[i:i + chunk] for i in range(0, len(cases), chunk)]
    with Pool(nproc, initializer=_init, initargs=(ctx.repo,)) as pool:
        parts = pool.map(fn, jobs)
    return [r for p in parts for r in p]


def evaluate_workloads(ctx, res, wls, scope):
    results = _pmap(ctx, _wl_batch, wls)
    lines, tlines, tidx = [], [], {}
    for k, (wl, (_v, _s, ops, _w, tops, _ti)) in enumerate(zip(wls, results)):
        cfg = wl['cfg']
        lines.append(f"M 50 {fr(cfg['trt'])} {cfg['recal']} | " + ' '.join(ops))
        if tops is not None:
            tidx[k] = len(tlines)
            tlines.append(f"T 50 {fr(cfg['trt'])} {cfg['recal']} {fr(cfg['timeout'])} | " + ' '.join(tops))
    model = ctx.model(lines)
    tmodel = ctx.model(tlines) if tlines else []
    for idx, (wl, (verdict, stats, ops, want, tops, tinfo)) in enumerate(zip(wls, results)):
        case = {'level': 'workload', 'workload': wl}
        if verdict:
            res.violation(verdict[0], case, verdict[1])
        if model is not None:
            compare_monitor(res, case, wl['cfg'], ops, want, model[idx])
        if tmodel is not None and idx in tidx and not verdict:
            compare_timed(res, case, tinfo, tmodel[tidx[idx]])
        res['evaluations'] += 1
        res.count(f'{scope}_workloads')
        res.count('callers', len(wl['callers']))
        for k in ('result', 'error', 'timeout', 'cancelled', 'exc', 'limit_changes', 'queued'):
            res.count('outcome_' + k if k in ('result', 'error', 'timeout', 'cancelled', 'exc') else k, stats.get(k, 0))
        res.count('monitor_ops', len(ops))
        res.count('workloads_with_connection_loss', wl.get('drop_at') is not None)
        res.count('workloads_with_blocked_writes', bool(wl.get('pauses')))
        res.count('workloads_configured_on_the_instance', wl.get('configure') == 'instance')
        res.count('workloads_with_timeout_reassigned', bool(wl.get('changes')))
        res.count('recalibration_intervals_judged', stats.get('intervals_judged', 0))
        res.count('workloads_hitting_the_cap', stats['max_inflight'] >= 50)
        if stats['limit_changes'] or stats['queued']:
            res.nontrivial(json.dumps(wl, sort_keys=True))


RULE = ('(i) case = (current, target_response_time, average): every current in 1..250 x averages '
        'at which current*trt/avg meets an integer or half-integer in [floor-2, cap+2] with both float '
        'neighbours, plus 0 / denormal / huge, run through the real _recalc_concurrency; '
        '(ii)/(iii) case = workload (configuration of sent_request_timeout / target_response_time / '
        'recalibrate_count, 1..120 callers in burst / staggered / waves, singles and batches with '
        'notifications, peer behaviour table over {prompt, fast, slow, too slow, silent, error, '
        'partial batch answer, garbage}, optional connection loss and external cancellations) on a '
        'real client RPCSession with a scripted peer on the virtual loop.  non-trivial = the limit '
        'changed or a caller had to queue (workloads) / the limit moved (recalc points); distinct = '
        'distinct JSON of the workload / distinct (current, trt, avg)')


def full_tier(ctx):
    return ctx.tier == 'thorough'


def _known_keys(ctx):
    try:
        with open(os.path.join(ctx.verif, 'known_findings.json')) as f:
            return {k['key'] for k in json.load(f).get('known', []) if k.get('property') == 'C20'}
    except (OSError, ValueError):
        return set()


def _failed(res, known):
    """something failed that is not a listed known finding (those must not stop the exploration)"""
    return bool(res.n_disagreements) or any(v['key'] not in known for v in res['violations'])


def run(ctx):
    res = Results()
    rng = ctx.rng
    _init(ctx.repo)
    known = _known_keys(ctx)
    # (a) corpus first: the F18 witnesses and the F19 probe
    cr = corpus_recalc(ctx.verif)
    if cr:
        evaluate_recalc(ctx, res, cr)
    cw = corpus_workloads(ctx.verif)
    if cw:
        evaluate_workloads(ctx, res, cw, 'corpus')
    res['scopes']['corpus'] = len(cr) + len(cw)
    # (b) targeted workloads: batches stepping over recalibrate_count, then slow waves
    nso = 30
    evaluate_workloads(ctx, res, [stepover_workload(rng) for _ in range(nso)], 'stepover')
    if full_tier(ctx) and not _failed(res, known):
        evaluate_workloads(ctx, res, [stepover_workload(rng) for _ in range(370)], 'stepover')
        nso += 370
    res['scopes']['stepover_workloads'] = nso
    ntg = 4
    for gen, name in ((lower_then_raise_workload, 'lower_then_raise'), (blocked_cancel_workload, 'blocked_cancel'),
                      (blocked_partial_cancel_workload, 'blocked_partial_cancel'),
                      (loss_while_queued_workload, 'loss_while_queued'),
                      (partial_timeout_workload, 'partial_timeout'), (reconfigured_workload, 'reconfigured'),
                      (zero_timeout_workload, 'zero_timeout')):
        evaluate_workloads(ctx, res, [gen(rng) for _ in range(ntg)], name)
    res['scopes']['targeted_workloads'] = {'lower_then_raise': ntg, 'blocked_cancel': ntg,
                                           'blocked_partial_cancel': ntg, 'loss_while_queued': ntg,
                                           'partial_timeout': ntg, 'reconfigured': ntg, 'zero_timeout': ntg}
    # (c) exhaustive recalibration grid
    full = ctx.tier == 'thorough'
    cases = list(recalc_cases(full and not _failed(res, known)))
    evaluate_recalc(ctx, res, cases)
    res['scopes']['recalc_grid'] = {'currents': '1..250', 'points': len(cases)}
    # (c) workloads
    nwl = (30000 if full else 1200) if ctx.deep and not _failed(res, known) else 500
    wls = [random_workload(rng, big=(k % 3 == 0)) for k in range(nwl)]
    evaluate_workloads(ctx, res, wls, 'random')
    res['scopes']['workloads'] = nwl

    for wl in wls[:2]:
        res.sample({'cfg': wl['cfg'], 'callers': len(wl['callers']), 'peer': wl['peer_spec']['names']})
    return res.finish(RULE, exhaustive=True)


def replay(ctx, case):
    if 'case' in case and isinstance(case['case'], dict):
        case = case['case']
    res = Results()
    _init(ctx.repo)
    if case.get('level') == 'workload':
        evaluate_workloads(ctx, res, [case['workload']], 'replay')
    else:
        evaluate_recalc(ctx, res, [(case['current'], case['target_response_time'], case['avg'])])
    res.sample({k: v for k, v in case.items() if k != 'workload'})
    return res.finish('replay of one recorded case')
