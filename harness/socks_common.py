"""Shared by harness/c16.py and harness/c17.py: building the real protocol objects from a
case description, the line-protocol encoding of a case, and driving an object by hand."""
from ipaddress import IPv4Address, IPv6Address

from tools.facts.common import fresh_import


def need_data_class(socks, util):
    """The exception class `next_message()` raises when it needs more reply bytes.  It is a
    private name of the library (not in `__all__`), so it is found by behaviour: a fresh SOCKS5
    object that has produced its greeting is asked for the next message with nothing received.
    Falls back to the attribute `NeedData`, then to a class nothing raises."""
    try:
        c = socks.SOCKS5(util.NetAddress('1.2.3.4', 80), None)
        c.next_message()
        try:
            c.next_message()
        except Exception as e:      # the probe: whatever is raised here is "need more data"
            if not isinstance(e, socks.SOCKSError):
                return type(e)
    except Exception:               # the probe itself could not run: use the name
        pass
    return getattr(socks, 'NeedData', type('NoNeedData', (Exception,), {}))


def need_count(e):
    """how many bytes a need-more-data exception asks for (None if it does not say)"""
    for v in getattr(e, 'args', ()):
        if isinstance(v, int) and not isinstance(v, bool):
            return v
    for name in ('count', 'size', 'needed', 'missing'):
        v = getattr(e, name, None)
        if isinstance(v, int) and not isinstance(v, bool):
            return v
    return None


class Mods:
    """the repo's modules, imported from the tree under test"""

    def __init__(self, repo):
        self.socks = fresh_import(repo, 'aiorpcx.socks')
        self.util = fresh_import(repo, 'aiorpcx.util')
        self.cls = {'4': self.socks.SOCKS4, '4a': self.socks.SOCKS4a, '5': self.socks.SOCKS5}
        self.NeedData = need_data_class(self.socks, self.util)


class Livelock(BaseException):
    """the code under test keeps running without ever finishing (observed, never a hang)"""


class watchdog:
    """`with watchdog(seconds):` raises Livelock inside the block when it has used more than
    that much CPU time (pure-Python spin loops never return to the event loop, so a timer signal
    is the only way to observe them).  CPU time of this process, not wall-clock time: a loaded
    machine must not turn into an observation."""

    def __init__(self, seconds):
        self.seconds = seconds

    def _fire(self, signum, frame):
        raise Livelock()

    def __enter__(self):
        import signal
        self._signal = signal
        self._old = signal.signal(signal.SIGVTALRM, self._fire)
        signal.setitimer(signal.ITIMER_VIRTUAL, self.seconds)
        return self

    def __exit__(self, *exc):
        self._signal.setitimer(self._signal.ITIMER_VIRTUAL, 0)
        self._signal.signal(self._signal.SIGVTALRM, self._old)
        return False


class StubAddress:
    """duck-typed remote address for inputs `NetAddress` refuses to build (malformed stream)"""

    def __init__(self, host, port):
        self.host = host
        self.port = port


# a case is (proto, host, port, auth) with
#   host = ('4', bytes4) | ('6', bytes16) | ('z', bytes16: IPv6 with the zone ZONE) | ('n', str)
#   auth = None | (username str, password str)
ZONE = 'eth0'


def enc_cps(s):
    return '.'.join(format(ord(ch), 'x') for ch in s) if s else '_'


def enc_host(host):
    kind, v = host
    if kind == 'n':
        return 'n:' + enc_cps(v)
    return f'{kind}:{bytes(v).hex()}'


def enc_auth(auth):
    if auth is None:
        return '-'
    return f'u:{enc_cps(auth[0])}/{enc_cps(auth[1])}'


def enc_case(case):
    proto, host, port, auth = case
    return f'{proto} {enc_host(host)} {port} {enc_auth(auth)}'


def dec_cps(s):
    return '' if s == '_' else ''.join(chr(int(x, 16)) for x in s.split('.'))


def dec_case(line):
    proto, h, port, a = line.split()[:4]
    kind, v = h.split(':')
    host = ('n', dec_cps(v)) if kind == 'n' else (kind, bytes.fromhex(v))
    auth = None
    if a != '-':
        u, p = a[2:].split('/')
        auth = (dec_cps(u), dec_cps(p))
    return proto, host, int(port), auth


def case_json(case):
    proto, host, port, auth = case
    return {'line': enc_case(case), 'proto': proto, 'host_kind': host[0],
            'host': host[1] if host[0] == 'n' else bytes(host[1]).hex(), 'port': port,
            'auth': None if auth is None else [ascii(auth[0]), ascii(auth[1])]}


def host_object(host):
    kind, v = host
    if kind == '4':
        return IPv4Address(bytes(v))
    if kind == '6':
        return IPv6Address(bytes(v))
    if kind == 'z':
        return IPv6Address(f'{IPv6Address(bytes(v))}%{ZONE}')
    return v


def host_string(host):
    """the destination as a caller of create_connection would write it"""
    kind, v = host
    return v if kind == 'n' else str(host_object(host))


def make_address(mods, host, port, stub=False):
    if stub:
        return StubAddress(host_object(host), port)
    return mods.util.NetAddress(host_object(host), port)


def make_auth(mods, auth):
    return None if auth is None else mods.socks.SOCKSUserAuth(auth[0], auth[1])


def make_client(mods, case, stub=False):
    proto, host, port, auth = case
    return mods.cls[proto](make_address(mods, host, port, stub), make_auth(mods, auth))


def exc_name(e):
    return type(e).__name__


def observable_tokens(tokens):
    """property-level view of a by-hand dialogue: messages, final verdict, and whether the
    object ends still wanting data.  The values (and number) of the intermediate
    need-more-data requests are an implementation choice: a parser that looks at the version
    byte before asking for the rest of a reply behaves the same as far as C16 / C17 go."""
    out = [t for t in tokens if not (t.startswith('N') and t != 'None')]
    if tokens and tokens[-1].startswith('N') and tokens[-1] != 'None':
        out.append('starved')
    return out


def drive_object(mods, client, chunks, fuel=16):
    """next_message() / receive_data(chunk) by hand, exactly like the model's `driveObject`:
    returns the list of results ('M<hex>', 'None', 'N<k>', 'E:<Exception>') and the raw
    messages/exception for the oracle."""
    out, raw = [], []
    chunks = list(chunks)
    NeedData = mods.NeedData
    for _ in range(fuel):
        try:
            m = client.next_message()
        except NeedData as e:
            out.append(f'N{need_count(e)}')
            raw.append(('need', need_count(e)))
            if not chunks:
                break
            client.receive_data(chunks.pop(0))
            continue
        except Exception as e:      # observed, classified by the caller
            out.append('E:' + exc_name(e))
            raw.append(('raise', e))
            break
        if m is None:
            out.append('None')
            raw.append(('none',))
            break
        out.append('M' + (bytes(m).hex() or '-'))
        raw.append(('msg', bytes(m)))
    return out, raw
