"""C11 correspondence + search: real timeout_after/timeout_at/ignore_after/ignore_at on the
virtual-time loop vs the Lean semantics (drv_c11), full trace compared; the property oracle
(clauses O1-O5, written from the property text) runs on every implementation trace."""
import os
import random
from multiprocessing import Pool

from harness import timeouts as T
from harness.base import Results, corpus_lines

RULE = ('case = timeout program (sleep/seq/try-except/raise/timeout block in the 4 forms x '
        'context-manager|coroutine form) run as a task from virtual time 0 followed by a long '
        'follow-on sleep; exhaustive family: <=3 blocks in every nesting/sibling shape x '
        'raise|ignore x deadline orders (inner<outer, outer<inner, equal, zero, past) x catch '
        'placement x body length; plus seeded random programs of depth<=4 (normal and tie-prone '
        'time grids). non-trivial = at least 2 blocks; distinct = distinct serialised program')

_impl = None


def _init(repo):
    global _impl
    _impl = T.Impl(repo)


def oracle(p, o, body_alone=None):
    """Property clauses checked on the implementation's own trace. Returns list of (key, why)."""
    bad = []
    if o['res'] in ('Deadlock', 'Livelock'):
        return [('c11:hang', f'program never finishes: {o["res"]}')]
    # O1 nothing left armed / no late cancellation
    if o['dl'] != 0 or o['armed'] or o['armed_after']:
        bad.append(('c11:timer-left-armed',
                    f'after all blocks exited: {o["dl"]} deadlines on the task, timer armed={o["armed"]}/{o["armed_after"]}'))
    if o['stray']:
        bad.append(('c11:late-cancel', f'follow-on code was hit by {o["stray"]}'))
    # O2/O3 per block exit
    for (d, r, x, t, entered) in o['evs']:
        if x == 1:
            if t < d:
                bad.append(('c11:fires-early', f'block with deadline {d} reported expiry at {t}'))
            if r not in ('T', 'ok'):
                bad.append(('c11:expired-wrong-exception',
                            f'expired block (deadline {d}) left with {r}'))
        if r == 'X' and x == 1:
            bad.append(('c11:inner-reports-expiry',
                        f'block (deadline {d}) saw TimeoutCancellationError but reports expired'))
        if r == 'T' and x == 0 and not T.has_try(p) and not _raises_T(p):
            bad.append(('c11:timeout-not-attributed',
                        f'block (deadline {d}) raised TaskTimeout without expired set'))
    # O5 interrupted at the deadline: without handlers no block outlives max(entry, deadline)
    if not T.has_try(p):
        for (d, r, x, t, entered) in o['evs']:
            if t > max(entered, d):
                bad.append(('c11:runs-past-deadline',
                            f'block entered at {entered} with deadline {d} still running at {t}'))
    # O4 early finish unaffected (metamorphic: the body alone)
    if body_alone is not None and p[0] == 'block' and p[5] < 2:
        d = p[3]           # entered at 0: relative and absolute deadlines coincide
        if body_alone['res'] not in ('Deadlock', 'Livelock') and body_alone['t'] < d:
            # an inner TaskTimeout nobody handled is *specified* to surface as
            # UncaughtTimeoutError in the enclosing block
            # (a hand-raised TaskTimeout that belongs to no block passes through as it is)
            want = ('T', 'U') if body_alone['res'] == 'T' else (body_alone['res'],)
            if o['res'] not in want or o['t'] != body_alone['t']:
                bad.append(('c11:early-finish-affected',
                            f'body alone ends {body_alone["res"]}@{body_alone["t"]} before the '
                            f'deadline {d}, under the block it ends {o["res"]}@{o["t"]}'))
            elif o['evs'] and o['evs'][-1][2] == 1:
                bad.append(('c11:early-finish-affected', 'expired set though body finished early'))
    return bad


def _raises_T(p):
    t = p[0]
    if t == 'raise':
        return p[1] == 'T'
    if t == 'seq':
        return _raises_T(p[1]) or _raises_T(p[2])
    if t == 'block':
        return _raises_T(p[4])
    if t == 'try':
        return _raises_T(p[2]) or _raises_T(p[3])
    return False


def _work(progs):
    out = []
    for p in progs:
        o = _impl.run(p)
        alone = _impl.run(p[4], follow_on=False) if p[0] == 'block' else None
        out.append((o, alone))
    return out


def run_impl(ctx, progs):
    if len(progs) < 3000:
        _init(ctx.repo)
        return _work(progs)
    nproc = min(16, os.cpu_count() or 1)
    size = max(500, len(progs) // (nproc * 4))
    jobs = [progs[i:i + size] for i in range(0, len(progs), size)]
    with Pool(nproc, initializer=_init, initargs=(ctx.repo,)) as pool:
        parts = pool.map(_work, jobs)
    return [x for part in parts for x in part]


def evaluate(ctx, progs, res):
    obs = run_impl(ctx, progs)
    model = ctx.model([T.model_line(p, None) for p in progs])
    for i, (p, (o, alone)) in enumerate(zip(progs, obs)):
        got = T.fmt_obs(o)
        case = {'program': T.ser_plain(p), 'forms': _forms(p), 'readable': T.show(p), 'cancel': None}
        for key, why in oracle(p, o, alone):
            res.violation(key, case, why, impl=got)
        if model is not None:
            want = T.align_model(model[i], o)
            if want != got:
                res.disagreement(case, got, want)
        res.count('outcome_' + o['res'])
        res.count('expired_blocks', sum(1 for e in o.get('evs', []) if e[2] == 1))
        res.count('tce_exits', sum(1 for e in o.get('evs', []) if e[1] == 'X'))
        res.count('uncaught_exits', sum(1 for e in o.get('evs', []) if e[1] == 'U'))
        if T.n_blocks(p) >= 2:
            res.nontrivial(T.ser_plain(p) + _forms(p))
        if i < 3:
            res.sample({'program': T.show(p), 'impl': got})
    res['evaluations'] += len(progs)


def _forms(p):
    t = p[0]
    if t == 'seq':
        return _forms(p[1]) + _forms(p[2])
    if t == 'block':
        return str(p[5]) + _forms(p[4])
    if t == 'try':
        return _forms(p[2]) + _forms(p[3])
    return ''


def parse_prog(text, forms=''):
    """inverse of T.ser (forms: one digit per block in pre-order, default 0)"""
    toks = text.split()
    fi = [0]

    def go(i):
        t = toks[i]
        if t == 'skip':
            return ('skip',), i + 1
        if t == 'sleep':
            return ('sleep', int(toks[i + 1])), i + 2
        if t == 'raise':
            return ('raise', toks[i + 1]), i + 2
        if t == 'seq':
            a, j = go(i + 1)
            b, k = go(j)
            return ('seq', a, b), k
        if t == 'block':
            f = int(forms[fi[0]]) if fi[0] < len(forms) else 0
            fi[0] += 1
            body, j = go(i + 4)
            return ('block', toks[i + 1] == '1', toks[i + 2] == '1', int(toks[i + 3]), body, f), j
        if t == 'try':
            n = int(toks[i + 1])
            cs = toks[i + 2:i + 2 + n]
            b, j = go(i + 2 + n)
            h, k = go(j)
            return ('try', cs, b, h), k
        raise ValueError(text)
    p, _ = go(0)
    return p


def run(ctx):
    res = Results()
    rng = ctx.rng
    corp = [parse_prog(*(ln.split('|') + [''])[:2]) for ln in corpus_lines(ctx.verif, 'C11')]
    if corp:
        evaluate(ctx, corp, res)
    res['scopes']['corpus'] = len(corp)
    shapes = T.enum_shapes()
    if not ctx.deep:
        # quick: a seeded third of the exhaustive family (all of it in thorough)
        shapes = [s for i, s in enumerate(shapes) if (i + ctx.seed) % 2 == 0]
    evaluate(ctx, shapes, res)
    res['scopes']['enumerated_shapes'] = len(shapes)
    n = (400000 if ctx.tier == 'thorough' else 60000) if ctx.deep else 8000
    progs = [T.gen(rng, 4, tie_prone=(i % 3 == 0)) for i in range(n)]
    evaluate(ctx, progs, res)
    res['scopes']['generated'] = n
    return res.finish(RULE, exhaustive=ctx.deep)


def replay(ctx, case):
    if isinstance(case.get('case'), dict):
        case = case['case']
    res = Results()
    evaluate(ctx, [parse_prog(case['program'], case.get('forms', ''))], res)
    return res.finish('replay of one recorded case')
