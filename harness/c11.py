"""C11 correspondence + search: real timeout_after/timeout_at/ignore_after/ignore_at on the
virtual-time loop vs the Lean semantics (drv_c11), full trace compared; the property oracle
(clauses O1-O5, written from the property text) runs on every implementation trace."""
import os
import random
from multiprocessing import Pool

from harness import timeouts as T
from harness.base import Results, corpus_lines

RULE = ('case = timeout program (sleep/seq/try-except/raise/timeout block in the 4 forms x '
        'context-manager|coroutine form, created at entry or earlier, or (context manager) made by another task than the one that enters it; every fourth random program '
        'also catches / raises CancelledError or TimeoutCancellationError; a further family has '
        'task groups inside) run as a task from virtual time 0 followed, in the same task, by a '
        'long follow-on sleep; exhaustive family: <=3 blocks in every nesting/sibling shape x '
        'raise|ignore x deadline orders (inner<outer, outer<inner, equal, zero, past) x catch '
        'placement x body length; plus seeded random programs of depth<=4 (normal and tie-prone '
        'time grids). non-trivial = at least 2 blocks; distinct = distinct serialised program')

_impl = None


def _init(repo):
    global _impl
    _impl = T.Impl(repo)


def _inside(e, outer):
    return any(q is outer for q in e['parents'])


def oracle(p, o, body_alone=None):
    """Property clauses checked on the implementation's own trace (public observables only).
    Returns list of (key, why)."""
    bad = []
    if o['res'] in ('Deadlock', 'Livelock'):
        return [('c11:hang', f'program never finishes: {o["res"]}')]
    blocks = [e for e in o['evs'] if e['kind'] == 'block']
    # O1 nothing left armed: no timer created by the task survives its blocks ...
    if o['armed'] or o['armed_after']:
        bad.append(('c11:timer-left-armed',
                    f'after all blocks exited {o["armed"]} timer(s) set by the task are still '
                    f'scheduled on the loop ({o["armed_after"]} after the follow-on code)'))
    # ... and no cancellation caused by a deadline is delivered once the blocks have exited:
    # neither to the follow-on code of the task,
    if o['stray']:
        bad.append(('c11:late-cancel',
                    f'follow-on code of the task (after every block had exited at {o["t"]}) was '
                    f'hit by {o["stray"]} at {o.get("stray_t")}'))
    # O6 ... nor out of the program itself: nobody cancelled the task from outside and the program
    # raises no CancelledError of its own, so a cancellation that reaches the top level was
    # caused by a deadline and was delivered outside (or not converted by) its block
    if o['res'] in ('C', 'X') and not T.raises(p, ('C', 'X')):
        bad.append(('c11:late-cancel',
                    f'the task ended with {"CancelledError" if o["res"] == "C" else "TimeoutCancellationError"} '
                    f'at {o["t"]} although nobody cancelled it: a deadline\'s cancellation escaped its block'))
    quiet = T.nocatch(p) and not T.has_group(p)
    for e in blocks:
        d, r, x, t = e['d'], e['r'], e['x'], e['t']
        # O2 expiry: not earlier than the deadline; TaskTimeout for the timeout forms, a quiet end
        # for the ignore forms - and only for them
        if x == 1:
            if t < d:
                bad.append(('c11:fires-early', f'block with deadline {d} reported expiry at {t}'))
            want = 'ok' if e['ig'] else 'T'
            if r != want:
                bad.append(('c11:expired-wrong-exception',
                            f'expired {"ignore" if e["ig"] else "timeout"} block (deadline {d}) '
                            f'left with {r}, expected {want}'))
        if r == 'X' and x == 1:
            bad.append(('c11:inner-reports-expiry',
                        f'block (deadline {d}) saw TimeoutCancellationError but reports expired'))
        if r == 'T' and x == 0 and not T.has_try(p) and not T.raises(p, ('T',)):
            bad.append(('c11:timeout-not-attributed',
                        f'block (deadline {d}) raised TaskTimeout without expired set'))
        # return values: the body's value comes out unchanged; an expired ignore block yields
        # the caller-supplied timeout result
        if e['val'] != 'ok':
            bad.append((f'c11:{e["val"]}',
                        f'coroutine-form block (deadline {d}) returned a wrong value: {e["val"]}'))
        # O5 interrupted at the deadline: where no handler can swallow the cancellation, no block
        # outlives max(entry, deadline)
        if quiet and t > max(e['entered'], d):
            bad.append(('c11:runs-past-deadline',
                        f'block entered at {e["entered"]} with deadline {d} still running at {t}'))
    # O3 nesting: the block whose deadline passed reports; blocks inside it (their own deadline
    # not yet reached) leave at that instant with TimeoutCancellationError, not expired
    for outer in blocks:
        if outer['x'] != 1 or T.has_try(outer['node']) or T.raises(outer['node'], ('C', 'X', 'T', 'O')):
            continue
        for e in blocks:
            if _inside(e, outer) and e['t'] == outer['t'] and e['r'] != 'ok' and e['t'] < e['d']:
                if e['r'] != 'X' or e['x'] == 1:
                    bad.append(('c11:inner-not-tce',
                                f'deadline {outer["d"]} of an enclosing block fired at {outer["t"]}: '
                                f'the block inside (deadline {e["d"]}) left with {e["r"]} '
                                f'expired={e["x"]} instead of TimeoutCancellationError'))
    if body_alone is not None and p[0] == 'block' and p[5] < 2 and \
            body_alone['res'] not in ('Deadlock', 'Livelock'):
        d = p[3]           # entered at 0: relative and absolute deadlines coincide
        last = blocks[-1] if blocks else None
        # O4 early finish unaffected (metamorphic: the body alone)
        if body_alone['t'] < d:
            # an inner TaskTimeout nobody handled is *specified* to surface as
            # UncaughtTimeoutError in the enclosing block
            # (a hand-raised TaskTimeout that belongs to no block passes through as it is)
            want = ('T', 'U') if body_alone['res'] == 'T' else (body_alone['res'],)
            if o['res'] not in want or o['t'] != body_alone['t']:
                bad.append(('c11:early-finish-affected',
                            f'body alone ends {body_alone["res"]}@{body_alone["t"]} before the '
                            f'deadline {d}, under the block it ends {o["res"]}@{o["t"]}'))
            elif last is not None and last['x'] == 1:
                bad.append(('c11:early-finish-affected', 'expired set though body finished early'))
            elif o['res'] == 'ok' and o.get('value') != body_alone.get('value'):
                bad.append(('c11:body-value-changed',
                            f'body alone returns {body_alone.get("value")!r}, under the block '
                            f'{o.get("value")!r}'))
        # O7 still running at the deadline (metamorphic): a body that on its own runs strictly
        # beyond max(entry, deadline) is interrupted then: the block ends at that instant,
        # expired, with TaskTimeout / quietly
        elif body_alone['t'] > max(0, d) and T.nocatch(p[4]) and not T.has_group(p) \
                and last is not None:
            want = 'ok' if p[1] else 'T'
            if last['t'] != max(0, d) or last['r'] != want or last['x'] == 0:
                bad.append(('c11:not-interrupted-at-deadline',
                            f'body alone runs until {body_alone["t"]}, beyond the deadline {d}; '
                            f'the block ended {last["r"]}@{last["t"]} expired={last["x"]} instead '
                            f'of {want}@{max(0, d)} expired'))
    return bad


def _work(progs):
    out = []
    for p in progs:
        o = _impl.run(p)
        alone = _impl.run(p[4], follow_on=False) if p[0] == 'block' else None
        out.append((o, alone))
    return out


def run_impl(ctx, progs):
    if len(progs) < 3000:
        _init(ctx.repo)
        return _work(progs)
    nproc = min(16, os.cpu_count() or 1)
    size = max(500, len(progs) // (nproc * 4))
    jobs = [progs[i:i + size] for i in range(0, len(progs), size)]
    with Pool(nproc, initializer=_init, initargs=(ctx.repo,)) as pool:
        parts = pool.map(_work, jobs)
    return [x for part in parts for x in part]


def evaluate(ctx, progs, res):
    obs = run_impl(ctx, progs)
    model = ctx.model([T.model_line(p, None) for p in progs])
    for i, (p, (o, alone)) in enumerate(zip(progs, obs)):
        got = T.fmt_obs(o)
        case = {'program': T.ser_plain(p), 'forms': _forms(p), 'readable': T.show(p), 'cancel': None}
        for key, why in oracle(p, o, alone):
            res.violation(key, case, why, impl=got)
        if model is not None:
            want = T.align_model(model[i], o)
            if want != got:
                res.disagreement(case, got, want)
        res.count('outcome_' + o['res'])
        res.count('expired_blocks', sum(1 for e in o.get('evs', []) if e.get('x') == 1))
        res.count('tce_exits', sum(1 for e in o.get('evs', []) if e.get('r') == 'X'))
        res.count('uncaught_exits', sum(1 for e in o.get('evs', []) if e.get('r') == 'U'))
        if T.n_blocks(p) >= 2:
            res.nontrivial(T.ser_plain(p) + _forms(p))
        if i < 3:
            res.sample({'program': T.show(p), 'impl': got})
    res['evaluations'] += len(progs)


def _forms(p):
    t = p[0]
    if t == 'seq':
        return _forms(p[1]) + _forms(p[2])
    if t == 'block':
        return str(p[5]) + _forms(p[4])
    if t == 'try':
        return _forms(p[2]) + _forms(p[3])
    if t == 'group':
        return _forms(p[2])
    return ''


def parse_prog(text, forms=''):
    """inverse of T.ser (forms: one digit per block in pre-order, default 0)"""
    toks = text.split()
    fi = [0]

    def go(i):
        t = toks[i]
        if t == 'skip':
            return ('skip',), i + 1
        if t == 'sleep':
            return ('sleep', int(toks[i + 1])), i + 2
        if t == 'raise':
            return ('raise', toks[i + 1]), i + 2
        if t == 'seq':
            a, j = go(i + 1)
            b, k = go(j)
            return ('seq', a, b), k
        if t == 'block':
            f = int(forms[fi[0]]) if fi[0] < len(forms) else 0
            fi[0] += 1
            body, j = go(i + 4)
            return ('block', toks[i + 1] == '1', toks[i + 2] == '1', int(toks[i + 3]), body, f), j
        if t == 'try':
            n = int(toks[i + 1])
            cs = toks[i + 2:i + 2 + n]
            b, j = go(i + 2 + n)
            h, k = go(j)
            return ('try', cs, b, h), k
        if t in ('group', 'groupany'):
            n = int(toks[i + 1])
            nums = [int(x) for x in toks[i + 2:i + 2 + 2 * n]]
            b, j = go(i + 2 + 2 * n)
            ms = tuple(zip(nums[0::2], nums[1::2]))
            return (('group', ms, b, 'any') if t == 'groupany' else ('group', ms, b)), j
        raise ValueError(text)
    p, _ = go(0)
    return p


def run(ctx):
    res = Results()
    rng = ctx.rng
    corp = [parse_prog(*(ln.split('|') + [''])[:2]) for ln in corpus_lines(ctx.verif, 'C11')]
    if corp:
        evaluate(ctx, corp, res)
    res['scopes']['corpus'] = len(corp)
    shapes = T.enum_shapes()
    if not ctx.deep:
        # quick: a seeded third of the exhaustive family (all of it in thorough)
        shapes = [s for i, s in enumerate(shapes) if (i + ctx.seed) % 2 == 0]
    evaluate(ctx, shapes, res)
    res['scopes']['enumerated_shapes'] = len(shapes)
    n = (400000 if ctx.tier == "thorough" else 40000) if ctx.deep else 8000
    # every fourth program also catches / raises the cancellation family itself (outside NoCatch)
    progs = [T.gen(rng, 4, tie_prone=(i % 3 == 0), cx=(i % 4 == 3)) for i in range(n)]
    evaluate(ctx, progs, res)
    res['scopes']['generated'] = n
    res['scopes']['generated_catching_cancellation'] = sum(1 for q in progs if not T.nocatch(q))
    # timeout programs with task groups in them (clean-ups that await while a cancellation is in
    # flight): nothing left armed, no stray cancellation, the model's trace
    ng = (20000 if ctx.tier == "thorough" else 2500) if ctx.deep else 500
    gprogs = []
    while len(gprogs) < ng:
        q = T.gen_group(rng, 4)
        if T.has_group(q):
            gprogs.append(q)
    evaluate(ctx, gprogs, res)
    res['scopes']['generated_with_task_groups'] = ng
    return res.finish(RULE, exhaustive=ctx.deep)


def replay(ctx, case):
    if isinstance(case.get('case'), dict):
        case = case['case']
    res = Results()
    evaluate(ctx, [parse_prog(case['program'], case.get('forms', ''))], res)
    return res.finish('replay of one recorded case')
