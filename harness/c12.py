"""C12 correspondence + search: task.cancel() from outside at every instant of a timeout
program's life that is not a deadline (programs use even times, cancels come at odd instants);
real curio timeouts on the virtual loop vs the Lean semantics, and the property oracle: a
delivered cancellation ends the task cancelled, with all timers disarmed."""
import os
from multiprocessing import Pool

from harness import timeouts as T
from harness.base import Results, corpus_lines
from harness.c11 import parse_prog, _forms

RULE = ('case = (timeout program, external cancel instant); for every program (enumerated '
        'nesting family + seeded random programs, normal and tie-prone grids) task.cancel() is '
        'injected at EVERY odd virtual instant of its lifetime (deadlines and wake-ups are even, '
        'so the instant never coincides with a deadline); non-trivial = cancel delivered while '
        'the task is alive and at least one inner timeout had already expired or >=2 blocks; '
        'distinct = distinct (program, instant)')

_impl = None


def _init(repo):
    global _impl
    _impl = T.Impl(repo)


def oracle(p, c, o):
    bad = []
    if o['res'] in ('Deadlock', 'Livelock'):
        return [('c12:hang', f'program never finishes: {o["res"]}')]
    if o['deliv']:
        if o['res'] != 'C' or not o['task_cancelled']:
            names = {'T': 'TaskTimeout', 'X': 'TimeoutCancellationError',
                     'U': 'UncaughtTimeoutError', 'ok': 'normal completion', 'O': 'another exception'}
            kind = {'U': 'replaced-by-uncaught', 'T': 'replaced-by-tasktimeout',
                    'X': 'replaced-by-tce', 'ok': 'swallowed'}.get(o['res'], 'replaced')
            bad.append((f'c12:cancel-{kind}',
                        f'task.cancel() at {c} was delivered but the task ended with '
                        f'{names.get(o["res"], o["res"])} instead of being cancelled'))
    if o['dl'] != 0 or o['armed'] or o['armed_after']:
        bad.append(('c12:timer-left-armed',
                    f'after cancellation: {o["dl"]} deadlines on the task, timer armed={o["armed"]}/{o["armed_after"]}'))
    if o['stray']:
        bad.append(('c12:late-cancel', f'follow-on code was hit by {o["stray"]}'))
    return bad


def _work(progs):
    out = []
    for p in progs:
        base = _impl.run(p, follow_on=False)
        end = base['t'] if base['res'] not in ('Deadlock', 'Livelock') else 0
        runs = []
        for c in range(1, min(end, 120) + 2, 2):
            runs.append((c, _impl.run(p, cancel=c)))
        out.append(runs)
    return out


def run_impl(ctx, progs):
    if len(progs) < 400:
        _init(ctx.repo)
        return _work(progs)
    nproc = min(16, os.cpu_count() or 1)
    size = max(100, len(progs) // (nproc * 4))
    jobs = [progs[i:i + size] for i in range(0, len(progs), size)]
    with Pool(nproc, initializer=_init, initargs=(ctx.repo,)) as pool:
        parts = pool.map(_work, jobs)
    return [x for part in parts for x in part]


def evaluate(ctx, progs, res, only_cancel=None):
    allruns = run_impl(ctx, progs)
    flat = [(p, c, o) for p, runs in zip(progs, allruns) for (c, o) in runs
            if only_cancel is None or c == only_cancel]
    model = ctx.model([T.model_line(p, c) for p, c, _o in flat])
    for i, (p, c, o) in enumerate(flat):
        got = T.fmt_obs(o)
        case = {'program': T.ser(p), 'forms': _forms(p), 'readable': T.show(p), 'cancel': c}
        for key, why in oracle(p, c, o):
            res.violation(key, case, why, impl=got)
        if model is not None:
            want = T.align_model(model[i], o)
            if want != got:
                res.disagreement(case, got, want)
        res.count('delivered', o.get('deliv', 0))
        res.count('outcome_' + o['res'])
        expired_before = any(e[2] == 1 for e in o.get('evs', []))
        res.count('delivered_after_inner_expiry', int(bool(o.get('deliv')) and expired_before))
        if o.get('deliv') and (expired_before or T.n_blocks(p) >= 2):
            res.nontrivial((T.ser(p) + _forms(p), c))
        if o.get('deliv') and expired_before:
            res.sample({'program': T.show(p), 'cancel_at': c, 'impl': got})
    res['evaluations'] += len(flat)


def run(ctx):
    res = Results()
    rng = ctx.rng
    corp = []
    for ln in corpus_lines(ctx.verif, 'C12'):
        c, rest = ln.split(' ', 1)
        corp.append((int(c), parse_prog(*(rest.split('|') + [''])[:2])))
    for c, p in corp:
        evaluate(ctx, [p], res, only_cancel=c)
    res['scopes']['corpus'] = len(corp)
    shapes = T.enum_shapes()
    if not ctx.deep:
        shapes = [s for i, s in enumerate(shapes) if (i + ctx.seed) % 6 == 0]
    evaluate(ctx, shapes, res)
    res['scopes']['enumerated_shapes'] = len(shapes)
    n = 8000 if ctx.deep else 1500
    progs = [T.gen(rng, 4, tie_prone=(i % 3 == 0)) for i in range(n)]
    evaluate(ctx, progs, res)
    res['scopes']['generated_programs'] = n
    return res.finish(RULE, exhaustive=ctx.deep)


def replay(ctx, case):
    if isinstance(case.get('case'), dict):
        case = case['case']
    res = Results()
    evaluate(ctx, [parse_prog(case['program'], case.get('forms', ''))], res,
             only_cancel=case.get('cancel'))
    return res.finish('replay of one recorded case')
