"""C12 correspondence + search: task.cancel() from outside at every instant of a timeout
program's life that is not a deadline (programs use even times, cancels come at odd instants);
real curio timeouts on the virtual loop vs the Lean semantics, and the property oracle: a
delivered cancellation ends the task cancelled, with all timers disarmed."""
import os
from multiprocessing import Pool

from harness import timeouts as T
from harness.base import Results, corpus_lines
from harness.c11 import parse_prog, _forms

RULE = ('case = (timeout program, external cancel instant), plus (task-group program inside '
        'timeouts with earlier handled inner timeouts, members with slow reactions / daemons / own '
        'handled timeouts, cancel instant) judged by the oracle only; for every program (enumerated '
        'nesting family + seeded random programs, normal and tie-prone grids) task.cancel() is '
        'injected at EVERY odd virtual instant of its lifetime (deadlines and wake-ups are even, '
        'so the instant never coincides with a deadline); non-trivial = cancel delivered while '
        'the task is alive and at least one inner timeout had already expired or >=2 blocks; '
        'distinct = distinct (program, instant)')

_impl = None


def _init(repo):
    global _impl
    _impl = T.Impl(repo)


def oracle(p, c, o):
    bad = []
    if o['res'] in ('Deadlock', 'Livelock'):
        return [('c12:hang', f'program never finishes: {o["res"]}')]
    if o['deliv']:
        if o['res'] != 'C' or not o['task_cancelled']:
            names = {'T': 'TaskTimeout', 'X': 'TimeoutCancellationError',
                     'U': 'UncaughtTimeoutError', 'ok': 'normal completion', 'O': 'another exception'}
            kind = {'U': 'replaced-by-uncaught', 'T': 'replaced-by-tasktimeout',
                    'X': 'replaced-by-tce', 'ok': 'swallowed'}.get(o['res'], 'replaced')
            bad.append((f'c12:cancel-{kind}',
                        f'task.cancel() at {c} was delivered but the task ended with '
                        f'{names.get(o["res"], o["res"])} instead of being cancelled'))
    # the clean-up the timeout blocks promise still takes place: no timer set by the task stays
    # on the loop, nothing hits the code the task runs afterwards (its finally-clause)
    if o['armed'] or o['armed_after']:
        bad.append(('c12:timer-left-armed',
                    f'after the task left all blocks {o["armed"]} timer(s) it set are still '
                    f'scheduled ({o["armed_after"]} after its follow-on code)'))
    if o['stray']:
        bad.append(('c12:late-cancel',
                    f'follow-on code of the task was hit by {o["stray"]} at {o.get("stray_t")}'))
    return bad


def _work(progs):
    out = []
    for p in progs:
        base = _impl.run(p, follow_on=False)
        end = base['t'] if base['res'] not in ('Deadlock', 'Livelock') else 0
        runs = []
        for c in range(1, min(end, 120) + 2, 2):
            runs.append((c, _impl.run(p, cancel=c)))
        out.append(runs)
    return out


def run_impl(ctx, progs):
    if len(progs) < 400:
        _init(ctx.repo)
        return _work(progs)
    nproc = min(16, os.cpu_count() or 1)
    size = max(100, len(progs) // (nproc * 4))
    jobs = [progs[i:i + size] for i in range(0, len(progs), size)]
    with Pool(nproc, initializer=_init, initargs=(ctx.repo,)) as pool:
        parts = pool.map(_work, jobs)
    return [x for part in parts for x in part]


def evaluate(ctx, progs, res, only_cancel=None):
    allruns = run_impl(ctx, progs)
    flat = [(p, c, o) for p, runs in zip(progs, allruns) for (c, o) in runs
            if only_cancel is None or c == only_cancel]
    model = ctx.model([T.model_line(p, c) for p, c, _o in flat])
    for i, (p, c, o) in enumerate(flat):
        got = T.fmt_obs(o)
        case = {'program': T.ser_plain(p), 'forms': _forms(p), 'readable': T.show(p), 'cancel': c}
        for key, why in oracle(p, c, o):
            res.violation(key, case, why, impl=got)
        if model is not None:
            want = T.align_model(model[i], o)
            if want != got:
                res.disagreement(case, got, want)
        res.count('delivered', o.get('deliv', 0))
        res.count('outcome_' + o['res'])
        expired_before = any(e.get('x') == 1 for e in o.get('evs', []))
        res.count('delivered_after_inner_expiry', int(bool(o.get('deliv')) and expired_before))
        if o.get('deliv') and (expired_before or T.n_blocks(p) >= 2):
            res.nontrivial((T.ser_plain(p) + _forms(p), c))
        if o.get('deliv') and expired_before:
            res.sample({'program': T.show(p), 'cancel_at': c, 'impl': got})
    res['evaluations'] += len(flat)


# ---------------------------------------------------------------- task groups inside timeouts
def gen_group_case(r):
    """(outer far timeout?, handled inner timeout first?, members [(dur, react, daemon,
    had_timeout)], body duration, policy)"""
    members = [(r.choice([4, 8, 20, 60]), r.choice([0, 0, 2, 6]), r.random() < 0.3,
                r.random() < 0.4) for _ in range(r.randint(1, 3))]
    return {'outer': r.choice([None, 'timeout', 'ignore']), 'prelude': r.random() < 0.6,
            'members': members, 'body': r.choice([0, 2, 6, 30]),
            'policy': r.choice(['all', 'any', 'object'])}


def run_group_case(impl, case, cancel):
    """cancel: odd virtual instant of task.cancel(), or None"""
    import asyncio
    from harness import vloop
    c = impl.curio
    WAIT = {'all': all, 'any': any, 'object': object}
    obs = {}

    async def member(dur, react, had_timeout):
        if had_timeout:
            async with c.ignore_after(0):
                await c.sleep(2)
        try:
            await c.sleep(dur)
        except c.CancelledError:
            if react:
                await c.sleep(react)
            raise
        return dur

    async def victim(tasks):
        async def inner():
            if case['prelude']:
                # an inner timeout that expires and is handled before the group is entered
                try:
                    async with c.timeout_after(2):
                        await c.sleep(100)
                except c.TaskTimeout:
                    pass
            async with c.TaskGroup(wait=WAIT[case['policy']]) as g:
                for (dur, react, daemon, had) in case['members']:
                    tasks.append(await g.spawn(member(dur, react, had), daemon=daemon))
                await c.sleep(case['body'])
        if case['outer'] == 'timeout':
            async with c.timeout_after(5000):
                await inner()
        elif case['outer'] == 'ignore':
            async with c.ignore_after(5000):
                await inner()
        else:
            await inner()

    async def top():
        loop = asyncio.get_event_loop()
        tasks = []
        task = asyncio.ensure_future(victim(tasks))
        delivered = []
        if cancel is not None:
            def do_cancel():
                delivered.append(not task.done())
                # where is the task suspended right now? (classification of findings only)
                names, co = [], task.get_coro()
                while co is not None and hasattr(co, 'cr_code'):
                    names.append(co.cr_code.co_name)
                    co = co.cr_await
                obs['suspended_in'] = names
                obs['running_at_cancel'] = [not t.done() for t in tasks]
                task.cancel()
            loop.call_at(cancel, do_cancel)
        try:
            await task
            r = 'ok'
        except BaseException as e:
            r = impl.cls(e)
        obs['res'] = r
        obs['t'] = int(loop.time())
        obs['deliv'] = int(bool(delivered and delivered[0]))
        obs['task_cancelled'] = task.cancelled()
        obs['members_done'] = [t.done() for t in tasks]
        obs['members_cancelled'] = [t.done() and t.cancelled() for t in tasks]
        obs['dl'] = len(getattr(task, '_deadlines', []))
        obs['armed'] = int(any(not h.cancelled() and 'timeout_task' in repr(h)
                               for h in loop._scheduled))
        for t in tasks:
            t.cancel()
    try:
        vloop.run(top())
    except vloop.Deadlock:
        obs['res'] = 'Deadlock'
    except vloop.Livelock:
        obs['res'] = 'Livelock'
    return obs


def group_oracle(case, cancel, o):
    bad = []
    if o['res'] in ('Deadlock', 'Livelock'):
        return [('c12:group-hang', f'cancelled task inside a TaskGroup never finishes: {o["res"]}')]
    if o['deliv']:
        if o['res'] != 'C' or not o['task_cancelled']:
            bad.append(('c12:group-cancel-replaced',
                        f'task.cancel() at {cancel} while in a TaskGroup (inside timeouts) ended '
                        f'with {o["res"]} instead of being cancelled'))
        if not all(o['members_done']):
            key = 'c12:group-members-left'
            if '_cancel_tasks' in o.get('suspended_in', []):
                # the group had already started cancelling (member failure / policy stop) and
                # was awaiting those members when the external cancel came: F11
                key = 'c12:cancelled-while-join-awaits-cancelled-members'
            bad.append((key,
                        f'cancelled at {cancel}: the task ended but group members are still '
                        f'running {o["members_done"]}'))
        # the clean-up a group promises: every member still running when the cancellation
        # arrived is cancelled (not left to run to completion).  The group cancels in two
        # sweeps: non-daemonic members first (awaited), daemons afterwards - a daemon may
        # therefore legitimately finish by itself while the first sweep is being awaited.
        rac = o.get('running_at_cancel', [])
        start = 2 if case['prelude'] else 0
        nd_react = max([m[1] for m, run in zip(case['members'], rac) if run and not m[2]],
                       default=0)
        dm_react = max([m[1] for m, run in zip(case['members'], rac) if run and m[2]], default=0)
        in_sweep = '_cancel_tasks' in o.get('suspended_in', [])
        not_cancelled = []
        for i, (m, run, canc, dn) in enumerate(zip(case['members'], rac, o['members_cancelled'],
                                                   o['members_done'])):
            if run and dn and not canc:
                if m[2] and start + m[0] <= cancel + nd_react:
                    continue
                not_cancelled.append(i)
        if not_cancelled and not in_sweep:
            bad.append(('c12:group-members-not-cancelled',
                        f'cancelled at {cancel}: members {not_cancelled} were running then but '
                        f'were never cancelled (they ran to completion)'))
        # ... and the task ends as soon as the slowest reactions allow
        if o['res'] == 'C' and o['t'] > cancel + nd_react + dm_react and not in_sweep:
            bad.append(('c12:group-cancel-not-prompt',
                        f'cancelled at {cancel}, slowest reactions {nd_react}+{dm_react}, but '
                        f'the task only ended at {o["t"]}'))
    if o['dl'] or o['armed']:
        bad.append(('c12:timer-left-armed', f'deadlines {o["dl"]} armed {o["armed"]} after the end'))
    return bad


def _group_work(args):
    repo, cases = args
    impl = T.Impl(repo)
    out = []
    for case in cases:
        base = run_group_case(impl, case, None)
        end = base.get('t', 0) if base['res'] not in ('Deadlock', 'Livelock') else 0
        runs = [(None, base)]
        for cc in range(1, min(end, 80) + 2, 2):
            runs.append((cc, run_group_case(impl, case, cc)))
        out.append(runs)
    return out


def evaluate_groups(ctx, cases, res):
    if len(cases) < 200:
        allruns = _group_work((ctx.repo, cases))
    else:
        nproc = min(16, os.cpu_count() or 1)
        size = max(50, len(cases) // (nproc * 3))
        jobs = [(ctx.repo, cases[i:i + size]) for i in range(0, len(cases), size)]
        with Pool(nproc) as pool:
            allruns = [x for part in pool.map(_group_work, jobs) for x in part]
    n = 0
    for case, runs in zip(cases, allruns):
        for cc, o in runs:
            n += 1
            cs = {'group_case': case, 'cancel': cc}
            for key, why in group_oracle(case, cc, o):
                res.violation(key, cs, why, impl=str(o))
            res.count('group_runs')
            res.count('group_cancel_delivered', o.get('deliv', 0))
            if o.get('deliv'):
                res.nontrivial(('group', str(case), cc))
    res['evaluations'] += n


def run(ctx):
    res = Results()
    rng = ctx.rng
    ng = (20000 if ctx.tier == 'thorough' else 4000) if ctx.deep else 500
    evaluate_groups(ctx, [gen_group_case(rng) for _ in range(ng)], res)
    res['scopes']['group_programs'] = ng
    corp = []
    for ln in corpus_lines(ctx.verif, 'C12'):
        c, rest = ln.split(' ', 1)
        corp.append((int(c), parse_prog(*(rest.split('|') + [''])[:2])))
    for c, p in corp:
        evaluate(ctx, [p], res, only_cancel=c)
    res['scopes']['corpus'] = len(corp)
    shapes = T.enum_shapes()
    if not ctx.deep:
        shapes = [s for i, s in enumerate(shapes) if (i + ctx.seed) % 6 == 0]
    evaluate(ctx, shapes, res)
    res['scopes']['enumerated_shapes'] = len(shapes)
    n = (40000 if ctx.tier == 'thorough' else 8000) if ctx.deep else 1500
    progs = [T.gen(rng, 4, tie_prone=(i % 3 == 0)) for i in range(n)]
    evaluate(ctx, progs, res)
    res['scopes']['generated_programs'] = n
    return res.finish(RULE, exhaustive=ctx.deep)


def replay(ctx, case):
    if isinstance(case.get('case'), dict):
        case = case['case']
    res = Results()
    if 'group_case' in case:
        impl = T.Impl(ctx.repo)
        o = run_group_case(impl, case['group_case'], case.get('cancel'))
        for key, why in group_oracle(case['group_case'], case.get('cancel'), o):
            res.violation(key, case, why, impl=str(o))
        res['evaluations'] += 1
        return res.finish('replay of one recorded group case')
    evaluate(ctx, [parse_prog(case['program'], case.get('forms', ''))], res,
             only_cancel=case.get('cancel'))
    return res.finish('replay of one recorded case')
