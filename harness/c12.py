"""C12 correspondence + search: task.cancel() from outside at every instant of a program's life
that is not a deadline; real curio timeouts and task groups on the virtual loop vs the Lean
semantics, and the property oracle: a delivered cancellation ends the task cancelled, with all
timers disarmed and every group member cancelled and awaited.

Families
  flat     timeout programs (enumerated nesting family + seeded random, normal and tie-prone
           grids; program times even, cancel at EVERY odd instant of the lifetime)   model + oracle
  groups   timeout programs with TaskGroup constructs of the model's language (wait=all, members
           sleeping with reaction delays; timeouts inside group bodies, groups inside timeouts,
           nested groups, joins under short handled timeouts); cancel one tick after every
           instant at which anything can happen in the uncancelled run            model + oracle
  groupx   the same with what the model does not have: wait=any/object, daemons, members with a
           handled timeout of their own, members that are joiners of a subgroup, explicit
           g.join()                                                                oracle only
  session  a task inside RPCSession.send_request / send_notification / send_batch (blocked in
           the transport write under max_send_delay, or waiting for the response under
           sent_request_timeout) and a request handler task (under processing_timeout, with and
           without an inner handled timeout) cancelled from outside               oracle only
"""
import asyncio
import json
import os
from multiprocessing import Pool

from harness import timeouts as T
from harness import vloop
from harness.base import Results, corpus_lines
from harness.c11 import parse_prog, _forms

RULE = ('case = (program, external cancel instant): timeout programs (cancel at every odd instant '
        'of the lifetime; deadlines and wake-ups are even), timeout programs with task groups of '
        'the model language and of the wider oracle-only language (cancel one tick after every '
        'instant at which a timer of the uncancelled run is due, and at six loop-iteration '
        'placements around the moment a member finishes by itself), and session tasks '
        '(send_request / send_notification / send_batch / request handler, with and without a '
        'history that lowered the concurrency target) cancelled at odd instants, the '
        'process_messages task cancelled around a handler\'s completion; non-trivial = cancel delivered while the task is alive and (an inner timeout '
        'had already expired or >=2 blocks or a group was active); distinct = distinct '
        '(program, instant)')

_impl = None

NAMES = {'T': 'TaskTimeout', 'X': 'TimeoutCancellationError', 'U': 'UncaughtTimeoutError',
         'ok': 'normal completion', 'O': 'another exception', 'C': 'CancelledError'}


def _init(repo):
    global _impl
    _impl = T.Impl(repo)


# ---------------------------------------------------------------- oracle (from the text)
def oracle(p, c, o):
    """`o`: observations of one run of `p` with task.cancel() at `c` (public observables and
    harness-owned state only)."""
    bad = []
    if o['res'] in ('Deadlock', 'Livelock'):
        return [('c12:hang', f'program never finishes: {o["res"]}')]
    evs = o['evs']
    groups = [e for e in evs if e['kind'] == 'group']
    blocks = [e for e in evs if e['kind'] == 'block']
    lost_to_deadline = False
    if o['deliv']:
        if o['res'] != 'C' or not o['task_cancelled']:
            kind = {'U': 'replaced-by-uncaught', 'T': 'replaced-by-tasktimeout',
                    'X': 'replaced-by-tce', 'ok': 'swallowed'}.get(o['res'], 'replaced')
            key = f'c12:cancel-{kind}'
            # F33: while a group's clean-up is awaiting its members' reactions, a deadline of an
            # enclosing block passes / has passed: that block reports the timeout after the cancel
            if groups and any((e['x'] == 1 or (e['x'] == '?' and e['r'] == 'T')) and e['t'] >= c
                              for e in blocks):
                key = 'c12:cancel-lost-to-deadline-during-group-cleanup'
                lost_to_deadline = True
            bad.append((key,
                        f'task.cancel() at {c} was delivered but the task ended with '
                        f'{NAMES.get(o["res"], o["res"])} instead of being cancelled'))
        # the clean-up a group promises: every member is cancelled and awaited
        budget = T.total_react(p)
        for g in groups:
            # the instant at which the cancellation reached the task that runs this group: the
            # external cancel for the program's own groups, for a group run by a member (a
            # subgroup) the instant its parent group cancelled that member
            hit = c if g['owned_by_program'] else (g['owner_member'] or {}).get('cancel_seen')
            if hit is None or not g['entered'] <= hit <= g['t'] or lost_to_deadline:
                # (F33: the clean-up was cut short by the deadline's cancellation - reported above)
                continue
            ms = g['members']
            # the group had already begun stopping by itself (policy met, body or member failure,
            # an enclosing timeout) when the cancel came: one of its members had been cancelled
            # by it before (cancel requests on the harness's own member tasks)
            # (order of the requests, not their times: both can fall into the same instant)
            hit_seq = o.get('cancel_seq') if g['owned_by_program'] else g['owner_member']['cancel_seq']
            stopping = any(m['cancel_seq'] is not None and m['cancel_seq'] < hit_seq for m in ms)
            # members still running when the group was left
            left = [i for i, m in enumerate(ms)
                    if m['finished'] is None or m['finished'] > g['t']]
            if left:
                key = 'c12:cancelled-while-join-awaits-cancelled-members' if stopping \
                    else 'c12:group-members-left'
                bad.append((key, f'cancelled at {c} (reaching this group at {hit}): the group was '
                                 f'left at {g["t"]} but its members {left} are still running'))
            free = [i for i, m in enumerate(ms)
                    if m['done'] and not m['cancelled'] and m['cancel_seen'] is None
                    and m['finished'] is not None and m['finished'] > hit + budget]
            if free and not stopping:
                bad.append(('c12:group-members-not-cancelled',
                            f'cancelled at {c}: members {free} were running then, were never '
                            f'cancelled and ran to completion long after every reaction time '
                            f'({budget}) had passed'))
        if groups and o['res'] == 'C' and o['t'] > c + budget:
            bad.append(('c12:group-cancel-not-prompt',
                        f'cancelled at {c}, all reaction times together {budget}, but the task '
                        f'only ended at {o["t"]}'))
    # the clean-up the timeout blocks promise still takes place: no timer set by the task stays
    # on the loop, nothing hits the code the task runs afterwards (its finally-clause)
    if o['armed'] or o['armed_after']:
        bad.append(('c12:timer-left-armed',
                    f'after the task left all blocks {o["armed"]} timer(s) it set are still '
                    f'scheduled ({o["armed_after"]} after its follow-on code)'))
    if o['stray']:
        bad.append(('c12:late-cancel',
                    f'follow-on code of the task was hit by {o["stray"]} at {o.get("stray_t")}'))
    return bad


# ---------------------------------------------------------------- running programs
HOOKS = ('pre', 'last', 'soon', 'done', 'done+1', 'done+2')


def cancel_instants(p, base, mode):
    if base['res'] in ('Deadlock', 'Livelock'):
        return []
    end = base['t']
    if mode == 'odd':
        return list(range(1, min(end, 120) + 2, 2))
    # one tick after every instant at which something can happen (a timer of the run is due)
    cs = sorted({w + 1 for w in base['whens'] if 0 <= w < end} | {1})[:40]
    # ... and, at loop-iteration granularity, around the moment a group member finishes by itself
    # (the instant is the same for all of them; what differs is whether the member's last step,
    # the group's bookkeeping of the completion and the joiner's wake-up have happened yet)
    natural = [(m['finished'], g['gno'], i) for g in base['evs'] if g['kind'] == 'group'
               for i, m in enumerate(g['members'])
               if m['cancel_seen'] is None and m['finished'] is not None and m['finished'] <= end]
    natural.sort()
    picked = natural[:1] + natural[-1:] if len(natural) > 1 else natural
    for _f, gno, mno in picked:
        cs += [('m', gno, mno, hook) for hook in HOOKS]
    return cs


def _work(args):
    progs, mode, only = args
    out = []
    for p in progs:
        if only is not None:
            out.append([(only, _impl.run(p, cancel=only))])
            continue
        base = _impl.run(p, follow_on=False)
        out.append([(c, _impl.run(p, cancel=c)) for c in cancel_instants(p, base, mode)])
    return out


def run_impl(ctx, progs, mode, only=None):
    if len(progs) < 400:
        _init(ctx.repo)
        return _work((progs, mode, only))
    nproc = min(16, os.cpu_count() or 1)
    size = max(100, len(progs) // (nproc * 4))
    jobs = [(progs[i:i + size], mode, only) for i in range(0, len(progs), size)]
    with Pool(nproc, initializer=_init, initargs=(ctx.repo,)) as pool:
        parts = pool.map(_work, jobs)
    return [x for part in parts for x in part]


def case_of(p, c, o=None):
    if T.any_node(p, lambda q: q[0] == 'groupx'):
        case = {'program_json': T.to_json(p), 'readable': T.show(p), 'cancel': c}
    else:
        case = {'program': T.ser_plain(p), 'forms': _forms(p), 'readable': T.show(p), 'cancel': c}
    if isinstance(c, tuple):
        # task.cancel() placed relative to a member's own completion: (group entered g-th,
        # member m, placement); `cancel` is the virtual instant at which that happened
        case['cancel_at_member_completion'] = {'group': c[1], 'member': c[2], 'placement': c[3]}
        case['cancel'] = (o or {}).get('cancel_t')
    return case


def cancel_of(case):
    h = case.get('cancel_at_member_completion')
    if h:
        return ('m', h['group'], h['member'], h['placement'])
    return case.get('cancel')


def evaluate(ctx, progs, res, only_cancel=None, mode='odd', use_model=True, tag='flat'):
    allruns = run_impl(ctx, progs, mode, only_cancel)
    flat = [(p, c, o) for p, runs in zip(progs, allruns) for (c, o) in runs]
    # the model places a cancel at an integer instant, after the completions of that instant have
    # been booked by the group and before anybody has acted on them: that is placement 'done'.
    # The other placements differ from it by loop iterations inside one instant (member finished
    # but not yet booked: 'last', 'soon'; joiner already woken: 'done+1', 'done+2'; member not yet
    # finished: 'pre') - they are judged by the oracle only.

    def model_cancel(c, o):
        if not isinstance(c, tuple):
            return c
        return o.get('cancel_t') if c[3] == 'done' and o.get('cancel_t') is not None else 'skip'
    lines, index = [], {}
    if use_model:
        for i, (p, c, o) in enumerate(flat):
            mc = model_cancel(c, o)
            if mc != 'skip':
                index[i] = len(lines)
                lines.append(T.model_line(p, mc))
    model = ctx.model(lines) if use_model else None
    for i, (p, c, o) in enumerate(flat):
        got = T.fmt_obs(o)
        case = case_of(p, c, o)
        cn = o.get('cancel_t') if isinstance(c, tuple) else c
        if cn is not None:
            for key, why in oracle(p, cn, o):
                res.violation(key, case, why, impl=got)
        if model is not None and i in index:
            want = T.align_model(model[index[i]], o)
            if want != got:
                res.disagreement(case, got, want)
        if isinstance(c, tuple):
            res.count(f'{tag}_micro_step_cancels')
            res.count(f'{tag}_micro_step_cancels_delivered', o.get('deliv', 0))
            c = cn if cn is not None else -1
        res.count(f'{tag}_runs')
        res.count(f'{tag}_delivered', o.get('deliv', 0))
        res.count('outcome_' + o['res'])
        evs = o.get('evs', [])
        expired_before = any(e.get('x') == 1 for e in evs)
        in_group = any(e['kind'] == 'group' and e['entered'] <= c <= e['t'] for e in evs)
        res.count('delivered_after_inner_expiry', int(bool(o.get('deliv')) and expired_before))
        res.count('delivered_inside_a_group', int(bool(o.get('deliv')) and in_group))
        if o.get('deliv') and (expired_before or T.n_blocks(p) >= 2 or in_group):
            res.nontrivial((str(case.get('program') or case.get('program_json')),
                            case.get('forms'), str(cancel_of(case))))
        if o.get('deliv') and expired_before:
            res.sample({'program': T.show(p), 'cancel_at': c, 'impl': got})
    res['evaluations'] += len(flat)


# ---------------------------------------------------------------- the wider group language
def gen_groupx(r):
    """one program around task groups with everything the model's language lacks; same time
    grid as T.gen_group (unique member offsets: no member ever finishes at the instant of a
    deadline or of another member)"""
    GU = T.GU
    ctr = [0]

    def member(sub_ok=True):
        j = ctr[0]
        ctr[0] += 1
        react = r.choice([0, 0, 1, 3])
        sub = None
        if sub_ok and ctr[0] < 5 and r.random() < 0.25:
            # the member is itself the joiner of a subgroup
            sub = group(r.choice(['all', 'any', 'object']), 'cm', r.randint(1, 2), False,
                        ('sleep', GU * r.choice([1, 2, 6])))
        return (GU * r.choice([1, 2, 5, 15]) + 2 ** (2 * j + 1),
                GU * react + 2 ** (2 * j + 2) if react else 0,
                r.random() < 0.3, r.random() < 0.4, sub)

    def group(policy, mode, n, sub_ok, body):
        ms = tuple(member(sub_ok) for _ in range(n) if ctr[0] < 6)
        return ('groupx', policy, mode, ms, body)

    policy = r.choice(['all', 'any', 'object'])
    shape = r.choice(['cm', 'cm', 'timeout-in-body', 'nested', 'join-under-timeout', 'subgroup'])
    body = ('sleep', GU * r.choice([1, 2, 8])) if r.random() < 0.8 else ('skip',)
    if shape == 'timeout-in-body':
        inner = ('try', ['T'], ('block', False, True, GU * r.choice([1, 2]),
                                ('sleep', GU * r.choice([1, 4])), 0), ('skip',))
        body = ('seq', ('sleep', GU), ('seq', inner, ('sleep', GU * r.choice([1, 3]))))
    if shape == 'nested':
        body = ('seq', ('sleep', GU), group(r.choice(['all', 'any']), 'cm', r.randint(1, 2), False,
                                            ('sleep', GU * r.choice([1, 3]))))
    if shape == 'join-under-timeout':
        # an explicit join() under a short timeout that expires and is handled, then more work
        g = group(policy, 'join', r.randint(1, 3), False, ('skip',))
        core = ('seq', ('try', ['T'], ('block', False, True, GU * r.choice([1, 3, 6]), g, 0),
                        ('skip',)), ('sleep', GU * r.choice([2, 4])))
    else:
        core = group(policy, 'cm', r.randint(1, 3), shape == 'subgroup', body)
    if r.random() < 0.6:
        # an inner timeout that expires and is handled before the group is entered
        core = ('seq', ('try', ['T'], ('block', False, True, GU, ('sleep', 50 * GU), 0), ('skip',)),
                core)
    outer = r.choice([None, 'timeout', 'ignore', 'near'])
    if outer == 'near':
        core = ('block', r.random() < 0.5, True, GU * r.choice([2, 4, 7]), core, 0)
    elif outer:
        core = ('block', outer == 'ignore', True, 5000 * GU, core, 0)
    return core


# ---------------------------------------------------------------- session tasks
SESSION_KINDS = ['send_request', 'send_notification', 'send_batch', 'send_batch_notifications',
                 'handler', 'handler_after_inner_timeout', 'pump_at_handler_completion']
PUMP_PLACEMENTS = ('last', 'soon', 'done', 'done+1')


def gen_session_case(r):
    return {'kind': r.choice(SESSION_KINDS),
            # when the transport accepts the write (None: at once; -1: never)
            'gate': r.choice([None, None, 6, 14, -1]),
            # when the peer's response arrives (-1: never)
            'respond': r.choice([-1, 8, 16]),
            'work': r.choice([4, 12]),
            # history: the session's concurrency target was lowered before (server: the cost went
            # over the soft limit; client: a slow round trip made it recalibrate)
            'lowered': r.random() < 0.4,
            # pump_at_handler_completion: where, relative to the handler task's completion, the
            # task running process_messages() is cancelled
            'placement': r.choice(PUMP_PLACEMENTS)}


def run_session_case(repo, case, cancel):
    from tools.facts.common import fresh_import
    aiorpcx = fresh_import(repo, 'aiorpcx')
    curio = fresh_import(repo, 'aiorpcx.curio')
    obs = {}

    class Transport:
        """what a session needs of its transport; write() honours a send gate the way the real
        transports do when asyncio has paused writing (send buffer full)"""
        kind = (aiorpcx.SessionKind.SERVER
                if case['kind'].startswith(('handler', 'pump')) else aiorpcx.SessionKind.CLIENT)

        def __init__(self):
            self.can_send = asyncio.Event()
            self.written = []
            self.aborted = False

        async def write(self, message):
            await self.can_send.wait()
            self.written.append(message)

        async def close(self, force_after=None):
            pass

        async def abort(self):
            self.aborted = True

        def is_closing(self):
            return self.aborted

        def proxy(self):
            return None

        def remote_address(self):
            return None

    async def top():
        loop = asyncio.get_event_loop()
        tr = Transport()
        handler_task = []

        fire = []

        class Session(aiorpcx.RPCSession):
            # a client recalibrates its outgoing concurrency after every answered request, and
            # any round trip at all counts as too slow
            recalibrate_count = 1
            target_response_time = 0.0

            async def handle_request(self, request):
                handler_task.append(asyncio.current_task())
                if case['kind'] == 'pump_at_handler_completion':
                    await curio.sleep(case['work'])
                    pl = case.get('placement', 'soon')
                    if pl == 'last':
                        fire[0]()
                    elif pl == 'soon':
                        loop.call_soon(fire[0])
                    return 'done'
                if case['kind'] == 'handler_after_inner_timeout':
                    try:
                        async with curio.timeout_after(2):
                            await curio.sleep(100)
                    except curio.TaskTimeout:
                        pass
                await curio.sleep(case['work'])
                return 'done'

        session = Session(tr)
        inbox = asyncio.Queue()
        pump = loop.create_task(session.process_messages(inbox.get))
        if case['gate'] is None:
            tr.can_send.set()
        elif case['gate'] >= 0:
            loop.call_at(case['gate'], tr.can_send.set)
        kind = case['kind']
        next_id = 0
        if case.get('lowered'):
            if kind.startswith(('handler', 'pump')):
                # public API: account a large cost; the incoming concurrency target drops
                session.bump_cost((session.cost_soft_limit + session.cost_hard_limit) / 2)
            elif kind in ('send_request', 'send_batch'):
                # one answered request first: the outgoing concurrency target drops
                was_set = tr.can_send.is_set()
                tr.can_send.set()
                # (an even instant: the deadlines of the task under test stay even, cancels odd)
                loop.call_later(2, inbox.put_nowait, b'{"jsonrpc":"2.0","result":1,"id":0}')
                try:
                    await asyncio.wait_for(session.send_request('warm', []), 50)
                except Exception:       # noqa
                    pass
                next_id = 1
                if not was_set:
                    tr.can_send.clear()
        if kind == 'pump_at_handler_completion':
            tr.can_send.set()
            delivered = []

            def do_fire():
                if not delivered:
                    delivered.append(not pump.done())
                    obs['cancel_t'] = int(loop.time())
                    pump.cancel()
            fire.append(do_fire)
            inbox.put_nowait(b'{"jsonrpc":"2.0","method":"work","params":[],"id":7}')
            for _ in range(10):
                if handler_task:
                    break
                await asyncio.sleep(0)
            if not handler_task:
                obs['res'] = 'no-task'
                pump.cancel()
                return
            pl = case.get('placement', 'soon')
            if pl.startswith('done'):
                def on_done(_t):
                    if pl == 'done':
                        do_fire()
                    else:
                        loop.call_soon(do_fire)
                handler_task[0].add_done_callback(on_done)
            await asyncio.wait([pump], timeout=200)
            obs['t'] = int(loop.time())
            obs['deliv'] = int(bool(delivered and delivered[0]))
            obs['task_cancelled'] = pump.done() and pump.cancelled()
            if not pump.done():
                obs['res'] = 'still-running'
                obs['pump'] = 'pending'
                pump.cancel()
                await asyncio.wait([pump], timeout=200)
                obs['pump'] = 'cancelled' if pump.done() else 'still-running'
            elif pump.cancelled():
                obs['res'] = 'C'
            elif pump.exception() is not None:
                obs['res'] = type(pump.exception()).__name__
            else:
                obs['res'] = 'ok'
            return
        if kind.startswith('handler'):
            inbox.put_nowait(b'{"jsonrpc":"2.0","method":"work","params":[],"id":7}')
            await asyncio.sleep(0)
            await asyncio.sleep(0)
            for _ in range(10):
                if handler_task:
                    break
                await asyncio.sleep(0)
            if not handler_task and case.get('lowered'):
                # a session over its soft cost limit delays the request before handling it
                await asyncio.sleep(session.cost_sleep)
            task = handler_task[0] if handler_task else None
        else:
            async def batch(notifications_only):
                async with session.send_batch() as b:
                    if not notifications_only:
                        b.add_request('ping', [1])
                    b.add_notification('note', [2])
                return 'sent'
            coro = {'send_request': lambda: session.send_request('ping', [1]),
                    'send_notification': lambda: session.send_notification('note', [1]),
                    'send_batch': lambda: batch(False),
                    'send_batch_notifications': lambda: batch(True)}[kind]()
            task = loop.create_task(coro)
            if case['respond'] >= 0:
                if kind == 'send_batch':
                    resp = b'[{"jsonrpc":"2.0","result":5,"id":%d}]' % next_id
                else:
                    resp = b'{"jsonrpc":"2.0","result":5,"id":%d}' % next_id
                loop.call_at(case['respond'], inbox.put_nowait, resp)
        if task is None:
            obs['res'] = 'no-task'
            pump.cancel()
            return
        delivered = []
        if cancel is not None:
            def do_cancel():
                delivered.append(not task.done())
                task.cancel()
            # (counted from the instant the task under test was started: 0, or the even instant
            # at which the warm-up request of a 'lowered' client history was answered)
            obs['started'] = int(loop.time())
            loop.call_at(obs['started'] + cancel, do_cancel)
        try:
            await asyncio.wait_for(asyncio.shield(asyncio.wait([task])), 200)
        except asyncio.TimeoutError:
            obs['res'] = 'still-running'
            pump.cancel()
            return
        obs['t'] = int(loop.time())
        obs['deliv'] = int(bool(delivered and delivered[0]))
        obs['task_cancelled'] = task.cancelled()
        if task.cancelled():
            obs['res'] = 'C'
        elif task.exception() is not None:
            obs['res'] = type(task.exception()).__name__
        else:
            obs['res'] = 'ok'
        # tear-down: the task running process_messages() (inside the session's own TaskGroup) is
        # cancelled from outside as well and must end
        obs['pump'] = 'pending'
        pump.cancel()
        try:
            await pump
        except BaseException:       # noqa
            pass
        obs['pump'] = 'cancelled' if pump.cancelled() else 'ended'
    try:
        vloop.run(top())
    except (vloop.Deadlock, vloop.Livelock) as e:
        if obs.get('pump') == 'pending':
            obs['pump'] = type(e).__name__
        else:
            obs['res'] = type(e).__name__
    return obs


def session_oracle(case, cancel, o):
    if o.get('pump') in ('Deadlock', 'Livelock'):
        return [('c12:session-pump-hang',
                 f'the task running session.process_messages() (inside the session\'s TaskGroup) '
                 f'was cancelled from outside and never finishes: {o["pump"]}')]
    if case['kind'] == 'pump_at_handler_completion' and o.get('deliv') and o['res'] == 'still-running':
        return [('c12:session-cancel-swallowed',
                 f'the task running session.process_messages() was cancelled at {o.get("cancel_t")}, '
                 f'in the loop iteration "{case.get("placement")}" of a request handler\'s completion: '
                 f'the cancellation was swallowed, the task goes on serving')]
    if o['res'] in ('Deadlock', 'Livelock', 'still-running'):
        return [('c12:session-hang', f'{case["kind"]}: the session task never finishes: {o["res"]}')]
    if o.get('deliv') and (o['res'] != 'C' or not o['task_cancelled']):
        return [('c12:session-cancel-replaced',
                 f'{case["kind"]}: task.cancel() at {cancel} was delivered (the task was inside the '
                 f'session\'s timeout blocks) but the task ended with {o["res"]} instead of '
                 f'being cancelled')]
    return []


def close_family(ctx, res, only=None):
    """Oracle only: a task is inside `session.close(force_after)` of a REAL transport protocol
    (RSTransport / USTransport on the scripted fake transport) - alone or nested in a
    `timeout_after` block of its own - when `task.cancel()` is called on it.  `close()` itself is a
    nest of the library's timeout blocks (the forced abort after `force_after`), so the text
    applies: the task ends cancelled, whether the graceful close is still pending (stalled peer:
    the cancel lands inside close()) or already over (the cancel lands in the follow-on code)."""
    from harness.rig import Rig
    from harness import c08_world as W8
    cases = [dict(transport=tp, stalled=st, outer=outer, fa=fa, cancel=c)
             for tp in ('rs', 'us') for st in (True, False) for outer in (None, 12)
             for fa in (6, 30) for c in (1, 3, 5)]
    if only is not None:
        cases = [only]
    for case in cases:
        rig = Rig(ctx.repo, lambda mods: mods['session'].RPCSession, transport=case['transport'])
        try:
            rig.tr.__class__ = W8.StallTransport
            rig.tr.stalled = case['stalled']
            curio = rig.mods['curio']
            seen = {}

            async def closer():
                if case['outer'] is not None:
                    async with curio.timeout_after(case['outer']):
                        await rig.session.close(force_after=case['fa'])
                else:
                    await rig.session.close(force_after=case['fa'])
                seen['close_returned'] = rig.now
                await curio.sleep(1000)

            t = rig.loop.create_task(closer())
            rig.idle()
            rig.advance_to(case['cancel'])
            in_close = 'close_returned' not in seen
            if not t.done():
                t.cancel()
                rig.idle()
                rig.advance(100)
                res.count('close_cancel_inside_close' if in_close else 'close_cancel_after_close')
                if not (t.done() and t.cancelled()):
                    how = ('is still running' if not t.done() else
                           f'ended with {type(t.exception()).__name__}' if t.exception() else 'returned')
                    res.violation('c12:close-cancel-swallowed', {'close_case': case},
                                  f'task.cancel() at {case["cancel"]} on a task '
                                  f'{"inside session.close()" if in_close else "after session.close() returned"}'
                                  f' (force_after {case["fa"]}, enclosing timeout {case["outer"]}, '
                                  f'{"stalled" if case["stalled"] else "responsive"} peer): the task {how} '
                                  f'instead of ending cancelled')
            res['evaluations'] += 1
        except (vloop.Deadlock, vloop.Livelock) as e:
            res.violation('c12:session-hang', {'close_case': case}, type(e).__name__)
        finally:
            rig.close()
    res['scopes']['close_cases'] = len(cases)


def _session_work(args):
    repo, cases = args
    out = []
    for case in cases:
        base = run_session_case(repo, case, None)
        end = base.get('t', 40) if base.get('res') not in ('Deadlock', 'Livelock') else 40
        runs = [(None, base)]
        if case['kind'] == 'pump_at_handler_completion':
            out.append(runs)        # the placement is the cancel
            continue
        for cc in range(1, min(end, 40) + 2, 2):
            runs.append((cc, run_session_case(repo, case, cc)))
        out.append(runs)
    return out


def evaluate_sessions(ctx, cases, res):
    if len(cases) < 60:
        allruns = _session_work((ctx.repo, cases))
    else:
        nproc = min(16, os.cpu_count() or 1)
        size = max(10, len(cases) // (nproc * 2))
        jobs = [(ctx.repo, cases[i:i + size]) for i in range(0, len(cases), size)]
        with Pool(nproc) as pool:
            allruns = [x for part in pool.map(_session_work, jobs) for x in part]
    n = 0
    for case, runs in zip(cases, allruns):
        for cc, o in runs:
            n += 1
            cs = {'session_case': case, 'cancel': cc}
            for key, why in session_oracle(case, cc, o):
                res.violation(key, cs, why, impl=str(o))
            res.count('session_runs')
            res.count('session_cancel_delivered', o.get('deliv', 0))
            res.count('session_outcome_' + str(o.get('res')))
            if o.get('deliv'):
                res.nontrivial(('session', json.dumps(case, sort_keys=True), cc))
    res['evaluations'] += n


# ---------------------------------------------------------------- entry points
def run(ctx):
    res = Results()
    rng = ctx.rng
    corp = []
    for ln in corpus_lines(ctx.verif, 'C12'):
        c, rest = ln.split(' ', 1)
        corp.append((int(c), parse_prog(*(rest.split('|') + [''])[:2])))
    for c, p in corp:
        evaluate(ctx, [p], res, only_cancel=c, mode='events' if T.has_group(p) else 'odd',
                 tag='corpus')
    res['scopes']['corpus'] = len(corp)
    # session tasks
    kinds = len(SESSION_KINDS)
    ns = (1500 if ctx.tier == "thorough" else 200) if ctx.deep else 40
    scases = [gen_session_case(rng) for _ in range(ns)]
    for i, sc in enumerate(scases[:kinds]):
        sc['kind'] = SESSION_KINDS[i]           # every kind at least once
    evaluate_sessions(ctx, scases, res)
    res['scopes']['session_cases'] = ns
    close_family(ctx, res)
    # task groups: model language, then the wider one
    ng = (30000 if ctx.tier == "thorough" else 3000) if ctx.deep else 400
    gprogs = []
    while len(gprogs) < ng:
        p = T.gen_group(rng, 4)
        if T.has_group(p):
            gprogs.append(p)
    evaluate(ctx, gprogs, res, mode='events', tag='groups')
    res['scopes']['group_programs'] = ng
    nx = (30000 if ctx.tier == "thorough" else 3000) if ctx.deep else 400
    evaluate(ctx, [gen_groupx(rng) for _ in range(nx)], res, mode='events', use_model=False,
             tag='groupx')
    res['scopes']['wider_group_programs'] = nx
    # flat timeout programs
    shapes = T.enum_shapes()
    if not ctx.deep:
        shapes = [s for i, s in enumerate(shapes) if (i + ctx.seed) % 6 == 0]
    evaluate(ctx, shapes, res)
    res['scopes']['enumerated_shapes'] = len(shapes)
    n = (40000 if ctx.tier == 'thorough' else 8000) if ctx.deep else 1500
    progs = [T.gen(rng, 4, tie_prone=(i % 3 == 0)) for i in range(n)]
    evaluate(ctx, progs, res)
    res['scopes']['generated_programs'] = n
    return res.finish(RULE, exhaustive=ctx.deep)


def replay(ctx, case):
    if isinstance(case.get('case'), dict):
        case = case['case']
    res = Results()
    if 'close_case' in case:
        close_family(ctx, res, only=case['close_case'])
        return res.finish('replay of one recorded close() case')
    if 'session_case' in case:
        o = run_session_case(ctx.repo, case['session_case'], case.get('cancel'))
        for key, why in session_oracle(case['session_case'], case.get('cancel'), o):
            res.violation(key, case, why, impl=str(o))
        res['evaluations'] += 1
        return res.finish('replay of one recorded session case')
    if 'program_json' in case:
        p = T.from_json(case['program_json'])
        evaluate(ctx, [p], res, only_cancel=cancel_of(case), mode='events', use_model=False)
        return res.finish('replay of one recorded case')
    p = parse_prog(case['program'], case.get('forms', ''))
    evaluate(ctx, [p], res, only_cancel=cancel_of(case),
             mode='events' if T.has_group(p) else 'odd')
    return res.finish('replay of one recorded case')
