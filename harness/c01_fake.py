"""Fake asyncio transport + session factory for driving a real `RPCSession` without sockets
(used by the C01/C02 session-layer checks and by tools/facts/c01.py).  Writes are recorded;
`close`/`abort` deliver `connection_lost` through `call_soon` as real transports do.

Back-pressure (C01 session scenarios): `env_pause()` / `env_resume()` play the event loop telling
the protocol that the socket send buffer is full / has drained (`pause_writing` /
`resume_writing`, the asyncio.Protocol callbacks).  While the protocol has paused reading, bytes
from the peer stay in `inbox` and are delivered when reading resumes (`feed`)."""
import asyncio
import json


class FakeTransport(asyncio.Transport):
    def __init__(self):
        super().__init__()
        self.out = []          # bytes written, in order
        self.closing = False
        self.aborted = False
        self.lost = False
        self.proto = None
        self.reading = True
        self.paused_writing = False
        self.inbox = []        # bytes from the peer not yet delivered (reading paused)
        self.delivered = 0     # number of feed() chunks handed to data_received so far
        self.nwritten = 0      # number of write() calls so far
        # everything that crossed the wire, in its true order: ('w', bytes) written by the session,
        # ('r', bytes) handed to data_received, ('lost',) connection_lost delivered
        self.log = []

    def get_extra_info(self, name, default=None):
        return ('1.2.3.4', 5) if name == 'peername' else default

    def write(self, data):
        self.nwritten += 1
        self.out.append(bytes(data))
        self.log.append(('w', bytes(data)))

    def _deliver_lost(self):
        if not self.lost:
            self.lost = True
            self.log.append(('lost',))
            self.proto.connection_lost(None)

    def _lost(self):
        if not self.closing:
            self.closing = True
            asyncio.get_event_loop().call_soon(self._deliver_lost)

    def close(self):
        self._lost()

    def abort(self):
        self.aborted = True
        self._lost()

    def is_closing(self):
        return self.closing

    def pause_reading(self):
        self.reading = False

    def resume_reading(self):
        self.reading = True
        if self.inbox:
            asyncio.get_event_loop().call_soon(self._flush_inbox)

    def _flush_inbox(self):
        while self.inbox and self.reading and not self.lost:
            self.delivered += 1
            data = self.inbox.pop(0)
            self.log.append(('r', data))
            self.proto.data_received(data)

    # ---- what the harness (playing the event loop / the peer) does
    def feed(self, data):
        """bytes arrive from the peer; they reach the protocol at once unless it paused reading"""
        if self.lost:
            return
        self.inbox.append(bytes(data))
        self._flush_inbox()

    def env_pause(self):
        """the socket send buffer is full"""
        if not self.paused_writing and not self.closing:
            self.paused_writing = True
            self.proto.pause_writing()

    def env_resume(self):
        """the socket send buffer has drained"""
        if self.paused_writing:
            self.paused_writing = False
            if not self.lost:
                self.proto.resume_writing()

    def drop(self):
        """the link is lost / the peer closed"""
        self._lost()

    # helpers for the scripted peer
    def take_messages(self):
        """the newline-framed JSON messages written since the last call"""
        data = b''.join(self.out)
        self.out.clear()
        return [json.loads(m) for m in data.split(b'\n') if m]


def make_session(rawsocket, session_cls, kind):
    """(protocol, transport, session) with `connection_made` already delivered; must be called
    inside a running loop"""
    p = rawsocket.RSTransport(session_cls, None, kind)
    t = FakeTransport()
    t.proto = p
    p.connection_made(t)
    return p, t, p.session


async def settle(n=6):
    for _ in range(n):
        await asyncio.sleep(0)
