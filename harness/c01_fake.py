"""Fake asyncio transport + session factory for driving a real `RPCSession` without sockets
(used by the C01/C02 session-layer checks).  Writes are recorded; `close`/`abort` deliver
`connection_lost` through `call_soon` as real transports do."""
import asyncio
import json


class FakeTransport(asyncio.Transport):
    def __init__(self):
        super().__init__()
        self.out = []          # bytes written, in order
        self.closing = False
        self.aborted = False
        self.proto = None
        self.reading = True

    def get_extra_info(self, name, default=None):
        return ('1.2.3.4', 5) if name == 'peername' else default

    def write(self, data):
        self.out.append(bytes(data))

    def _lost(self):
        if not self.closing:
            self.closing = True
            asyncio.get_event_loop().call_soon(self.proto.connection_lost, None)

    def close(self):
        self._lost()

    def abort(self):
        self.aborted = True
        self._lost()

    def is_closing(self):
        return self.closing

    def pause_reading(self):
        self.reading = False

    def resume_reading(self):
        self.reading = True

    # helpers for the scripted peer
    def take_messages(self):
        """the newline-framed JSON messages written since the last call"""
        data = b''.join(self.out)
        self.out.clear()
        return [json.loads(m) for m in data.split(b'\n') if m]


def make_session(rawsocket, session_cls, kind):
    """(protocol, transport, session) with `connection_made` already delivered; must be called
    inside a running loop"""
    p = rawsocket.RSTransport(session_cls, None, kind)
    t = FakeTransport()
    t.proto = p
    p.connection_made(t)
    return p, t, p.session


async def settle(n=6):
    for _ in range(n):
        await asyncio.sleep(0)
