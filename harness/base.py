"""Result accumulator shared by the per-property harnesses."""
import json
import os


class Results(dict):
    """dict with the keys lib/vcheck.py understands; stores at most `cap` violation /
    disagreement records (but counts all of them)."""
    cap = 40

    def __init__(self):
        super().__init__(violations=[], disagreements=[], evaluations=0, histogram={},
                         scopes={}, samples=[])
        self.n_violations = 0
        self.n_disagreements = 0
        self._nontrivial = set()

    def violation(self, key, case, why, **extra):
        self.n_violations += 1
        # keep at least one record per distinct key
        keys = {v['key'] for v in self['violations']}
        if len(self['violations']) < self.cap or key not in keys:
            self['violations'].append(dict(key=key, case=case, why=why, **extra))

    def disagreement(self, case, impl, model, **extra):
        self.n_disagreements += 1
        if len(self['disagreements']) < self.cap:
            self['disagreements'].append(dict(case=case, impl=impl, model=model, **extra))

    def count(self, name, n=1):
        h = self['histogram']
        h[name] = h.get(name, 0) + n

    def nontrivial(self, key):
        self._nontrivial.add(key)

    def sample(self, s, limit=4):
        if len(self['samples']) < limit:
            self['samples'].append(s)

    @property
    def failed(self):
        return bool(self.n_violations or self.n_disagreements)

    def finish(self, rule, exhaustive=None):
        self['distinct_nontrivial'] = len(self._nontrivial)
        self['rule'] = rule
        if exhaustive is not None:
            self['exhaustive'] = exhaustive
        self.setdefault('traces_validated_against_impl', self['evaluations'])
        self['histogram']['violations_total'] = self.n_violations
        self['histogram']['disagreements_total'] = self.n_disagreements
        return self


def corpus_lines(verif, pid):
    path = os.path.join(verif, 'corpus', f'{pid}.txt')
    out = []
    if os.path.exists(path):
        for line in open(path):
            line = line.split('#')[0].strip()
            if line:
                out.append(line)
    return out
