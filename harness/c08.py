"""C08: losing or closing a connection releases every waiter and leaves no task behind.

CRASH-POINT ENUMERATION on the real code (harness/c08_world.py: real RSTransport / USTransport +
real RPCSession / MessageSession on the scripted fake transport, virtual time): scripted
conversations x fault in {link drop, close, two concurrent closes, close twice in a row, abort,
close on a transport whose graceful close never completes (force_after path), close from inside a
handler, ...} injected after EVERY step; the rest of the conversation goes on after the fault;
then 200 s of virtual time.  The property ORACLE (from the property text) judges every run; for
the runs whose events all belong to the lifecycle model's alphabet the same event list is
replayed through the Lean driver (`drv_c08`) and compared at every step.
"""
import itertools
import json
import os
from harness import vloop
from multiprocessing import Pool

from harness.base import Results, corpus_lines
from harness import c08_world as W

FA = 7            # force_after used by the injected close() calls
FA_LONG = 40      # a force_after beyond the default processing_timeout (30)
REACT = 3         # a stubborn handler's reaction time
TAIL = 200        # virtual seconds after the conversation
LTS_EVENTS = {'Q', 'W', 'B', 'C', 'X', 'D', 'NQ', 'NW', 'BT', 'F', 'O', 'OB', 'ON', 'R', 'L', 'LE', 'AC', 'ACC',
              'ACT', 'AB', 'A', 'Z', 'XC', 'OM', 'WC'}

RULE = ('case = (session kind RPCSession|MessageSession, transport RSTransport|USTransport, '
        'graceful close completes or stalls, event list); crash-point cases = conversation of '
        'steps x fault x injection point (fault inserted before step k for every k, rest of the '
        'conversation continues, then 200 s); lifecycle cases = event lists over the model alphabet. '
        'exhaustive over all conversations up to the stated length from the stated alphabets x '
        'all faults x all injection points, + seeded random longer ones. non-trivial = at the '
        'moment connection_lost was delivered at least one outgoing request was pending or one '
        'handler was inside its body; distinct = distinct (config, event list). mass_outgoing = 51..60 '
        'simultaneous send_request callers (outgoing limit 50) x fault; microstep = fault after only n '
        'loop iterations of an event (oracle only)')

# ---------------------------------------------------------------------------- conversations
RPC_STEPS_QUICK = ['W', 'B', 'K', 'O', 'OB', 'Q', 'PA', 'GB', 'A5']
RPC_STEPS_FULL = ['Q', 'W', 'B', 'BL', 'C', 'CL', 'WC', 'X', 'K', 'D', 'NW', 'NQ', 'BT', 'PT', 'GB', 'O', 'OB',
                  'ON', 'OM', 'R', 'F', 'Z', 'PA', 'RE', 'A1', 'A5', 'A25']
MSG_STEPS_QUICK = ['W', 'B', 'Q', 'ON', 'PA', 'GB', 'A5']
MSG_STEPS_FULL = ['Q', 'W', 'B', 'BL', 'C', 'CL', 'WC', 'X', 'PT', 'GB', 'BC', 'ON', 'F', 'Z', 'PA', 'RE', 'A1',
                  'A5', 'A25']
FAULTS = ['drop', 'close', 'close2', 'closeclose', 'abort', 'close_stalled', 'close2_stalled',
          'handler_close', 'handler_close_stalled', 'abort_then_close', 'close_then_drop',
          'drop_error', 'drop_then_close',
          # a handler closing with a force_after beyond its own processing timeout; a handler that
          # waits, then closes; close() whose caller is cancelled; a handler task that ends with a
          # cancellation nobody in the session asked for (then a close())
          'handler_close_long', 'handler_close_long_stalled', 'waiting_handler_close_stalled',
          'close_cancelled', 'close_cancelled_stalled', 'crash', 'crash_then_close_stalled']
REACT_LONG = 20   # a stubborn handler that outlasts force_after (and twice force_after)


def expand(steps, fault, at):
    """-> (stalled, events) : concrete events with fresh ids; the fault goes in before step `at`"""
    evs = []
    st = {'h': 0, 'k': 0, 'c': 0, 'waiting': [], 'pending': []}

    def fault_events():
        f = fault.replace('_stalled', '')
        if f == 'drop':
            return [('L',)]
        if f == 'drop_error':
            return [('LE',)]
        if f == 'drop_then_close':
            st['c'] += 1
            return [('LE',), ('AC', st['c'], FA)]
        if f == 'close':
            st['c'] += 1
            return [('AC', st['c'], FA)]
        if f == 'close2':
            st['c'] += 2
            return [('ACC', st['c'] - 1, st['c'], FA)]
        if f == 'closeclose':
            st['c'] += 1
            return [('ACT', st['c'], FA)]
        if f == 'abort':
            return [('AB',)]
        if f == 'handler_close':
            st['h'] += 1
            return [('C', st['h'], FA)]
        if f == 'handler_close_long':
            st['h'] += 1
            return [('C', st['h'], FA_LONG)]
        if f == 'waiting_handler_close':
            st['h'] += 1
            return [('WC', st['h'], 30), ('A', 1), ('F', st['h'])]
        if f == 'close_cancelled':
            st['c'] += 1
            return [('AC', st['c'], FA), ('A', 1), ('XC', st['c'])]
        if f in ('crash', 'crash_then_close'):
            st['h'] += 1
            evs_ = [('W', st['h']), ('Z', st['h'])]
            if f == 'crash_then_close':
                st['c'] += 1
                evs_.append(('AC', st['c'], FA))
            return evs_
        if f == 'abort_then_close':
            st['c'] += 1
            return [('AB',), ('AC', st['c'], FA)]
        if f == 'close_then_drop':
            st['c'] += 1
            return [('AC', st['c'], FA), ('A', 1), ('L',)]
        return []

    def step_events(name):
        if name in ('Q', 'W', 'X', 'K', 'D', 'NW', 'NQ'):
            st['h'] += 1
            if name in ('W', 'NW'):
                st['waiting'].append(st['h'])
            return [(name, st['h'])]
        if name in ('B', 'BL'):
            st['h'] += 1
            st['waiting'].append(st['h'])
            return [('B', st['h'], REACT if name == 'B' else REACT_LONG)]
        if name in ('C', 'CL'):
            st['h'] += 1
            return [('C', st['h'], FA if name == 'C' else FA_LONG)]
        if name == 'WC':
            st['h'] += 1
            st['waiting'].append(st['h'])
            return [('WC', st['h'], 30)]
        if name == 'Z':
            return [('Z', st['waiting'].pop(0))] if st['waiting'] else []
        if name == 'OM':
            st['k'] += 51
            st['pending'].append(st['k'] - 50)
            return [('OM', st['k'] - 50, 51)]
        if name == 'BT':
            st['h'] += 2
            st['waiting'].append(st['h'] - 1)
            return [('BT', st['h'] - 1, st['h'])]
        if name in ('O', 'OB', 'ON'):
            st['k'] += 1
            if name == 'O':
                st['pending'].append(st['k'])
            return [(name, st['k'])]
        if name == 'R':
            return [('R', st['pending'].pop(0))] if st['pending'] else []
        if name == 'F':
            return [('F', st['waiting'].pop(0))] if st['waiting'] else []
        if name.startswith('A') and name[1:].isdigit():
            return [('A', int(name[1:]))]
        return [(name,)]

    for i, name in enumerate(steps):
        if i == at:
            evs += fault_events()
        evs += step_events(name)
    if at >= len(steps):
        evs += fault_events()
    evs.append(('A', TAIL))
    return fault.endswith('_stalled'), evs


def crash_cases(skind, alphabet, maxlen, faults=FAULTS, start=0, minlen=1):
    out = []
    n = start
    for ln in range(minlen, maxlen + 1):
        for steps in itertools.product(alphabet, repeat=ln):
            for fault in faults:
                for at in range(ln + 1):
                    stalled, evs = expand(steps, fault, at)
                    # short conversations on both transports, longer ones alternately
                    for tr in (('rs', 'us') if ln <= 2 else (('rs',) if n % 2 == 0 else ('us',))):
                        out.append(({'skind': skind, 'transport': tr, 'stalled': stalled}, evs))
                    n += 1
    return out


def random_crash_cases(r, n, maxlen=6):
    out = []
    for i in range(n):
        skind = 'rpc' if r.random() < 0.7 else 'msg'
        alpha = RPC_STEPS_FULL if skind == 'rpc' else MSG_STEPS_FULL
        steps = [r.choice(alpha) for _ in range(r.randint(2, maxlen))]
        fault = r.choice(FAULTS)
        at = r.randint(0, len(steps))
        stalled, evs = expand(steps, fault, at)
        out.append(({'skind': skind, 'transport': r.choice(['rs', 'us']), 'stalled': stalled}, evs))
    return out


# ---------------------------------------------------------------------------- lifecycle (model) cases
LTS_ALPHA = ['Q', 'W', 'B3', 'B20', 'B40', 'C7', 'C2', 'C40', 'WC30', 'D', 'F', 'Z', 'O', 'R', 'L', 'AC7', 'AC2', 'ACC',
             'XC', 'AB', 'A1', 'A2', 'A5', 'A30']
LTS_ALPHA_QUICK = ['W', 'B3', 'B20', 'C7', 'C40', 'Z', 'O', 'R', 'L', 'AC7', 'AC2', 'XC', 'AB', 'A5', 'A30']


def expand_lts(letters, skind, tail=True):
    evs = []
    h = k = c = 0
    for x in letters:
        if x in ('Q', 'W'):
            h += 1
            evs.append((x, h))
        elif x[0] == 'B':
            h += 1
            evs.append(('B', h, int(x[1:])))
        elif x[:2] == 'WC':
            h += 1
            evs.append(('WC', h, int(x[2:])))
        elif x[0] == 'C':
            h += 1
            evs.append(('C', h, int(x[1:])))
        elif x == 'D':
            if skind == 'rpc':
                h += 1
                evs.append(('D', h))
        elif x == 'F':
            evs.append(('F', max(h, 1)))
        elif x == 'Z':
            evs.append(('Z', max(h, 1)))
        elif x == 'XC':
            evs.append(('XC', max(c, 1)))
        elif x == 'O':
            if skind == 'rpc':
                k += 1
                evs.append(('O', k))
        elif x == 'R':
            if skind == 'rpc' and k:
                evs.append(('R', k))
        elif x == 'L':
            evs.append(('L',))
        elif x == 'ACC':
            c += 2
            evs.append(('ACC', c - 1, c, FA))
        elif x.startswith('AC'):
            c += 1
            evs.append(('AC', c, int(x[2:])))
        elif x == 'AB':
            evs.append(('AB',))
        elif x[0] == 'A':
            evs.append(('A', int(x[1:])))
    if tail:
        evs.append(('A', 60))
    return evs


def random_lts_case(r):
    skind = r.choice(['rpc', 'rpc', 'msg'])
    evs = []
    h = k = c = 0
    for _ in range(r.randint(2, 10)):
        x = r.random()
        if x < 0.25:
            h += 1
            kind = r.choice(['Q', 'W', 'W', 'B', 'B', 'C', 'C', 'WC', 'D' if skind == 'rpc' else 'W'])
            if kind == 'WC':
                evs.append(('WC', h, r.choice([0, 2, 7, 23, 30, 31, 40])))
            elif kind == 'B':
                evs.append(('B', h, r.choice([0, 1, 3, 3, 8, 20, 40])))
            elif kind == 'C':
                evs.append(('C', h, r.choice([0, 2, 7, 23, 30, 31, 40])))
            else:
                evs.append((kind, h))
        elif x < 0.31 and h:
            evs.append(('F', r.randint(1, h)))
        elif x < 0.36 and h:
            evs.append(('Z', r.randint(1, h)))
        elif x < 0.45 and skind == 'rpc':
            k += 1
            evs.append(('O', k))
        elif x < 0.47 and skind == 'rpc':
            n = r.choice([49, 50, 51, 53, 60])
            evs.append(('OM', k + 1, n))
            k += n
        elif x < 0.52 and skind == 'rpc' and k:
            evs.append(('R', r.randint(1, k)))
        elif x < 0.58:
            evs.append((r.choice(['L', 'LE']),))
        elif x < 0.70:
            c += 1
            evs.append(('AC', c, r.choice([0, 1, 2, 7, 7, 30])))
        elif x < 0.73:
            c += 2
            evs.append(('ACC', c - 1, c, r.choice([2, 7])))
        elif x < 0.76:
            c += 1
            evs.append(('ACT', c, r.choice([2, 7])))
        elif x < 0.80 and c:
            evs.append(('XC', r.randint(1, c)))
        elif x < 0.84:
            evs.append(('AB',))
        else:
            evs.append(('A', r.choice([1, 1, 2, 3, 4, 5, 7, 10, 23, 29, 30, 31])))
    evs.append(('A', 100))
    cfg = {'skind': skind, 'transport': r.choice(['rs', 'us']), 'stalled': r.random() < 0.4}
    if r.random() < 0.4:
        cfg['ptimeout'] = r.choice([5, 12])
    return (cfg, evs)


# ---------------------------------------------------------------------------- running
def is_lts(evs):
    return all(e[0] in LTS_EVENTS for e in evs)


def fmt_obs(o):
    return (f"hook={o['hook']} closed={int(o['closed'])} live={o['live']} "
            f"tickets={','.join(o['tickets'])} closers={','.join(o['closers'])} "
            f"abort={o['abort']} lost={int(o['lost'])} now={o['now']} closing={int(o['closing'])}")


def oracle(cfg, evs, summ, ptimeout):
    """the property, clause by clause, on the implementation's own observations (public ones
    only: task outcomes, hook calls, calls on the asyncio transport, virtual times)"""
    bad = []
    if summ.get('spin'):
        bad.append(('c08:livelock', f'the code under test used {summ["spin"]:.0f} s of CPU time '
                                    f'without yielding to the event loop (twice: the case was re-run)'))
        return bad
    if summ['stall'] is not None:
        i, kind = summ['stall']
        bad.append((f'c08:{kind.lower()}', f'{kind} at event {i} ({W.ser(evs[i])}): a task would '
                                           f'wait for ever / the loop spins'))
        return bad
    if not summ['closing']:
        # nothing closed, dropped or aborted this connection - unless the application asked to
        asked = [W.ser(e) for e in evs if e[0] in ('AC', 'ACC', 'ACT', 'AB')]
        if asked:
            bad.append(('c08:close-ignored', f'{asked[0]} was called but the transport was neither '
                                             f'closed nor aborted'))
        return bad
    if not summ['lost_delivered']:
        bad.append(('c08:closed-but-never-lost',
                    'close() was called, the graceful close never completed and no abort() '
                    'followed: the connection is half closed for ever'))
    # the hook
    if len(summ['hook_times']) != 1:
        bad.append(('c08:hook-count', f'the connection_lost hook ran {len(summ["hook_times"])} times'))
    # waiters
    # "waiting / running when the connection was lost" = at the moment the session noticed the
    # loss (its hook ran: MessageSession may be up to 1 ms late); if the hook never ran, at the
    # moment connection_lost was delivered
    at_hook = summ['pending_at_hook'] is not None
    pend = set((summ['pending_at_hook'] if at_hook else summ['pending_at_loss']) or [])
    for k, r in summ['outs'].items():
        if r['outcome'] == 'pending':
            bad.append(('c08:waiter-left-waiting',
                        f'outgoing {r["kind"]} {k} (started at {r["start"]}) is still waiting at '
                        f'{summ["now"]}'))
        elif k in pend and r['kind'] in ('O', 'OB') and r['outcome'] != 'cancelled':
            # not a caller waiting for a response: still blocked *sending* (send buffer full) and
            # its own max_send_delay ran out at this very instant (C15: TaskTimeout + abort)
            if r['outcome'] == 'TaskTimeout' and r['done_at'] == summ['lost_at'] \
                    and r['done_at'] == r['start'] + summ['max_send_delay']:
                continue
            # likewise a caller that was still queued for a slot of the outgoing limiter when the
            # hook ran, got the slot then and blocked sending (send buffer full at that moment)
            if r['outcome'] == 'TaskTimeout' and summ['paused_at_hook'] and summ['hook_times'] \
                    and r['done_at'] == summ['hook_times'][0] + summ['max_send_delay']:
                continue
            bad.append(('c08:waiter-not-cancelled',
                        f'outgoing {r["kind"]} {k} was waiting when the connection was lost at '
                        f'{summ["lost_at"]} and ended with {r["outcome"]} at {r["done_at"]} instead '
                        f'of a cancellation'))
        elif r['outcome'] not in ('cancelled', 'returned', 'TaskTimeout'):
            bad.append(('c08:waiter-other-exception', f'outgoing {r["kind"]} {k} raised {r["outcome"]}'))
    # handlers
    inbody = set((summ['in_body_at_hook'] if at_hook else summ['in_body_at_loss']) or [])
    for hid, r in summ['handlers'].items():
        if r['outcome'] == 'pending':
            bad.append(('c08:handler-alive', f'handler {hid} ({r["kind"]}) is still running at {summ["now"]}'))
        elif hid in inbody and r['outcome'] != 'cancelled':
            # its processing_timeout fired before it was done (before the loss, or while it was
            # still reacting to the cancellation): the TaskTimeout path ends it, not a
            # cancellation; likewise an asking handler whose own blocked send ran into
            # max_send_delay at the very instant of the teardown (C15: TaskTimeout + abort)
            overrun = ptimeout is not None and r['done_at'] is not None \
                and r['done_at'] >= r['arrived'] + ptimeout
            if r['kind'] == 'K' and r['outcome'] == 'returned' and r['done_at'] == summ['lost_at'] \
                    and r['done_at'] == r['start'] + summ['max_send_delay']:
                overrun = True
            if not overrun:
                bad.append(('c08:handler-not-cancelled',
                            f'handler {hid} ({r["kind"]}) was running when the connection was '
                            f'lost and ended {r["outcome"]}'))
    # tasks
    if summ['leftover_session_tasks']:
        bad.append(('c08:task-left', f'{summ["leftover_session_tasks"]} task(s) started by the '
                                     f'session are still alive at {summ["now"]}'))
    # close(): "returns", i.e. when the connection is closed: the hook has run and every handler
    # is done - not before; "forcing an abort if a graceful close does not finish in time": by
    # start + force_after the connection is lost or abort() has been called
    t_closed = None
    if summ['hook_times'] and not any(r['outcome'] == 'pending' for r in summ['handlers'].values()):
        t_closed = max([summ['hook_times'][0]] +
                       [r['done_at'] for r in summ['handlers'].values() if r['done_at'] is not None])
    for c, r in summ['closers'].items():
        if r['app_cancelled'] is not None:
            # the application itself cancelled this task: it is released by that
            if r['outcome'] == 'pending':
                bad.append(('c08:close-did-not-return', f'close() {c}, cancelled by the application '
                                                        f'at {r["app_cancelled"]}, still has not ended'))
            continue
        if r['outcome'] == 'pending':
            bad.append(('c08:close-did-not-return', f'close() {c} called at {r["start"]} has not '
                                                    f'returned at {summ["now"]}'))
            continue
        if r['outcome'] != 'returned':
            bad.append(('c08:close-raised', f'close() {c} raised {r["outcome"]}'))
            continue
        if t_closed is None:
            continue
        # returning *before* everything is torn down breaks "returns when closed"; returning
        # later than that is only a difference from the model (reported by the correspondence)
        if r['done_at'] < t_closed:
            bad.append(('c08:close-returned-early',
                        f'close() {c} called at {r["start"]} returned at {r["done_at"]}, but the '
                        f'connection was only fully closed (hook run, handlers done) at {t_closed}'))
        due = r['start'] + r['fa']
        if t_closed > due and not (summ['lost_at'] is not None and summ['lost_at'] <= due) \
                and not any(a <= due for a in summ['aborts']):
            bad.append(('c08:no-forced-abort',
                        f'close(force_after={r["fa"]}) {c} called at {r["start"]}: not closed by '
                        f'{due} (closed at {t_closed}), and by then the connection was neither '
                        f'lost (at {summ["lost_at"]}) nor aborted (abort() at {summ["aborts"]})'))
    for i, o in enumerate(summ['aborters']):
        if o != 'returned':
            bad.append(('c08:abort-did-not-return', f'abort() {i}: {o}'))
    return bad


NO_STATS = {'nontrivial': False, 'pending_at_loss': 0, 'in_body_at_loss': 0, 'lost': False,
            'aborts': 0, 'forced': 0, 'closers': 0, 'spin_retries': 0}


def run_one(repo, cfg, evs):
    lts = is_lts(evs)
    ptimeout = cfg.get('ptimeout') or 30
    full = dict(cfg, ptimeout=ptimeout, plain=lts)
    obs, summ = W.run_events(repo, full, evs)
    retries = 0
    if summ.get('spin'):
        # the CPU budget of one case ran out: only a repeatable spin is an observation
        retries = 1
        obs, summ = W.run_events(repo, full, evs, budget=2 * W.CPU_BUDGET_S)
    bad = oracle(cfg, evs, summ, ptimeout)
    stats = {
        'nontrivial': bool(summ['pending_at_loss'] or summ['in_body_at_loss']),
        'pending_at_loss': len(summ['pending_at_loss'] or []),
        'in_body_at_loss': len(summ['in_body_at_loss'] or []),
        'lost': bool(summ['lost_delivered']),
        'aborts': len(summ['aborts']),
        'forced': sum(1 for c in summ['closers'].values()
                      if summ['first_abort'] is not None and summ['first_abort'] == c['start'] + c['fa']),
        'closers': len(summ['closers']),
        'spin_retries': retries,
    }
    return bad, ([fmt_obs(o) for o in obs] if lts and summ['stall'] is None else None), stats


def _work(args):
    """a worker gives up on its chunk after the first case that spins (twice) through its CPU
    budget (every further case would cost the same seconds); the skipped ones come back as None"""
    repo, jobs = args
    out = []
    for cfg, evs in jobs:
        try:
            r = run_one(repo, cfg, evs)
        except vloop.Deadlock:
            raise
        except Exception as e:      # noqa
            # an exception the world/oracle did not expect: if it originates in the code under
            # test it is this case's observation (the case then fails), not a harness crash
            import traceback as _tb
            frames = _tb.extract_tb(e.__traceback__)
            rp = os.path.realpath(repo) + os.sep
            if not any(os.path.realpath(f.filename).startswith(rp) for f in frames):
                raise
            where = next(f for f in reversed(frames) if os.path.realpath(f.filename).startswith(rp))
            r = ([('c08:unexpected-exception',
                   f'{type(e).__name__}: {e} raised at {os.path.basename(where.filename)}:'
                   f'{where.lineno} ({where.name}) during the scenario')], None, dict(NO_STATS))
        out.append(r)
        if any(k == 'c08:livelock' and 'CPU time' in why for k, why in r[0]):
            out += [None] * (len(jobs) - len(out))
            break
    return out


def run_all(ctx, jobs):
    if len(jobs) < 600:
        return _work((ctx.repo, jobs))
    nproc = min(12 if ctx.deep else 8, os.cpu_count() or 1)
    size = max(100, len(jobs) // (nproc * 4))
    chunks = [(ctx.repo, jobs[i:i + size]) for i in range(0, len(jobs), size)]
    with Pool(nproc) as pool:
        parts = pool.map(_work, chunks)
    return [x for p in parts for x in p]


def case_of(cfg, evs):
    c = {'skind': cfg['skind'], 'transport': cfg['transport'], 'stalled': bool(cfg['stalled']),
         'events': ' ; '.join(W.ser(e) for e in evs)}
    if cfg.get('ptimeout'):
        c['ptimeout'] = cfg['ptimeout']
    return c


def model_line(ctx, cfg, evs):
    rt = int(round((ctx.facts or {}).get('sent_request_timeout', 30.0)))
    dfa = (ctx.facts or {}).get('default_force_after', 30)
    dfa = int(dfa) if isinstance(dfa, (int, float)) else 30
    pt = int(cfg.get('ptimeout') or 30)
    ol = int((ctx.facts or {}).get('outgoing_limit', 50))
    return (f'{rt} {pt} {ol} {int(bool(cfg["stalled"]))} {dfa} 1 ; '
            + ' ; '.join(W.ser(e) for e in evs))


def evaluate(ctx, jobs, res, label, chunk=40000):
    """in chunks, so that nothing more is explored once something failed"""
    for i in range(0, len(jobs), chunk):
        if res.failed and i:
            res.count(f'{label}_skipped_after_failure', len(jobs) - i)
            break
        _evaluate(ctx, jobs[i:i + chunk], res, label)


def _evaluate(ctx, jobs, res, label):
    results = run_all(ctx, jobs)
    skipped = sum(1 for r in results if r is None)
    if skipped:
        res.count(f'{label}_skipped_after_watchdog', skipped)
        kept = [(j, r) for j, r in zip(jobs, results) if r is not None]
        jobs, results = [j for j, _ in kept], [r for _, r in kept]
    lts_idx = [i for i, r in enumerate(results) if r[1] is not None]
    model = ctx.model([model_line(ctx, *jobs[i]) for i in lts_idx]) if lts_idx else []
    mm = dict(zip(lts_idx, model)) if model is not None else {}
    for i, ((cfg, evs), (bad, obs, stats)) in enumerate(zip(jobs, results)):
        case = case_of(cfg, evs)
        for key, why in bad:
            res.violation(key, case, why)
        if i in mm:
            if mm[i] == 'bad-op':
                res.disagreement(case, 'n/a', 'bad-op')
            else:
                want = mm[i].split(' ; ')
                for st, (g, w) in enumerate(zip(obs, want)):
                    if g != w:
                        res.disagreement(case, g, w, step=st, event=W.ser(evs[st]))
                        break
            res.count('compared_with_model')
        res.count(f'{label}_runs')
        res.count('session_' + cfg['skind'])
        res.count('transport_' + cfg['transport'])
        if cfg['stalled']:
            res.count('stalled_transport')
        if stats['lost']:
            res.count('connection_lost_delivered')
        res.count('waiters_pending_at_loss', stats['pending_at_loss'])
        res.count('handlers_running_at_loss', stats['in_body_at_loss'])
        res.count('forced_aborts', stats['forced'])
        res.count('close_calls', stats['closers'])
        if stats['spin_retries']:
            res.count('cpu_budget_retries', stats['spin_retries'])
        if stats['nontrivial']:
            res.nontrivial((cfg['skind'], cfg['transport'], cfg['stalled'], case['events']))
        if i < 2:
            res.sample({'case': case, 'last': obs[-1] if obs else None}, limit=8)
    res['evaluations'] += len(jobs)


def parse_case(line):
    """`<rpc|msg> <rs|us> <stalled 0|1> [processing_timeout] | ev ; ev ; ...`"""
    head, evs = line.split('|', 1)
    f = head.split()
    cfg = {'skind': f[0], 'transport': f[1], 'stalled': f[2] == '1'}
    if len(f) > 3:
        cfg['ptimeout'] = int(f[3])
    return (cfg, W.parse_events(evs))


def mass_cases(deep):
    """more callers inside send_request than the outgoing limiter has slots (50) at the moment
    the connection is lost / closed / aborted: those queued for a slot are waiting for a response
    like the others"""
    out = []
    n = 0
    sizes = (51, 53, 60) if deep else (51, 60)
    for size in sizes:
        for fault in ('drop', 'drop_error', 'close', 'close_stalled', 'abort', 'handler_close',
                      'handler_close_stalled', 'close_cancelled_stalled', 'crash'):
            for pre in ([], [('A', 3)], [('A', 3), ('R', 2)], [('W', 7)]):
                stalled, fev = expand([], fault, 0)
                evs = [('OM', 1, size)] + pre + [(e[0],) + tuple(x + 100 if e[0] in ('C', 'W', 'Z', 'WC') and i == 0 else x
                                                                    for i, x in enumerate(e[1:])) for e in fev]
                for skip in ((False, True) if deep else (False,)):
                    ev2 = list(evs)
                    if skip:
                        ev2.insert(-1, ('O', 500))
                    out.append(({'skind': 'rpc', 'transport': 'rs' if n % 2 == 0 else 'us',
                                 'stalled': stalled}, ev2))
                    n += 1
    # the 51st caller is a batch; more requests than the incoming limiter (20) admits at once
    for fault in ('drop', 'close_stalled', 'abort', 'handler_close_stalled', 'crash'):
        stalled, fev = expand([], fault, 0)
        fev = [(e[0],) + tuple(x + 100 if e[0] in ('C', 'W', 'Z', 'WC') and i == 0 else x
                               for i, x in enumerate(e[1:])) for e in fev]
        for skind in ('rpc', 'msg'):
            heads = [[('WM', 1, 25)], [('WM', 1, 25), ('A', 3), ('F', 2)]]
            if skind == 'rpc':
                heads += [[('OM', 1, 50), ('OB', 51)], [('OM', 1, 50), ('OB', 51), ('O', 52)]]
            for head in heads:
                out.append(({'skind': skind, 'transport': 'rs' if n % 2 == 0 else 'us', 'stalled': stalled},
                            head + fev))
                n += 1
    return out


MICRO_STEPS_RPC = [('W', 1), ('B', 1, 3), ('C', 1, 7), ('K', 1), ('D', 1), ('X', 1), ('Q', 1), ('BT', 1, 2),
                   ('GB',), ('O', 1), ('OB', 1), ('ON', 1), ('AC', 1, 7), ('AB',), ('F', 9), ('R', 9), ('Z', 9)]
MICRO_STEPS_MSG = [('W', 1), ('B', 1, 3), ('C', 1, 7), ('X', 1), ('Q', 1), ('GB',), ('BC',), ('ON', 1),
                   ('AC', 1, 7), ('F', 9), ('Z', 9)]


def micro_cases(r, deep):
    # deep: 0 / 1 = a sample, 2 = all
    """faults injected at micro-steps: after only n iterations of the event loop following an
    event (between data_received and the first handler step, between the registration of a
    request future and the write, inside the teardown, ...) the link drops / breaks / abort() /
    close() (also on a stalled transport) strikes.  Oracle only (the model is about quiescent
    states)."""
    out = []
    n = 0
    for skind, steps in (('rpc', MICRO_STEPS_RPC), ('msg', MICRO_STEPS_MSG)):
        prefixes = [[], [('W', 9)], [('W', 9), ('O', 9)] if skind == 'rpc' else [('B', 9, 3)],
                    [('PA',), ('W', 9)], [('AC', 9, 7)]]
        for pre in prefixes:
            for step in steps:
                for k in range(0, 9):
                    for f in range(5):
                        out.append(({'skind': skind, 'transport': 'rs' if n % 2 == 0 else 'us',
                                     'stalled': False},
                                    list(pre) + [('M', k, f), step, ('A', TAIL)]))
                        n += 1
    if deep < 2:
        r.shuffle(out)
        out = out[:600 if deep == 0 else 2000]
    return out


def run(ctx):
    """three depths: 0 = quick; 1 = quick tier re-run after a fingerprint drift / broken
    obligation (lib/vcheck.py has just run depth 0 with the seed and now calls again with
    `deep` set and the seed + 1: larger random samples, no second enumeration); 2 = thorough"""
    level = 2 if ctx.tier == 'thorough' else (1 if ctx.deep else 0)
    res = Results()
    res['scopes']['depth'] = level
    corp = [parse_case(ln) for ln in corpus_lines(ctx.verif, 'C08')]
    if corp:
        evaluate(ctx, corp, res, 'corpus')
    res['scopes']['corpus'] = len(corp)

    # callers beyond the outgoing limit
    mass = mass_cases(level == 2)
    if not res.failed:
        evaluate(ctx, mass, res, 'mass_outgoing')
    res['scopes']['mass_outgoing'] = len(mass)

    # lifecycle-model cases: exhaustive short + random
    lts = []
    n = 0
    scopes = {0: [(LTS_ALPHA_QUICK, 3)], 1: [], 2: [(LTS_ALPHA, 3), (LTS_ALPHA_QUICK, 4)]}[level]
    seen = set()
    for alpha, maxlen in scopes:
        for ln in range(1, maxlen + 1):
            for letters in itertools.product(alpha, repeat=ln):
                if letters in seen:
                    continue
                seen.add(letters)
                for stalled in (False, True):
                    skind = 'rpc' if n % 3 else 'msg'
                    cfg = {'skind': skind, 'transport': 'rs' if n % 2 == 0 else 'us', 'stalled': stalled}
                    if n % 5 == 4:
                        cfg['ptimeout'] = 5 if n % 2 else 12
                    lts.append((cfg, expand_lts(letters, skind)))
                    n += 1
    lts += [random_lts_case(ctx.rng) for _ in range({0: 3000, 1: 9000, 2: 20000}[level])]
    if not res.failed:
        evaluate(ctx, lts, res, 'lifecycle')
    res['scopes']['lifecycle'] = {'scopes': [[a, m] for a, m in scopes], 'cases': len(lts)}

    # crash-point enumeration
    main_faults = ['drop_error', 'close', 'close2_stalled', 'handler_close', 'abort', 'drop_then_close',
                   'handler_close_long_stalled', 'close_cancelled_stalled', 'crash_then_close_stalled']
    jobs = []
    if level != 1:
        jobs += crash_cases('rpc', RPC_STEPS_QUICK, 2)
        jobs += crash_cases('msg', MSG_STEPS_QUICK, 2, start=1)
        f3 = FAULTS if level == 2 else main_faults[:6]
        jobs += crash_cases('rpc', RPC_STEPS_QUICK, 3, faults=f3, minlen=3)
        jobs += crash_cases('msg', MSG_STEPS_QUICK, 3, faults=f3, start=1, minlen=3)
    if level == 2 and not res.failed:
        jobs += crash_cases('rpc', RPC_STEPS_QUICK, 4, faults=main_faults[:6], minlen=4)
        jobs += crash_cases('msg', MSG_STEPS_QUICK, 4, faults=main_faults[:6], start=1, minlen=4)
        jobs += crash_cases('rpc', RPC_STEPS_FULL, 2)
        jobs += crash_cases('msg', MSG_STEPS_FULL, 2, start=1)
    elif level == 0:
        jobs += crash_cases('rpc', RPC_STEPS_FULL, 1)
        jobs += crash_cases('msg', MSG_STEPS_FULL, 1, start=1)
    if jobs and not res.failed:
        evaluate(ctx, jobs, res, 'crashpoint_exhaustive')
    res['scopes']['crashpoint_exhaustive'] = {
        'rpc_alphabet': RPC_STEPS_QUICK, 'msg_alphabet': MSG_STEPS_QUICK,
        'max_len_all_faults': {0: 2, 1: 0, 2: 3}[level], 'max_len_main_faults': {0: 3, 1: 0, 2: 4}[level],
        'main_faults': main_faults,
        'full_alphabets': [RPC_STEPS_FULL, MSG_STEPS_FULL],
        'full_alphabet_max_len': {0: 1, 1: 0, 2: 2}[level],
        'faults': FAULTS, 'runs': len(jobs)}
    rnd = random_crash_cases(ctx.rng, {0: 5000, 1: 12000, 2: 70000}[level], 8 if level == 2 else 6)
    if not res.failed:
        evaluate(ctx, rnd, res, 'crashpoint_random')
    res['scopes']['crashpoint_random'] = len(rnd)

    # faults at micro-steps (oracle only)
    mic = micro_cases(ctx.rng, level)
    if not res.failed:
        evaluate(ctx, mic, res, 'microstep')
    res['scopes']['microstep'] = len(mic)
    return res.finish(RULE, exhaustive=not res.failed)


def replay(ctx, case):
    if isinstance(case.get('case'), dict):
        case = case['case']
    res = Results()
    cfg = {'skind': case.get('skind', 'rpc'), 'transport': case.get('transport', 'rs'),
           'stalled': bool(case.get('stalled', False))}
    if case.get('ptimeout'):
        cfg['ptimeout'] = int(case['ptimeout'])
    evaluate(ctx, [(cfg, W.parse_events(case['events']))], res, 'replay')
    return res.finish('replay of one recorded case')
