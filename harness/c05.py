"""C05 correspondence + search: hostile bytes against the real `JSONRPCConnection.receive_message`
(in every connection state: nothing / singles / batches outstanding, awaited, abandoned by a
waiter that gave up, or already resolved; for every protocol class; single messages and short
sequences on one connection) and against a real `RPCSession` on a fake transport under the
virtual loop (hostile messages - among them long ones with multi-byte characters at every
plausible cut point, with logging off and fully on; a response delivered in the very loop
iteration in which the request's `sent_request_timeout` fires - then a probe request), compared
with the Lean model (`drv_c05`) and judged by the property oracle written from the property
text.  The oracle looks at public observables only (exceptions escaping `receive_message`, the
bytes of `error_message`, the items returned, replies on the wire, `transport.is_closing()`)."""
import asyncio
import json
import logging
import os
import random
from multiprocessing import Pool

from harness import jwire, vloop, c05_fake
from harness import c05_probe as pr
from harness.base import Results
from harness import codec_common as cc
from tools.facts.common import fresh_import

E = jwire.enc
same = jwire.same
# futures completed with an exception are inspected, not awaited
logging.getLogger('asyncio').setLevel(logging.CRITICAL)
PROBE = pr.PROBE
PROBE_ID = pr.PROBE_ID


# ------------------------------------------------------------------------------ classification
def loads_outcome(msg):
    """the outcome of json.loads(message.decode()) as the model's LoadsOutcome token"""
    try:
        v = json.loads(msg.decode())
    except UnicodeDecodeError:
        return 'unicode', None
    except json.JSONDecodeError:
        return 'json', None
    except RecursionError:
        return 'recursion', None
    except ValueError:
        return 'intdigits', None
    except BaseException as e:   # noqa  (law L3 does not hold for this input)
        if isinstance(e, (KeyboardInterrupt, SystemExit)):
            raise
        return 'other:' + type(e).__name__, None
    return 'V', v


def bracket_depth(msg):
    d = m = 0
    for b in msg[:400000]:
        if b in (91, 123):
            d += 1
            if d > m:
                m = d
        elif b in (93, 125):
            d -= 1
    return m


def response_shaped(pname, outcome, payload):
    """'the bytes were a response', from the documentation of message_to_item: a JSON object
    without a "method" member, or (for protocols with batches) a non-empty array whose members
    are all objects with a "result" or an "error" member"""
    if outcome != 'V':
        return False
    if isinstance(payload, dict):
        return 'method' not in payload
    if isinstance(payload, list) and pname != 'v1':
        return bool(payload) and all(isinstance(p, dict) and ('result' in p or 'error' in p)
                                     for p in payload)
    return False


def family(msg, exc):
    """classifies the failing input family for the violation key"""
    if isinstance(exc, RecursionError):
        return 'RecursionError-deep-nesting'
    if isinstance(exc, UnicodeError):
        return type(exc).__name__
    if isinstance(exc, ValueError) and not isinstance(exc, json.JSONDecodeError):
        return 'ValueError-int-digits'
    if isinstance(exc, TypeError):
        o, p = loads_outcome(msg)
        if isinstance(p, list):
            return 'TypeError-response-batch-ids'
        if isinstance(p, dict) and isinstance(p.get('id'), (list, dict)):
            return 'TypeError-unhashable-response-id'
        return 'TypeError-other'
    return type(exc).__name__


def exc_line(mod, e):
    """canonical line for an exception that escaped: a ProtocolError with what it carries, or the
    class name - the nearest class of the modelled universe for anything outside it
    (e.g. asyncio.CancelledError -> BaseException)"""
    if isinstance(e, mod.ProtocolError):
        return cc.exc_line(mod, e)
    return 'PY ' + pr.nearest_exc_name(e)


# ------------------------------------------------------------------------------ connection level
build_conn = pr.build_conn


def setup_for(pname, state):
    if state == 'empty':
        return []
    if state == 'singles' or pname == 'v1':
        return ['S', 'S', 'S']
    if state == 'batches':
        return ['B2', 'B3']
    return ['S', 'B2', 'S']


def fut_state(fut):
    """'' pending / 'c' cancelled / 'd' resolved - asyncio's public Future API"""
    if fut.cancelled():
        return 'c'
    return 'd' if fut.done() else ''


def entry_tok(e, sfx=''):
    return (f'S{sfx} ' + cc.safe_enc(e[1])) if e[0] == 'S' else (f'B{sfx} ' + cc.safe_enc(e[1]))


def keys_line(entries):
    """entries as they are now (the state of each future read from the future)"""
    return f'{len(entries)}' + ''.join(' ' + entry_tok(e, fut_state(e[2])) for e in entries)


def setup_keys_line(entries):
    """entries as `setup` declared them (the model's starting state)"""
    return f'{len(entries)}' + ''.join(' ' + entry_tok(e, '' if e[4] == 'p' else e[4]) for e in entries)


def respval_line(mod, r):
    if isinstance(r, mod.RPCError):
        m = jwire.str_tok(r.message) if isinstance(r.message, str) else '!' + type(r.message).__name__
        return f'E {cc.safe_enc(r.code)} {m}'
    if isinstance(r, mod.ProtocolError):
        return f'X {r.code}'
    if isinstance(r, BaseException):
        return '!' + type(r).__name__
    return 'V ' + cc.safe_enc(r)


def completion_line(mod, entry):
    fut = entry[2]
    if fut.cancelled():
        return '!cancelled'
    exc = fut.exception()
    if entry[0] == 'S':
        return respval_line(mod, exc if exc is not None else fut.result())
    if exc is not None:
        return '!' + type(exc).__name__
    res = fut.result()
    if not isinstance(res, (list, tuple)):
        return '!' + type(res).__name__
    return f'L {len(res)}' + ''.join(' ' + respval_line(mod, r) for r in res)


def item_ids(mod, items):
    """ids the returned Request items answer under, read back through `send_result`"""
    reqs = [it for it in items if isinstance(it, mod.Request)]
    ids = {}
    if not reqs:
        return ids
    last = None
    for k, it in enumerate(reqs):
        try:
            last = it.send_result(k)
        except Exception:
            # the reply to a request the connection just accepted cannot be built
            return None
    try:
        resp = json.loads(last.decode())
    except Exception:
        return None
    if isinstance(resp, dict):
        resp = [resp]
    try:
        by_result = {r['result']: r['id'] for r in resp if isinstance(r, dict) and 'result' in r}
    except TypeError:
        return None
    for k, it in enumerate(reqs):
        if k not in by_result:
            return None
        ids[id(it)] = by_result[k]
    return ids


def reply_format(mod, conn, pname):
    """the wire format the connection speaks now - 'v1' (1.0: "result"/"error"/"id", no
    batches) or 'v2' (2.0: "jsonrpc":"2.0") - read off a message the connection itself builds
    through its public API (`send_notification` consumes no id and registers nothing).
    Falls back to what the connection was constructed with (None for auto-detection: either)."""
    try:
        m = json.loads(conn.send_notification(mod.Notification('format-probe', [])).decode())
        if isinstance(m, dict):
            return 'v2' if m.get('jsonrpc') == '2.0' else 'v1'
    except Exception:
        pass
    return {'v1': 'v1', 'v2': 'v2', 'loose': 'v2'}.get(pname)


def proto_after(mod, conn):
    """for the comparison with the model only: the protocol class in force, read from the
    private attribute if it is there; None otherwise (the comparison then ignores it)"""
    cls = getattr(conn, '_protocol', None)
    for k, v in pr.protos(mod).items():
        if v is cls:
            return k
    return None


def run_conn_case(mod, pname, setup, msgs):
    """Hands `msgs` one after the other to one connection in state `setup`.
    -> list of per-step dicts (canonical state + result line for the model comparison, raw
    outcome for the oracle)"""
    cls = pr.protos(mod)[pname]
    conn, entries = build_conn(mod, cls, setup)
    steps = []
    for msg in msgs:
        before = pr.listed(conn, entries)
        was_done = {id(e): e[2].done() for e in entries}
        try:
            ret = conn.receive_message(msg)
            exc = None
        except BaseException as e:   # noqa
            if isinstance(e, (KeyboardInterrupt, SystemExit)):
                raise
            ret, exc = None, e
        after = pr.listed(conn, entries)
        if before is None or after is None:
            # `pending_requests()` is unusable: fall back to the futures alone
            before = [e for e in entries if not was_done[id(e)]]
            after = [e for e in entries if not e[2].done()]
        resolved = [e for e in entries if e[2].done() and not was_done[id(e)]]
        vanished = [e for e in before if not any(e is x for x in after)]
        pa = proto_after(mod, conn)
        info = {'exc': exc, 'ret': ret, 'resolved': resolved, 'vanished': vanished,
                'format': reply_format(mod, conn, pname), 'proto_after': pa}
        state = f'{pa or "?"} {keys_line(after)}'
        if exc is not None:
            line = exc_line(mod, exc)
        else:
            items = list(ret) if isinstance(ret, (list, tuple)) else None
            if items is None:
                line = '!returned:' + type(ret).__name__
            else:
                ids = item_ids(mod, items)
                parts = []
                for it in items:
                    if isinstance(it, mod.Request):
                        rid = cc.safe_enc(ids[id(it)]) if ids is not None else '!noid'
                        parts.append(f'R {jwire.str_tok(it.method)} {cc.safe_enc(it.args)} {rid}')
                    elif isinstance(it, mod.Notification):
                        parts.append(f'N {jwire.str_tok(it.method)} {cc.safe_enc(it.args)}')
                    else:
                        parts.append('!item:' + type(it).__name__)
                if len(resolved) == 1:
                    e = resolved[0]
                    d = entry_tok(e) + ' ' + completion_line(mod, e)
                elif len(resolved) > 1:
                    d = f'!{len(resolved)}-futures-completed'
                elif len(vanished) == 1:
                    d = 'D ' + entry_tok(vanished[0])
                elif len(vanished) > 1:
                    d = f'!{len(vanished)}-entries-dropped'
                else:
                    d = '-'
                line = f'ok {len(items)}' + ''.join(' ' + p for p in parts) + ' ' + d
        info['line'] = state + ' | ' + line
        steps.append(info)
    pr.retrieve(entries)
    return steps, entries


def reply_verdict(em, fmt, payload):
    """`em` = error_message of a ProtocolError raised for bytes that were not a response:
    must be one well-formed error reply (or a non-empty batch of them) in the connection's
    format, answering this message (its id, or null)"""
    if em is None:
        return 'c05:no-reply-for-non-response', \
            'ProtocolError for bytes that are not a response carries no error reply'
    if not isinstance(em, bytes) or b'\n' in em:
        return 'c05:reply-not-one-line', 'error reply is not one newline-free byte string'
    try:
        obj = cc.strict_loads(em)
    except Exception:
        # the one known way: the peer's id was NaN / Infinity / 1e400 (tokens Python's
        # json accepts and re-emits although they are not JSON) and is echoed back
        try:
            lenient = json.loads(em.decode())
            members = lenient if isinstance(lenient, list) else [lenient]
            echoed = [m.get('id') for m in members if isinstance(m, dict)]
            if any(isinstance(x, float) and (x != x or x in (float('inf'), float('-inf')))
                   for x in echoed):
                return 'c05:reply-echoes-nonfinite-id', \
                    'error reply echoes a non-finite float id as a non-JSON token'
        except Exception:
            pass
        return 'c05:reply-not-json', 'error reply is not valid JSON'
    objs = obj if isinstance(obj, list) else [obj]
    if not objs:
        return 'c05:reply-empty-batch', 'error reply is an empty batch'
    formats = set()
    for o in objs:
        if not isinstance(o, dict) or not isinstance(o.get('error'), dict) \
                or not isinstance(o['error'].get('code'), int) \
                or isinstance(o['error'].get('code'), bool) \
                or not isinstance(o['error'].get('message'), str) or 'id' not in o:
            return 'c05:reply-ill-formed', 'error reply is not a well-formed error response'
        is_v1 = 'result' in o and o['result'] is None and 'jsonrpc' not in o
        is_v2 = o.get('jsonrpc') == '2.0' and 'result' not in o
        if not (is_v1 or is_v2):
            return 'c05:reply-format', 'error reply is neither a 1.0 nor a 2.0 error response'
        formats.add('v1' if is_v1 else 'v2')
    if len(formats) > 1 or (fmt is not None and formats != {fmt}):
        return 'c05:reply-format', \
            f'error reply is in {sorted(formats)} format, the connection speaks {fmt}'
    # the reply answers this message: its id is null or the request's own id
    if isinstance(obj, list):
        mids = [m.get('id') for m in payload if isinstance(m, dict)] if isinstance(payload, list) else []
        for o in objs:
            if o['id'] is not None and not any(same(o['id'], i) for i in mids):
                return 'c05:reply-id', 'a batch error reply carries an id no member of the batch has'
    else:
        pid = payload.get('id') if isinstance(payload, dict) else None
        if not (obj['id'] is None or same(obj['id'], pid)):
            return 'c05:reply-id', 'error reply id is neither null nor the request id'
    return None


def oracle_step(mod, msg, outcome, payload, info, res=None):
    """The property's first sentence on one call.  Returns None or (key, why)."""
    exc = info['exc']
    if exc is not None and not isinstance(exc, mod.ProtocolError):
        fam = family(msg, exc)
        return f'c05:escape-{fam}', f'{type(exc).__name__} escaped receive_message'
    if exc is not None:
        fmt = info['format']
        # "the bytes were a response": with batches unless the connection speaks 1.0; a
        # connection still auto-detecting may read a list either way
        shaped = response_shaped('v1' if fmt == 'v1' else 'v2', outcome, payload) or \
            (fmt is None and response_shaped('v2', outcome, payload))
        if not shaped:
            return reply_verdict(getattr(exc, 'error_message', None), fmt, payload)
        return None
    ret = info['ret']
    if not isinstance(ret, (list, tuple)):
        return 'c05:not-a-list', f'receive_message returned {type(ret).__name__}'
    for it in ret:
        if not isinstance(it, (mod.Request, mod.Notification)):
            return 'c05:foreign-item', f'receive_message returned a {type(it).__name__}'
    return None


def beyond_text(info):
    """what the model says in addition to the property text (compared with the model, counted
    here, never an oracle verdict): an erroring message leaves the outstanding requests alone,
    a returning one resolves / drops at most one, and drops none that is still awaited"""
    if info['exc'] is not None:
        return 'error_disturbs_outstanding' if (info['resolved'] or info['vanished']) else None
    if len(info['resolved']) > 1:
        return 'several_completed'
    if any(not e[2].done() for e in info['vanished']):
        return 'dropped_awaited_request'
    return None


_mod = None
_loop = None


def _init(repo):
    global _mod, _loop
    _mod = fresh_import(repo, 'aiorpcx.jsonrpc')
    _loop = asyncio.new_event_loop()
    asyncio.set_event_loop(_loop)


def _conn_chunk(cases):
    out = []
    for pname, setup, msgs in cases:
        outs = [loads_outcome(m) for m in msgs]
        steps, entries = run_conn_case(_mod, pname, setup, msgs)
        verdict, extra = None, None
        for m, (outcome, payload), info in zip(msgs, outs, steps):
            verdict = verdict or oracle_step(_mod, m, outcome, payload, info)
            extra = extra or beyond_text(info)
        pre = f'{pname} {setup_keys_line(entries)}'
        out.append(([(o, cc.safe_enc(p) if o == 'V' else None) for o, p in outs], pre,
                    ' || '.join(i['line'] for i in steps), verdict, extra,
                    any(i['proto_after'] is None for i in steps)))
    return out


def run_conn_impl(ctx, cases):
    if len(cases) < 20000:
        _init(ctx.repo)
        return _conn_chunk(cases)
    nproc = min(12, os.cpu_count() or 1)
    size = max(3000, len(cases) // (nproc * 3))
    jobs = [cases[i:i + size] for i in range(0, len(cases), size)]
    with Pool(nproc, initializer=_init, initargs=(ctx.repo,)) as pool:
        parts = pool.map(_conn_chunk, jobs)
    return [r for p in parts for r in p]


def blind_proto(line):
    """drop the protocol token of every step (used when the implementation's protocol in force
    cannot be read: the comparison then covers everything else)"""
    return ' || '.join('? ' + st.split(' ', 1)[1] if ' ' in st else st for st in line.split(' || '))


def evaluate_conn(ctx, res, cases, scope):
    """cases: list of (pname, setup, msg bytes | [msg bytes, ...])"""
    if not cases:
        return
    cases = [(pn, su, [m] if isinstance(m, bytes) else list(m)) for pn, su, m in cases]
    impl = run_conn_impl(ctx, cases)
    lines, idx = [], []
    for i, ((pname, setup, msgs), (outs, pre, got, verdict, extra, blind)) in enumerate(zip(cases, impl)):
        if any(o.startswith('other:') or (p is not None and p.startswith('!')) for o, p in outs):
            res.count('l3_outside_outcome_space')
            continue
        if any(1300 <= bracket_depth(m) <= 1700 for m in msgs):
            res.count('recursion_boundary_not_compared')
            continue
        lines.append(f'recv {pre} ' + ' | '.join(('V ' + p) if o == 'V' else o for o, p in outs))
        idx.append(i)
    model = ctx.model(lines)
    mp = dict(zip(idx, model)) if model is not None else {}
    for i, ((pname, setup, msgs), (outs, pre, got, verdict, extra, blind)) in enumerate(zip(cases, impl)):
        case = {'kind': 'conn', 'proto': pname, 'setup': setup,
                'msgs': [m.hex() if len(m) <= 4000 else describe_big(m) for m in msgs], 'scope': scope}
        if verdict:
            res.violation(verdict[0], case, verdict[1], impl=got[:300])
        if extra:
            res.count('beyond_text_' + extra)
        if i in mp:
            want = blind_proto(mp[i]) if blind else mp[i]
            if want != got:
                res.disagreement(case, got[:600], want[:600])
        last = got.split(' || ')[-1]
        tag = last.split(' | ', 1)[1].split(' ', 2)
        t = tag[0] + (tag[1] if tag[0] == 'PE' else '')
        res.count(f'conn_{t}')
        for o, _p in outs:
            res.count(f'loads_{o}')
        if ' D ' in got:
            res.count('conn_discarded_done_future')
        if t not in ('PE-32700',):
            res.nontrivial((pname, tuple(setup), got))
    res['evaluations'] += len(cases)


def describe_big(msg):
    """big messages are stored by a generator description the replay can rebuild"""
    for name, f in BIG.items():
        for d in BIG_SIZES:
            if f(d) == msg:
                return [name, d]
    return ['hex', msg.hex()]


# ------------------------------------------------------------------------------ generators
def deep(d, op=b'[', cl=b']', core=b''):
    return op * d + core + cl * d


BIG = {
    'deep-list': lambda d: deep(d),
    'deep-dict': lambda d: deep(d, b'{"a":', b'}', b'1'),
    'deep-unclosed': lambda d: b'[' * d,
    'deep-id': lambda d: b'{"jsonrpc":"2.0","method":"m","id":' + deep(d) + b'}',
    'deep-id-response': lambda d: b'{"jsonrpc":"2.0","result":1,"id":' + deep(d) + b'}',
    'deep-v1-response-id': lambda d: b'{"result":1,"error":null,"id":' + deep(d) + b'}',
    'deep-params': lambda d: b'{"jsonrpc":"2.0","method":"m","id":1,"params":' + deep(d) + b'}',
    'deep-error': lambda d: b'{"jsonrpc":"2.0","error":' + deep(d, b'{"a":', b'}', b'1') + b',"id":0}',
    'deep-batch-member': lambda d: b'[' + deep(d) + b']',
    'digits-id': lambda d: b'{"jsonrpc":"2.0","method":"m","id":' + b'7' * d + b'}',
    'digits-response-id': lambda d: b'{"jsonrpc":"2.0","result":1,"id":' + b'7' * d + b'}',
    'digits-bare': lambda d: b'1' * d,
    'digits-negative': lambda d: b'-' + b'9' * d,
    'digits-params': lambda d: b'{"jsonrpc":"2.0","method":"m","params":[' + b'3' * d + b'],"id":2}',
    'digits-error-code': lambda d: b'{"jsonrpc":"2.0","error":{"code":' + b'1' * d + b',"message":"x"},"id":0}',
    'digits-float': lambda d: b'{"jsonrpc":"2.0","method":"m","id":1.' + b'5' * d + b'}',
    'digits-exponent': lambda d: b'{"jsonrpc":"2.0","method":"m","id":1e' + b'9' * min(d, 400) + b'}',
    'long-string': lambda d: b'{"jsonrpc":"2.0","method":"' + b'a' * d + b'","id":1}',
    'big-batch': lambda d: b'[' + b','.join(b'{"jsonrpc":"2.0","method":"m","id":%d}' % i for i in range(min(d, 20000))) + b']',
    'big-response-batch': lambda d: b'[' + b','.join(b'{"jsonrpc":"2.0","result":1,"id":%d}' % i for i in range(min(d, 20000))) + b']',
    'big-batch-garbage': lambda d: b'[' + b','.join([b'1'] * min(d, 50000)) + b']',
}
BIG_SIZES = (1000, 1400, 1490, 1500, 1510, 2000, 4299, 4300, 4301, 5000, 10000, 100000)


def resource_family(deep_tier):
    sizes = BIG_SIZES if deep_tier else (1000, 1490, 1510, 4300, 4301, 5000, 100000)
    out = []
    for name, f in BIG.items():
        for d in sizes:
            if name.startswith('big-') and d > 5000 and not deep_tier:
                continue
            out.append(f(d))
    return out


ODD_IDS = ['[1]', '{"a":1}', '[]', '{}', 'true', 'false', 'null', '1.0', '0.0', '-0.0', '1.5', 'NaN',
           'Infinity', '-Infinity', '1e400', '-1e400', '1e-400', '""', '"0"', '"x"', '0', '1', '2', '3',
           '-1', '18446744073709551616', '[[1]]', '[null]', '"\\ud800"', '1E0', '2.0', '4']


def odd_id_messages():
    out = []
    for i in ODD_IDS:
        i = i.encode()
        out += [
            b'{"jsonrpc":"2.0","result":7,"id":' + i + b'}',
            b'{"jsonrpc":"2.0","error":{"code":1,"message":"m"},"id":' + i + b'}',
            b'{"jsonrpc":"2.0","error":5,"id":' + i + b'}',
            b'{"jsonrpc":"2.0","result":7,"error":null,"id":' + i + b'}',
            b'{"result":7,"error":null,"id":' + i + b'}',
            b'{"result":null,"error":{"code":2,"message":"m"},"id":' + i + b'}',
            b'{"result":7,"id":' + i + b'}',
            b'{"id":' + i + b'}',
            b'{"jsonrpc":"2.0","method":"m","id":' + i + b'}',
            b'{"method":"m","params":[],"id":' + i + b'}',
            b'{"method":5,"params":[],"id":' + i + b'}',
            b'[{"jsonrpc":"2.0","method":"m","id":' + i + b'}]',
            b'[{"jsonrpc":"2.0","result":1,"id":' + i + b'}]',
        ]
    # response batches: pairs / triples of ids (answers to B2 = ids 0,1 / 3,4; B3 = 2,3,4)
    ids2 = ['0', '1', '2', '3', '4', '"x"', 'null', 'true', 'false', '1.0', '0.0', '[0]', 'NaN', '{}']
    for a in ids2:
        for b in ids2:
            out.append(('[{"jsonrpc":"2.0","result":"a","id":%s},{"jsonrpc":"2.0","result":"b","id":%s}]'
                        % (a, b)).encode())
            out.append(('[{"result":"a","error":null,"id":%s},{"result":null,"error":{"code":1,"message":"e"},"id":%s}]'
                        % (a, b)).encode())
    for t in (('2', '3', '4'), ('4', '3', '2'), ('3', '2', '4'), ('2', '3', '"4"'), ('2', '3', 'null'),
              ('2.0', '3.0', '4.0'), ('true', '2', '3'), ('2', '2', '3'), ('1', '2', '0'), ('2', '1', '0')):
        out.append(('[' + ','.join('{"jsonrpc":"2.0","result":%d,"id":%s}' % (k, i)
                                   for k, i in enumerate(t)) + ']').encode())
    # members that are not dicts / mixed request+response batches
    out += [b'[1,2]', b'[{"jsonrpc":"2.0","result":1,"id":0},5]', b'[5,{"jsonrpc":"2.0","result":1,"id":0}]',
            b'[{"jsonrpc":"2.0","method":"m","id":1},{"jsonrpc":"2.0","result":1,"id":0}]',
            b'[{"jsonrpc":"2.0","method":"m","result":1,"id":0},{"jsonrpc":"2.0","result":1,"id":1}]',
            b'[{"jsonrpc":"2.0","result":1,"id":0},{"result":2,"id":1}]',
            b'[{"jsonrpc":"2.0","result":1,"id":0},{"jsonrpc":"2.0","result":1,"id":0}]',
            b'[{"jsonrpc":"2.0","result":1,"id":[0]},{"jsonrpc":"2.0","result":1,"id":1}]',
            b'[[]]', b'[{}]', b'[{"error":null}]', b'[{"result":null}]', b'[null]', b'["id"]', b'[{"jsonrpc":"2.0","method":"n"},5]',
            b'[{"jsonrpc":"2.0","method":"n"}]', b'{}', b'[]', b'null', b'5', b'"id"', b'true', b'1.5', b'NaN', b'""',
            b'{"id":1,"id":2,"jsonrpc":"2.0","result":1}', b'{"jsonrpc":"2.0","result":1,"id":0,"id":[1]}',
            b'{"method":"a","method":5,"jsonrpc":"2.0","id":1}', b'\xef\xbb\xbf{}', b' {"jsonrpc":"2.0","method":"m","id":1} ',
            b'', b' ', b'\x00', b'{"jsonrpc":"2.0","method":"m","id":1}\x00', b'{"jsonrpc":"2.0","method":"\\ud800","id":1}',
            b'{"jsonrpc":"2.0","method":"m","id":"\\udc00"}', b'{"jsonrpc":"2.0","method":"m","params":{"\\ud800":1},"id":1}']
    return out


VALID = [b'{"jsonrpc":"2.0","method":"m","params":[1,2],"id":5}', b'{"jsonrpc":"2.0","method":"n"}',
         b'{"jsonrpc":"2.0","result":[1,{"a":null}],"id":0}', b'{"jsonrpc":"2.0","error":{"code":-5,"message":"boo"},"id":1}',
         b'{"method":"m","params":[1],"id":7}', b'{"result":5,"error":null,"id":2}',
         b'{"result":null,"error":{"code":3,"message":"e"},"id":0}',
         b'[{"jsonrpc":"2.0","method":"m","id":1}, {"jsonrpc":"2.0","method":"n","params":{"a":1}}]',
         b'[{"jsonrpc":"2.0","result":1,"id":0}, {"jsonrpc":"2.0","result":2,"id":1}]',
         b'[{"jsonrpc":"2.0","result":1,"id":4}, {"jsonrpc":"2.0","error":{"code":1,"message":"x"},"id":2}, {"jsonrpc":"2.0","result":3,"id":3}]',
         PROBE]


def mutate(rng, msg):
    b = bytearray(msg)
    for _ in range(rng.choice((1, 1, 2, 3))):
        r = rng.random()
        if not b:
            b += bytes([rng.randrange(256)])
        elif r < 0.3:
            b[rng.randrange(len(b))] = rng.choice(b'{}[]",:0123456789-.eE\\ntfu \x00\xff\xc3\xe2\x80')
        elif r < 0.5:
            del b[rng.randrange(len(b))]
        elif r < 0.7:
            i = rng.randrange(len(b) + 1)
            b[i:i] = rng.choice([b'[', b']', b'{', b'}', b'"', b',', b':', b'null', b'true', b'NaN', b'1e999',
                                 b'\\ud800', b'\\u00', b'\xff', b'\xc3', b'\xe2\x82', b'-', b'"id":[1],', b'"id":null,',
                                 b'"method":1,', b'"error":0,', b'"result":0,', b'"jsonrpc":"1.0",'])
        elif r < 0.8:
            del b[rng.randrange(len(b)):]
        elif r < 0.9:
            i, j = sorted((rng.randrange(len(b)), rng.randrange(len(b))))
            b[i:j] = b[i:j] * 2
        else:
            b = bytearray(bytes(b).replace(rng.choice([b'0', b'1', b'"m"', b'2.0']),
                                           rng.choice([b'[0]', b'{}', b'true', b'1.0', b'null', b'"0"', b'1e400'])))
    return bytes(b)


def grammar_bytes(rng):
    """JSON-ish text from a small grammar: valid JSON with unusual lexical forms"""
    from harness import c04
    p = c04.random_payload(rng)
    r = rng.random()
    if r < 0.5:
        return cc.to_bytes(p)
    if r < 0.7:
        return json.dumps(p, indent=rng.choice((None, 0, 1)), ensure_ascii=rng.random() < 0.5,
                          separators=rng.choice(((',', ':'), (', ', ': '), (' ,\t', ' :\r\n')))) \
            .encode('utf-8', 'surrogatepass' if rng.random() < 0.5 else 'replace')
    if r < 0.85:
        # duplicate keys, NaN and friends
        s = cc.to_bytes(p)
        return s.replace(b'{', rng.choice([b'{"id":[1],', b'{"id":NaN,', b'{"result":Infinity,', b'{"jsonrpc":"2.0",']), 1)
    return bytes(rng.randrange(256) for _ in range(rng.randint(0, 12)))


def targeted_response(rng, setup):
    """responses aimed at the outstanding ids: right ids, permutations, near misses"""
    ids = []
    nxt = 0
    groups = []
    for s in setup:
        s = s.rstrip('cd')
        if s == 'S':
            groups.append([nxt])
            nxt += 1
        else:
            k = int(s[1:])
            groups.append(list(range(nxt, nxt + k)))
            nxt += k
    if not groups:
        groups = [[0]]
    g = list(rng.choice(groups))
    rng.shuffle(g)

    def idtext(i):
        r = rng.random()
        if r < 0.7:
            return str(i)
        return rng.choice([f'{i}.0', f'"{i}"', 'true' if i == 1 else 'false', 'null', f'[{i}]', str(i + 1),
                           f'{i}e0', f'-{i}'])

    def member(k, i):
        r = rng.random()
        v1 = rng.random() < 0.3
        if r < 0.6:
            return ('{"result":%d,"error":null,"id":%s}' if v1 else '{"jsonrpc":"2.0","result":%d,"id":%s}') % (k, idtext(i))
        if r < 0.85:
            return ('{"result":null,"error":{"code":%d,"message":"e"},"id":%s}' if v1
                    else '{"jsonrpc":"2.0","error":{"code":%d,"message":"e"},"id":%s}') % (k, idtext(i))
        return '{"jsonrpc":"2.0","id":%s}' % idtext(i)
    if len(g) == 1 and rng.random() < 0.8:
        return member(7, g[0]).encode()
    if rng.random() < 0.2:
        g = g + [rng.choice(g)] if rng.random() < 0.5 else g[:-1] or g
    return ('[' + ','.join(member(k, i) for k, i in enumerate(g)) + ']').encode()


STATES = ('empty', 'singles', 'batches', 'mixed')
# states in which a waiter has given up (future cancelled, entry still listed: what
# `sent_request_timeout` or any timeout around the wait leaves behind) or the future was
# resolved by somebody else
ABANDONED = (['Sc'], ['Sd'], ['S', 'Sc', 'S'], ['Sc', 'Sd'], ['B2c'], ['B2d'], ['B1c', 'S'],
             ['S', 'B2c', 'S'], ['B3d', 'Sc'], ['Sc', 'B2', 'Sd'], ['B2c', 'B3d'])


def abandoned_setup(rng, pname):
    su = list(rng.choice(ABANDONED))
    if pname == 'v1':
        su = [x if x[0] == 'S' else 'S' + x[2:] for x in su]
    return su


def gen_conn_cases(rng, n):
    out = []
    for _ in range(n):
        pname = rng.choice(cc.PROTO_NAMES)
        if rng.random() < 0.25:
            setup = abandoned_setup(rng, pname)
        else:
            setup = setup_for(pname, rng.choice(STATES))
        r = rng.random()
        if r < 0.3:
            msg = grammar_bytes(rng)
        elif r < 0.6:
            msg = mutate(rng, rng.choice(VALID))
        elif r < 0.9:
            msg = targeted_response(rng, setup)
            if rng.random() < 0.3:
                msg = mutate(rng, msg)
        else:
            msg = rng.choice(VALID)
        if rng.random() < 0.15:
            # a short history on one connection: the message, then it again / another response
            more = [msg if rng.random() < 0.5 else targeted_response(rng, setup)
                    for _ in range(rng.choice((1, 1, 2)))]
            out.append((pname, setup, [msg] + more))
        else:
            out.append((pname, setup, msg))
    return out


def response_to(pname, ids, kind, k=7):
    """the peer's response to the outstanding request(s) `ids` (a list for a batch)"""
    v1 = pname == 'v1'

    def one(i, n):
        if kind == 'error':
            return ({"result": None, "error": {"code": 5, "message": "e"}, "id": i} if v1
                    else {"jsonrpc": "2.0", "error": {"code": 5, "message": "e"}, "id": i})
        if kind == 'malformed':
            return {"id": i} if v1 else {"jsonrpc": "2.0", "id": i}
        if kind == 'both':
            return {"jsonrpc": "2.0", "result": n, "error": {"code": 5, "message": "e"}, "id": i}
        return {"result": n, "error": None, "id": i} if v1 else {"jsonrpc": "2.0", "result": n, "id": i}
    if isinstance(ids, list):
        return json.dumps([one(i, k + n) for n, i in enumerate(reversed(ids))]).encode()
    return json.dumps(one(ids, k)).encode()


def abandoned_family():
    """every outstanding entry of every abandoned-state setup is answered by the peer: with a
    valid response, an error response, a malformed response whose id is recoverable, a response
    with both result and error; then the same response again (a duplicate), then a valid one"""
    out = []
    for pname in cc.PROTO_NAMES:
        for su0 in ABANDONED + (['S'], ['B2'], ['S', 'B2', 'S']):
            su = list(su0)
            if pname == 'v1':
                su = [x if x[0] == 'S' else 'S' + x[2:] for x in su]
            nxt, targets = 0, []
            for tok in su:
                t = tok.rstrip('cd')
                if t == 'S':
                    targets.append(nxt)
                    nxt += 1
                else:
                    k = int(t[1:])
                    targets.append(list(range(nxt, nxt + k)))
                    nxt += k
            for ids in targets:
                for kind in ('valid', 'error', 'malformed', 'both'):
                    m = response_to(pname, ids, kind)
                    out.append((pname, su, [m]))
                    out.append((pname, su, [m, m, response_to(pname, ids, 'valid', 9)]))
            # everything answered in turn, last to first
            out.append((pname, su, [response_to(pname, ids, 'valid') for ids in reversed(targets)]))
    return out


def grid_family():
    """the probes of the decision table (tools/facts/c05.py) as ordinary cases"""
    return [(pn, pr.STATES[st], [pr.INPUTS[i]]) for pn in cc.PROTO_NAMES
            for i, st in pr.public_grid(pn)]


# ------------------------------------------------------------------------------ session level
_mods = {}


def repo_mods(repo):
    if repo not in _mods:
        _mods[repo] = (fresh_import(repo, 'aiorpcx.jsonrpc'), fresh_import(repo, 'aiorpcx.session'),
                       fresh_import(repo, 'aiorpcx.rawsocket'))
    return _mods[repo]


def run_session_case(repo, pname, setup, msgs, opts=None):
    opts = opts or {}
    return pr.run_session(repo_mods(repo), pname, setup, msgs, verbose=bool(opts.get('verbose')),
                          late=opts.get('late'), script=opts.get('script'))


def oracle_session(obs, msgs):
    """The property's second sentence: after the bytes the session still serves (the probe
    request is answered) or has closed the connection."""
    if obs.get('livelock'):
        return 'c05:session-livelock', 'the session spins without progress'
    if 'answered' not in obs:
        return 'c05:session-hang', 'the session run did not finish'
    if not obs['answered'] and not obs['closing']:
        exc = obs.get('task_exc')
        fam = family(msgs[-1] if msgs else b'', exc) if exc is not None else 'no-exception'
        return f'c05:session-wedged-{fam}', \
            'after the hostile bytes the probe request is not answered and the transport is still open'
    # "no byte sequence from the peer can crash ... message processing; no other exception type
    # escapes": message processing must not END with an exception because of what the peer sent -
    # also when the transport notices and drops the connection afterwards (a session that closes
    # the connection on purpose does so by calling close(); its message task then ends normally)
    exc = obs.get('task_exc')
    if exc is not None:
        fam = family(msgs[-1] if msgs else b'', exc)
        return f'c05:session-crashed-{fam}', \
            f'{type(exc).__name__} escaped the session\'s message processing (the task died; ' \
            f'probe answered: {obs["answered"]}, transport closing: {obs["closing"]})'
    return None


session_phase = pr.session_phase


def _sess_chunk(args):
    repo, cases = args
    out = []
    for pname, setup, msgs, opts in cases:
        obs = run_session_case(repo, pname, setup, msgs, opts)
        outcomes = [loads_outcome(m) for m in msgs]
        out.append((session_phase(obs), obs.get('per'), oracle_session(obs, msgs),
                    [(o, cc.safe_enc(p) if o == 'V' else None) for o, p in outcomes],
                    type(obs.get('task_exc')).__name__ if obs.get('task_exc') is not None else None,
                    obs.get('ask')))
    return out


def sess_model_line(pname, setup, msgs, outs, opts):
    """the model's view of a session case, or None where the model does not apply"""
    if any(o.startswith('other:') or (p is not None and p.startswith('!')) for o, p in outs) or \
            any(1300 <= bracket_depth(m) <= 1700 for m in msgs) or len(msgs) > 4:
        return None
    late = (opts or {}).get('late')
    if (opts or {}).get('script'):
        return None
    if late:
        if setup or msgs:
            return None
        # the session's own request (ids 0 / 0,1 on a fresh connection); its waiter has given
        # up unless the response comes clearly before the deadline
        sfx = '' if late['delta'] < -1e-6 else 'c'
        ids = 0 if late['what'] == 'single' or pname == 'v1' else [0, 1]
        keys = f'1 S{sfx} {E(0)}' if ids == 0 else f'1 B{sfx} {E(ids)}'
        resp = pr.late_response(pname, late['what'], late['resp'], [0] if ids == 0 else ids)
        reps = [resp, resp] if late['resp'] == 'duplicate' else [resp]
        outs = [loads_outcome(r) for r in reps]
        outs = [(o, cc.safe_enc(p) if o == 'V' else None) for o, p in outs]
    elif not msgs:
        return None
    else:
        keys = fake_keys(setup)
    return f'sess {pname} {keys} ' + ' | '.join(('V ' + p) if o == 'V' else o for o, p in outs)


def evaluate_sessions(ctx, res, cases, scope):
    """cases: list of (pname, setup, [msg bytes][, opts])"""
    if not cases:
        return
    cases = [(c[0], c[1], c[2], c[3] if len(c) > 3 else None) for c in cases]
    if len(cases) < 1500:
        impl = _sess_chunk((ctx.repo, cases))
    else:
        nproc = min(12, os.cpu_count() or 1)
        size = max(200, len(cases) // (nproc * 3))
        jobs = [(ctx.repo, cases[i:i + size]) for i in range(0, len(cases), size)]
        with Pool(nproc) as pool:
            parts = pool.map(_sess_chunk, jobs)
        impl = [r for p in parts for r in p]
    lines, idx = [], []
    for i, ((pname, setup, msgs, opts), (phase, per, verdict, outs, texc, ask)) in enumerate(zip(cases, impl)):
        line = sess_model_line(pname, setup, msgs, outs, opts)
        if line is not None:
            lines.append(line)
            idx.append(i)
    model = ctx.model(lines)
    mp = dict(zip(idx, model)) if model is not None else {}
    for i, ((pname, setup, msgs, opts), (phase, per, verdict, outs, texc, ask)) in enumerate(zip(cases, impl)):
        case = {'kind': 'session', 'proto': pname, 'setup': setup,
                'msgs': [m.hex() if len(m) <= 4000 else describe_big(m) for m in msgs], 'scope': scope}
        if opts:
            case['opts'] = opts
        if verdict:
            res.violation(verdict[0], case, verdict[1], impl=f'phase={phase} task_exc={texc} ask={ask}')
        res.count('session_' + phase)
        if opts and opts.get('verbose'):
            res.count('session_with_debug_logging')
        if opts and opts.get('late'):
            res.count(f'session_late_{ask}')
        if opts and opts.get('script'):
            res.count('session_history')
            for a_ in (ask or '').split(','):
                if a_:
                    res.count(f'session_history_ask_{a_}')
        if i in mp:
            mphase, mobs = (mp[i].split(' ', 1) + [''])[:2]
            mobs = mobs.split(',') if mobs else []
            bad = mphase != phase
            # an error reply is exactly one write, silence is none (spawned work is not compared)
            if not bad and per is not None and len(mobs) == len(per) and phase != 'dead' \
                    and not (opts and opts.get('late')):
                for o, w in zip(mobs, per):
                    if o == 'reply' and w != 1:
                        bad = True
                    if o in ('silent', 'resolved', 'discarded', '-') and w != 0:
                        bad = True
            if bad:
                res.disagreement(case, f'{phase} writes={per}', mp[i])
        res.nontrivial(('s', pname, tuple(setup), tuple(m[:60] + m[90:110] for m in msgs),
                        json.dumps(opts, sort_keys=True) if opts else None))
    res['evaluations'] += len(cases)


def fake_keys(setup):
    toks, nxt = [], 0
    for s in setup:
        sfx = s[-1] if s[-1] in 'cd' else ''
        s = s.rstrip('cd')
        if s == 'S':
            toks.append(f'S{sfx} {E(nxt)}')
            nxt += 1
        else:
            k = int(s[1:])
            toks.append(f'B{sfx} {E(list(range(nxt, nxt + k)))}')
            nxt += k
    return f'{len(toks)}' + ''.join(' ' + t for t in toks)


def gen_session_cases(rng, n, pool):
    out = []
    for _ in range(n):
        pname = rng.choice(cc.PROTO_NAMES)
        if rng.random() < 0.2:
            setup = abandoned_setup(rng, pname)
        else:
            setup = setup_for(pname, rng.choice(STATES))
        k = rng.choice((1, 1, 2, 3))
        msgs = []
        for _ in range(k):
            r = rng.random()
            if r < 0.45:
                msgs.append(rng.choice(pool))
            elif r < 0.7:
                msgs.append(mutate(rng, rng.choice(VALID)))
            elif r < 0.9:
                msgs.append(targeted_response(rng, setup))
            else:
                msgs.append(rng.choice(VALID))
        opts = {'verbose': True} if rng.random() < 0.3 else None
        out.append((pname, setup, msgs, opts))
    return out


# plausible places for code to cut a message (for a log line, a preview, a size check)
CUTS = (100, 64, 128, 256, 1000, 1024)


def long_message_family(deep_tier):
    """long messages of every kind, with a 2-, 3- or 4-byte character (and an ASCII control)
    beginning at every offset 96..102 - so that it straddles byte 100 in every possible way -
    and just before the other plausible cut points; each with logging at its defaults and with
    debug logging, verbosity and log_me switched on"""
    out = []
    for kind in pr.KINDS:
        for width in (2, 3, 4, 1):
            starts = list(range(90, 111) if deep_tier else range(96, 103))
            for cut in CUTS[1:]:
                starts += list(range(cut - 4, cut + 2)) if deep_tier else [cut - 1]
            if width == 1:
                starts = [99, 1023]
            for start in starts:
                m = pr.long_message(kind, width, start)
                for verbose in (False, True):
                    out.append(('v2', [], [m], {'verbose': True} if verbose else None))
    # dense runs: every cut point from behind the fixed prefix to byte 1100, and from byte 2
    for verbose in (False, True):
        opts = {'verbose': True} if verbose else None
        for kind in pr.KINDS:
            for width in (2, 3, 4):
                for align in range(width):
                    out.append(('v2', [], [pr.dense_message(kind, width, align)], opts))
        for kind in pr.EARLY:
            for width in (2, 3, 4):
                for align in range(width):
                    out.append(('v2', [], [pr.early_message(kind, width, align)], opts))
    # the same message classes on the other protocols, one representative each
    for pname in ('v1', 'loose', 'auto'):
        for kind in pr.KINDS:
            for width in (2, 3, 4):
                out.append((pname, [], [pr.straddling(kind, width, 100)], {'verbose': True}))
                out.append((pname, [], [pr.straddling(kind, width, 100)], None))
    return out


# seconds between the deadline of the session's own request and the delivery of the peer's
# response; -5e-10 is below the loop's clock resolution: same loop iteration, ahead of the timer
LATE_DELTAS = (-1.0, -5e-10, 0.0, 5e-10, 1.0)


def late_family(deep_tier):
    """the session's own request (batch) times out (sent_request_timeout) and the peer's
    response - valid, error, malformed with the id, sent twice - is delivered around the
    deadline, in particular in the same loop iteration as the timeout; then the probe"""
    out = []
    for pname in ('v2', 'loose', 'v1', 'auto') if deep_tier else ('v2', 'v1', 'auto'):
        for what in ('single', 'batch'):
            if what == 'batch' and pname == 'v1':
                continue
            for resp in ('valid', 'error', 'malformed', 'duplicate'):
                for delta in LATE_DELTAS:
                    for verbose in ((False, True) if deep_tier else (False,)):
                        opts = {'late': {'what': what, 'resp': resp, 'delta': delta}}
                        if verbose:
                            opts['verbose'] = True
                        out.append((pname, [], [], opts))
    return out


ANSWER_KINDS = ('valid', 'error', 'malformed', 'duplicate')


def history_family(rng, n, pool):
    """random histories of local and remote activity before the probe: the session sends
    requests and batches of its own, time passes (their timeouts fire), the peer answers them -
    at once, or around the deadline (in particular in the same loop iteration as the timeout) -
    correctly, with errors, malformed, twice, and sends hostile bytes in between"""
    out = []
    small = [m for m in pool if len(m) < 400]
    for _ in range(n):
        pname = rng.choice(('v2', 'v2', 'loose', 'auto', 'v1'))
        steps, asks = [], 0
        for _k in range(rng.randint(2, 7)):
            r = rng.random()
            if asks == 0 or r < 0.3:
                steps.append(['ask', rng.choice(('single', 'batch'))])
                asks += 1
            elif r < 0.42:
                steps.append(['sleep', rng.choice((0.0, 1.0, 29.0, 29.9999999995, 30.0, 31.0))])
            elif r < 0.82:
                steps.append(['answer', rng.randrange(asks), rng.choice(ANSWER_KINDS),
                              rng.choice((None, -1.0, -5e-10, -5e-10, 0.0, 5e-10, 1.0))])
            else:
                steps.append(['peer', rng.choice(small).hex()])
        opts = {'script': steps}
        if rng.random() < 0.3:
            opts['verbose'] = True
        msgs = [rng.choice(small)] if rng.random() < 0.3 else []
        out.append((pname, [], msgs, opts))
    return out


# ------------------------------------------------------------------------------ corpus / replay
def rebuild(m):
    if isinstance(m, list):
        if m[0] == 'hex':
            return bytes.fromhex(m[1])
        if m[0] == 'long':
            return pr.long_message(m[1], m[2], m[3])
        return BIG[m[0]](m[1])
    return bytes.fromhex(m)


def load_corpus(verif):
    path = os.path.join(verif, 'corpus', 'C05.txt')
    conn, sess = [], []
    if os.path.exists(path):
        for line in open(path):
            line = line.strip()
            if not line or line.startswith('#'):
                continue
            d = json.loads(line)
            if d['kind'] == 'conn':
                if 'texts' in d:
                    msgs = [t.encode() for t in d['texts']]
                elif 'msgs' in d:
                    msgs = [rebuild(m) for m in d['msgs']]
                else:
                    msgs = [rebuild(d['gen']) if d.get('gen') else (
                        d['text'].encode() if 'text' in d else bytes.fromhex(d['hex']))]
                conn.append((d['proto'], d['setup'], msgs))
            else:
                sess.append((d['proto'], d['setup'], [rebuild(m) for m in d['msgs']], d.get('opts')))
    return conn, sess


RULE = ('connection case = (protocol class, outstanding requests: none / 3 singles / batches of 2 '
        'and 3 / mixed / states in which a waiter gave up or the future is already resolved, one '
        'message or a short sequence on the same connection); session case = (protocol, '
        'outstanding, 0-3 hostile messages, logging off or fully on, optionally a history before '
        'them: the session\'s own requests / batches timing out, time passing, the peer answering '
        'them at once or around the deadline - in particular in the same loop iteration as the '
        'timeout - and sending hostile bytes in between; then a probe request) on a real RPCSession over a fake transport and the virtual loop.  Messages: the '
        'odd-typed-id table (32 id texts x 13 message shapes, all id pairs in 2-member response '
        'batches), the decision-table grid, responses of four kinds (+ duplicates) to every entry '
        'of every abandoned state, the resource-limit family (nesting 10^3..10^5 in six '
        'positions, 10^3..10^5-digit numbers in seven positions, 20k-member batches) in every '
        'state x protocol; seeded grammar-based JSON text (odd whitespace, duplicate keys, NaN, '
        'raw non-ASCII), byte-mutated valid messages, invalid UTF-8, responses aimed at the '
        'outstanding ids (permuted, duplicated, near-miss id types); long messages of 8 kinds '
        'with a 2/3/4-byte character starting at every offset 96..102 and before 64/128/256/1000/'
        '1024, and dense runs of 2/3/4-byte characters in every alignment over bytes 2..140 and '
        '~30..1100 (every cut point inside a character).  non-trivial = distinct (protocol, state, result line) other than plain parse '
        'errors; distinct session cases')


def run(ctx):
    res = Results()
    rng = ctx.rng
    # (a) corpus first (pinned witnesses F4-F6 are its first lines)
    cconn, csess = load_corpus(ctx.verif)
    evaluate_conn(ctx, res, cconn, 'corpus')
    evaluate_sessions(ctx, res, csess, 'corpus')
    res['scopes']['corpus'] = len(cconn) + len(csess)
    # (b) exhaustive tables: decision-table grid, abandoned states, odd ids, resource limits
    cases = grid_family()
    evaluate_conn(ctx, res, cases, 'grid')
    res['scopes']['grid_cases'] = len(cases)
    cases = abandoned_family()
    evaluate_conn(ctx, res, cases, 'abandoned')
    res['scopes']['abandoned_state_cases'] = len(cases)
    odd = odd_id_messages()
    cases = [(pn, setup_for(pn, st), m) for m in odd for pn in cc.PROTO_NAMES for st in STATES]
    evaluate_conn(ctx, res, cases, 'odd-ids')
    res['scopes']['odd_id_messages'] = {'messages': len(odd), 'cases': len(cases)}
    # three depths: quick / drift (quick tier after a fingerprint drift or a broken obligation: the
    # generated families grow, the structured ones stay, so that the run stays within ~90 s) /
    # thorough
    full = ctx.tier == 'thorough'
    drift = bool(ctx.deep) and not full
    big = resource_family(full)
    states = STATES if full else ('mixed',)
    cases = [(pn, setup_for(pn, st), m) for m in big for pn in cc.PROTO_NAMES for st in states]
    evaluate_conn(ctx, res, cases, 'resource-limits')
    res['scopes']['resource_limit_messages'] = {'messages': len(big), 'cases': len(cases)}
    # (c) seeded generated
    n = 150000 if full else 25000 if drift else 7000
    evaluate_conn(ctx, res, gen_conn_cases(rng, n), 'generated')
    res['scopes']['generated_conn'] = n
    # (d) session level
    scases = late_family(full)
    evaluate_sessions(ctx, res, scases, 'late-response')
    res['scopes']['session_late_response_cases'] = len(scases)
    lcases = long_message_family(full)
    evaluate_sessions(ctx, res, lcases, 'long-messages')
    res['scopes']['session_long_message_cases'] = len(lcases)
    small_big = [BIG[k](d) for k in ('deep-list', 'deep-id-response', 'digits-id', 'digits-bare', 'deep-unclosed')
                 for d in ((1000, 5000, 100000) if not full else BIG_SIZES)]
    pool = odd + small_big * 3
    hcases = history_family(rng, 6000 if full else 900 if drift else 250, odd + VALID)
    evaluate_sessions(ctx, res, hcases, 'history')
    res['scopes']['session_history_cases'] = len(hcases)
    ns = 12000 if full else 1500 if drift else 400
    gcases = [(pn, setup_for(pn, 'mixed'), [m], None) for m in small_big for pn in ('v2', 'v1')]
    gcases += gen_session_cases(rng, ns, pool)
    evaluate_sessions(ctx, res, gcases, 'session')
    res['scopes']['session_cases'] = len(gcases)
    for c in gcases[-2:]:
        res.sample({'proto': c[0], 'setup': c[1], 'msgs': [m[:80].decode('latin-1') for m in c[2]]})
    res['scopes']['depth'] = 'thorough' if full else 'drift' if drift else 'quick'
    return res.finish(RULE, exhaustive=True)


def replay(ctx, case):
    if 'case' in case and isinstance(case['case'], dict):
        case = case['case']
    res = Results()
    if case.get('kind') == 'conn':
        if 'msgs' in case:
            msgs = [rebuild(m) for m in case['msgs']]
        else:
            msgs = [rebuild(case['gen']) if case.get('gen') else bytes.fromhex(case['hex'])]
        evaluate_conn(ctx, res, [(case['proto'], case['setup'], msgs)], 'replay')
    elif case.get('kind') == 'session':
        evaluate_sessions(ctx, res, [(case['proto'], case['setup'], [rebuild(m) for m in case['msgs']],
                                      case.get('opts'))], 'replay')
    res.sample({k: v for k, v in case.items() if k != 'hex'})
    return res.finish('replay of one recorded case')
