"""C05 correspondence + search: hostile bytes against the real `JSONRPCConnection.receive_message`
(in connection states empty / singles outstanding / batches outstanding, for every protocol
class) and against a real `RPCSession` on a fake transport under the virtual loop (hostile
messages, then a probe request), compared with the Lean model (`drv_c05`) and judged by the
property oracle written from the property text."""
import asyncio
import json
import logging
import os
import random
from multiprocessing import Pool

from harness import jwire, vloop, c05_fake
from harness.base import Results
from harness import codec_common as cc
from tools.facts.common import fresh_import

E = jwire.enc
same = jwire.same
# futures completed with an exception are inspected, not awaited
logging.getLogger('asyncio').setLevel(logging.CRITICAL)
PROBE = b'{"jsonrpc":"2.0","method":"ping","params":[],"id":99}'
PROBE_ID = 99


# ------------------------------------------------------------------------------ classification
def loads_outcome(msg):
    """the outcome of json.loads(message.decode()) as the model's LoadsOutcome token"""
    try:
        v = json.loads(msg.decode())
    except UnicodeDecodeError:
        return 'unicode', None
    except json.JSONDecodeError:
        return 'json', None
    except RecursionError:
        return 'recursion', None
    except ValueError:
        return 'intdigits', None
    except BaseException as e:   # noqa  (law L3 does not hold for this input)
        if isinstance(e, (KeyboardInterrupt, SystemExit)):
            raise
        return 'other:' + type(e).__name__, None
    return 'V', v


def bracket_depth(msg):
    d = m = 0
    for b in msg[:400000]:
        if b in (91, 123):
            d += 1
            if d > m:
                m = d
        elif b in (93, 125):
            d -= 1
    return m


def response_shaped(pname, outcome, payload):
    """'the bytes were a response', from the documentation of message_to_item: a JSON object
    without a "method" member, or (for protocols with batches) a non-empty array whose members
    are all objects with a "result" or an "error" member"""
    if outcome != 'V':
        return False
    if isinstance(payload, dict):
        return 'method' not in payload
    if isinstance(payload, list) and pname != 'v1':
        return bool(payload) and all(isinstance(p, dict) and ('result' in p or 'error' in p)
                                     for p in payload)
    return False


def family(msg, exc):
    """classifies the failing input family for the violation key"""
    if isinstance(exc, RecursionError):
        return 'RecursionError-deep-nesting'
    if isinstance(exc, ValueError) and not isinstance(exc, json.JSONDecodeError):
        return 'ValueError-int-digits'
    if isinstance(exc, TypeError):
        o, p = loads_outcome(msg)
        if isinstance(p, list):
            return 'TypeError-response-batch-ids'
        if isinstance(p, dict) and isinstance(p.get('id'), (list, dict)):
            return 'TypeError-unhashable-response-id'
        return 'TypeError-other'
    return type(exc).__name__


# ------------------------------------------------------------------------------ connection level
def build_conn(mod, cls, setup):
    """setup: list of 'S' (single request) / 'B<k>' (batch of k requests + one notification).
    Returns (conn, entries) with entries = [('S', id, future) | ('B', ids, future)]."""
    conn = mod.JSONRPCConnection(cls)
    entries = []
    nxt = 0
    for s in setup:
        if s == 'S':
            _m, fut = conn.send_request(mod.Request('m', []))
            entries.append(('S', nxt, fut))
            nxt += 1
        else:
            k = int(s[1:])
            items = [mod.Request('m', []) for _ in range(k)] + [mod.Notification('n', [])]
            _m, fut = conn.send_batch(mod.Batch(items))
            entries.append(('B', list(range(nxt, nxt + k)), fut))
            nxt += k
    return conn, entries


def setup_for(pname, state):
    if state == 'empty':
        return []
    if state == 'singles' or pname == 'v1':
        return ['S', 'S', 'S']
    if state == 'batches':
        return ['B2', 'B3']
    return ['S', 'B2', 'S']


def keys_line(entries):
    out = []
    for e in entries:
        out.append(('S ' + E(e[1])) if e[0] == 'S' else ('B ' + E(e[1])))
    return f'{len(entries)}' + ''.join(' ' + k for k in out)


def respval_line(mod, r):
    if isinstance(r, mod.RPCError):
        m = jwire.str_tok(r.message) if isinstance(r.message, str) else '!' + type(r.message).__name__
        return f'E {cc.safe_enc(r.code)} {m}'
    if isinstance(r, mod.ProtocolError):
        return f'X {r.code}'
    if isinstance(r, BaseException):
        return '!' + type(r).__name__
    return 'V ' + cc.safe_enc(r)


def completion_line(mod, entry):
    fut = entry[2]
    if fut.cancelled():
        return '!cancelled'
    exc = fut.exception()
    if entry[0] == 'S':
        return respval_line(mod, exc if exc is not None else fut.result())
    if exc is not None:
        return '!' + type(exc).__name__
    res = fut.result()
    return f'L {len(res)}' + ''.join(' ' + respval_line(mod, r) for r in res)


def item_ids(mod, items):
    """ids the returned Request items answer under, read back through `send_result`"""
    reqs = [it for it in items if isinstance(it, mod.Request)]
    ids = {}
    if not reqs:
        return ids
    last = None
    for k, it in enumerate(reqs):
        try:
            last = it.send_result(k)
        except Exception:
            # the reply to a request the connection just accepted cannot be built
            return None
    try:
        resp = json.loads(last.decode())
    except Exception:
        return None
    if isinstance(resp, dict):
        resp = [resp]
    try:
        by_result = {r['result']: r['id'] for r in resp if isinstance(r, dict) and 'result' in r}
    except TypeError:
        return None
    for k, it in enumerate(reqs):
        if k not in by_result:
            return None
        ids[id(it)] = by_result[k]
    return ids


def run_conn_case(mod, pname, setup, msg):
    """-> dict(line=canonical result line, state=post-state line, raw outcome for the oracle)"""
    cls = cc.protos(mod)[pname]
    conn, entries = build_conn(mod, cls, setup)
    pending_before = len(conn.pending_requests())
    try:
        ret = conn.receive_message(msg)
        exc = None
    except BaseException as e:   # noqa
        if isinstance(e, (KeyboardInterrupt, SystemExit)):
            raise
        ret, exc = None, e
    done = [e for e in entries if e[2].done()]
    remaining = [e for e in entries if not e[2].done()]
    proto_after = cc.proto_name(mod, getattr(conn, '_protocol', cls))
    state = f'{proto_after} {keys_line(remaining)}'
    info = {'exc': exc, 'ret': ret, 'done': done, 'entries': entries,
            'pending_before': pending_before, 'pending_after': len(conn.pending_requests()),
            'proto_after': proto_after}
    if exc is not None:
        line = cc.exc_line(mod, exc)
    else:
        items = list(ret) if isinstance(ret, (list, tuple)) else None
        if items is None:
            line = '!returned:' + type(ret).__name__
        else:
            ids = item_ids(mod, items)
            parts = []
            for it in items:
                if isinstance(it, mod.Request):
                    rid = cc.safe_enc(ids[id(it)]) if ids is not None else '!noid'
                    parts.append(f'R {jwire.str_tok(it.method)} {cc.safe_enc(it.args)} {rid}')
                elif isinstance(it, mod.Notification):
                    parts.append(f'N {jwire.str_tok(it.method)} {cc.safe_enc(it.args)}')
                else:
                    parts.append('!item:' + type(it).__name__)
            if len(done) == 0:
                d = '-'
            elif len(done) == 1:
                e = done[0]
                d = ('S ' + E(e[1]) if e[0] == 'S' else 'B ' + E(e[1])) + ' ' + completion_line(mod, e)
            else:
                d = f'!{len(done)}-futures-completed'
            line = f'ok {len(items)}' + ''.join(' ' + p for p in parts) + ' ' + d
    info['line'] = line
    info['state'] = state
    return info


def oracle_conn(mod, pname, msg, outcome, payload, info):
    """Returns None or (key, why)."""
    exc = info['exc']
    if exc is not None and not isinstance(exc, mod.ProtocolError):
        fam = family(msg, exc)
        return f'c05:escape-{fam}', f'{type(exc).__name__} escaped receive_message'
    if exc is not None:
        # an erroring message leaves the outstanding requests alone
        if info['done'] or info['pending_after'] != info['pending_before']:
            return 'c05:error-disturbs-outstanding', 'a message that raised completed or dropped a request'
        if not response_shaped(info['proto_after'], outcome, payload):
            em = exc.error_message
            if em is None:
                return 'c05:no-reply-for-non-response', \
                    'ProtocolError for bytes that are not a response carries no error reply'
            if not isinstance(em, bytes) or b'\n' in em:
                return 'c05:reply-not-one-line', 'error reply is not one newline-free byte string'
            try:
                obj = cc.strict_loads(em)
            except Exception:
                # the one known way: the peer's id was NaN / Infinity / 1e400 (tokens Python's
                # json accepts and re-emits although they are not JSON) and is echoed back
                try:
                    lenient = json.loads(em.decode())
                    members = lenient if isinstance(lenient, list) else [lenient]
                    echoed = [m.get('id') for m in members if isinstance(m, dict)]
                    if any(isinstance(x, float) and (x != x or x in (float('inf'), float('-inf')))
                           for x in echoed):
                        return 'c05:reply-echoes-nonfinite-id', \
                            'error reply echoes a non-finite float id as a non-JSON token'
                except Exception:
                    pass
                return 'c05:reply-not-json', 'error reply is not valid JSON'
            objs = obj if isinstance(obj, list) else [obj]
            if not objs:
                return 'c05:reply-empty-batch', 'error reply is an empty batch'
            want_v1 = info['proto_after'] == 'v1'
            for o in objs:
                if not isinstance(o, dict) or not isinstance(o.get('error'), dict) \
                        or not isinstance(o['error'].get('code'), int) \
                        or isinstance(o['error'].get('code'), bool) \
                        or not isinstance(o['error'].get('message'), str) or 'id' not in o:
                    return 'c05:reply-ill-formed', 'error reply is not a well-formed error response'
                if want_v1:
                    if 'result' not in o or o['result'] is not None:
                        return 'c05:reply-format', '1.0 error reply must carry "result": null'
                elif o.get('jsonrpc') != '2.0' or 'result' in o:
                    return 'c05:reply-format', '2.0 error reply must carry "jsonrpc":"2.0" and no result'
            if not isinstance(obj, list):
                pid = payload.get('id') if isinstance(payload, dict) else None
                if not (obj['id'] is None or same(obj['id'], pid)):
                    return 'c05:reply-id', 'error reply id is neither null nor the request id'
        return None
    ret = info['ret']
    if not isinstance(ret, (list, tuple)):
        return 'c05:not-a-list', f'receive_message returned {type(ret).__name__}'
    for it in ret:
        if not isinstance(it, (mod.Request, mod.Notification)):
            return 'c05:foreign-item', f'receive_message returned a {type(it).__name__}'
    if len(info['done']) > 1:
        return 'c05:several-completed', 'one message completed several outstanding requests'
    if info['pending_before'] - info['pending_after'] != len(info['done']):
        return 'c05:dropped-request', 'an outstanding request vanished without being completed'
    return None


_mod = None
_loop = None


def _init(repo):
    global _mod, _loop
    _mod = fresh_import(repo, 'aiorpcx.jsonrpc')
    _loop = asyncio.new_event_loop()
    asyncio.set_event_loop(_loop)


def _conn_chunk(cases):
    out = []
    for pname, setup, msg in cases:
        outcome, payload = loads_outcome(msg)
        info = run_conn_case(_mod, pname, setup, msg)
        verdict = oracle_conn(_mod, pname, msg, outcome, payload, info)
        _c, entries = None, info['entries']
        pre = f'{pname} {keys_line([(e[0], e[1], None) for e in entries])}'
        out.append((outcome, cc.safe_enc(payload) if outcome == 'V' else None, pre,
                    info['state'] + ' | ' + info['line'], verdict))
    return out


def run_conn_impl(ctx, cases):
    if len(cases) < 20000:
        _init(ctx.repo)
        return _conn_chunk(cases)
    nproc = min(12, os.cpu_count() or 1)
    size = max(3000, len(cases) // (nproc * 3))
    jobs = [cases[i:i + size] for i in range(0, len(cases), size)]
    with Pool(nproc, initializer=_init, initargs=(ctx.repo,)) as pool:
        parts = pool.map(_conn_chunk, jobs)
    return [r for p in parts for r in p]


def evaluate_conn(ctx, res, cases, scope):
    """cases: list of (pname, setup, msg bytes)"""
    if not cases:
        return
    impl = run_conn_impl(ctx, cases)
    lines, idx = [], []
    for i, ((pname, setup, msg), (outcome, penc, pre, got, verdict)) in enumerate(zip(cases, impl)):
        if outcome.startswith('other:') or (penc is not None and penc.startswith('!')):
            res.count('l3_outside_outcome_space')
            continue
        if 1300 <= bracket_depth(msg) <= 1700:
            res.count('recursion_boundary_not_compared')
            continue
        lines.append(f'recv {pre} ' + ('V ' + penc if outcome == 'V' else outcome))
        idx.append(i)
    model = ctx.model(lines)
    mp = dict(zip(idx, model)) if model is not None else {}
    for i, ((pname, setup, msg), (outcome, penc, pre, got, verdict)) in enumerate(zip(cases, impl)):
        case = {'kind': 'conn', 'proto': pname, 'setup': setup, 'hex': msg.hex() if len(msg) <= 4000 else None,
                'gen': None if len(msg) <= 4000 else describe_big(msg), 'scope': scope}
        if verdict:
            res.violation(verdict[0], case, verdict[1], impl=got[:300])
        if i in mp and mp[i] != got:
            res.disagreement(case, got[:600], mp[i][:600])
        tag = got.split(' | ', 1)[1].split(' ', 2)
        t = tag[0] + (tag[1] if tag[0] == 'PE' else '')
        res.count(f'conn_{t}')
        res.count(f'loads_{outcome}')
        if t not in ('PE-32700',):
            res.nontrivial((pname, tuple(setup), got))
    res['evaluations'] += len(cases)


def describe_big(msg):
    """big messages are stored by a generator description the replay can rebuild"""
    for name, f in BIG.items():
        for d in BIG_SIZES:
            if f(d) == msg:
                return [name, d]
    return ['hex', msg.hex()]


# ------------------------------------------------------------------------------ generators
def deep(d, op=b'[', cl=b']', core=b''):
    return op * d + core + cl * d


BIG = {
    'deep-list': lambda d: deep(d),
    'deep-dict': lambda d: deep(d, b'{"a":', b'}', b'1'),
    'deep-unclosed': lambda d: b'[' * d,
    'deep-id': lambda d: b'{"jsonrpc":"2.0","method":"m","id":' + deep(d) + b'}',
    'deep-id-response': lambda d: b'{"jsonrpc":"2.0","result":1,"id":' + deep(d) + b'}',
    'deep-v1-response-id': lambda d: b'{"result":1,"error":null,"id":' + deep(d) + b'}',
    'deep-params': lambda d: b'{"jsonrpc":"2.0","method":"m","id":1,"params":' + deep(d) + b'}',
    'deep-error': lambda d: b'{"jsonrpc":"2.0","error":' + deep(d, b'{"a":', b'}', b'1') + b',"id":0}',
    'deep-batch-member': lambda d: b'[' + deep(d) + b']',
    'digits-id': lambda d: b'{"jsonrpc":"2.0","method":"m","id":' + b'7' * d + b'}',
    'digits-response-id': lambda d: b'{"jsonrpc":"2.0","result":1,"id":' + b'7' * d + b'}',
    'digits-bare': lambda d: b'1' * d,
    'digits-negative': lambda d: b'-' + b'9' * d,
    'digits-params': lambda d: b'{"jsonrpc":"2.0","method":"m","params":[' + b'3' * d + b'],"id":2}',
    'digits-error-code': lambda d: b'{"jsonrpc":"2.0","error":{"code":' + b'1' * d + b',"message":"x"},"id":0}',
    'digits-float': lambda d: b'{"jsonrpc":"2.0","method":"m","id":1.' + b'5' * d + b'}',
    'digits-exponent': lambda d: b'{"jsonrpc":"2.0","method":"m","id":1e' + b'9' * min(d, 400) + b'}',
    'long-string': lambda d: b'{"jsonrpc":"2.0","method":"' + b'a' * d + b'","id":1}',
    'big-batch': lambda d: b'[' + b','.join(b'{"jsonrpc":"2.0","method":"m","id":%d}' % i for i in range(min(d, 20000))) + b']',
    'big-response-batch': lambda d: b'[' + b','.join(b'{"jsonrpc":"2.0","result":1,"id":%d}' % i for i in range(min(d, 20000))) + b']',
    'big-batch-garbage': lambda d: b'[' + b','.join([b'1'] * min(d, 50000)) + b']',
}
BIG_SIZES = (1000, 1400, 1490, 1500, 1510, 2000, 4299, 4300, 4301, 5000, 10000, 100000)


def resource_family(deep_tier):
    sizes = BIG_SIZES if deep_tier else (1000, 1490, 1510, 4300, 4301, 5000, 100000)
    out = []
    for name, f in BIG.items():
        for d in sizes:
            if name.startswith('big-') and d > 5000 and not deep_tier:
                continue
            out.append(f(d))
    return out


ODD_IDS = ['[1]', '{"a":1}', '[]', '{}', 'true', 'false', 'null', '1.0', '0.0', '-0.0', '1.5', 'NaN',
           'Infinity', '-Infinity', '1e400', '-1e400', '1e-400', '""', '"0"', '"x"', '0', '1', '2', '3',
           '-1', '18446744073709551616', '[[1]]', '[null]', '"\\ud800"', '1E0', '2.0', '4']


def odd_id_messages():
    out = []
    for i in ODD_IDS:
        i = i.encode()
        out += [
            b'{"jsonrpc":"2.0","result":7,"id":' + i + b'}',
            b'{"jsonrpc":"2.0","error":{"code":1,"message":"m"},"id":' + i + b'}',
            b'{"jsonrpc":"2.0","error":5,"id":' + i + b'}',
            b'{"jsonrpc":"2.0","result":7,"error":null,"id":' + i + b'}',
            b'{"result":7,"error":null,"id":' + i + b'}',
            b'{"result":null,"error":{"code":2,"message":"m"},"id":' + i + b'}',
            b'{"result":7,"id":' + i + b'}',
            b'{"id":' + i + b'}',
            b'{"jsonrpc":"2.0","method":"m","id":' + i + b'}',
            b'{"method":"m","params":[],"id":' + i + b'}',
            b'{"method":5,"params":[],"id":' + i + b'}',
            b'[{"jsonrpc":"2.0","method":"m","id":' + i + b'}]',
            b'[{"jsonrpc":"2.0","result":1,"id":' + i + b'}]',
        ]
    # response batches: pairs / triples of ids (answers to B2 = ids 0,1 / 3,4; B3 = 2,3,4)
    ids2 = ['0', '1', '2', '3', '4', '"x"', 'null', 'true', 'false', '1.0', '0.0', '[0]', 'NaN', '{}']
    for a in ids2:
        for b in ids2:
            out.append(('[{"jsonrpc":"2.0","result":"a","id":%s},{"jsonrpc":"2.0","result":"b","id":%s}]'
                        % (a, b)).encode())
            out.append(('[{"result":"a","error":null,"id":%s},{"result":null,"error":{"code":1,"message":"e"},"id":%s}]'
                        % (a, b)).encode())
    for t in (('2', '3', '4'), ('4', '3', '2'), ('3', '2', '4'), ('2', '3', '"4"'), ('2', '3', 'null'),
              ('2.0', '3.0', '4.0'), ('true', '2', '3'), ('2', '2', '3'), ('1', '2', '0'), ('2', '1', '0')):
        out.append(('[' + ','.join('{"jsonrpc":"2.0","result":%d,"id":%s}' % (k, i)
                                   for k, i in enumerate(t)) + ']').encode())
    # members that are not dicts / mixed request+response batches
    out += [b'[1,2]', b'[{"jsonrpc":"2.0","result":1,"id":0},5]', b'[5,{"jsonrpc":"2.0","result":1,"id":0}]',
            b'[{"jsonrpc":"2.0","method":"m","id":1},{"jsonrpc":"2.0","result":1,"id":0}]',
            b'[{"jsonrpc":"2.0","method":"m","result":1,"id":0},{"jsonrpc":"2.0","result":1,"id":1}]',
            b'[{"jsonrpc":"2.0","result":1,"id":0},{"result":2,"id":1}]',
            b'[{"jsonrpc":"2.0","result":1,"id":0},{"jsonrpc":"2.0","result":1,"id":0}]',
            b'[{"jsonrpc":"2.0","result":1,"id":[0]},{"jsonrpc":"2.0","result":1,"id":1}]',
            b'[[]]', b'[{}]', b'[{"error":null}]', b'[{"result":null}]', b'[null]', b'["id"]', b'[{"jsonrpc":"2.0","method":"n"},5]',
            b'[{"jsonrpc":"2.0","method":"n"}]', b'{}', b'[]', b'null', b'5', b'"id"', b'true', b'1.5', b'NaN', b'""',
            b'{"id":1,"id":2,"jsonrpc":"2.0","result":1}', b'{"jsonrpc":"2.0","result":1,"id":0,"id":[1]}',
            b'{"method":"a","method":5,"jsonrpc":"2.0","id":1}', b'\xef\xbb\xbf{}', b' {"jsonrpc":"2.0","method":"m","id":1} ',
            b'', b' ', b'\x00', b'{"jsonrpc":"2.0","method":"m","id":1}\x00', b'{"jsonrpc":"2.0","method":"\\ud800","id":1}',
            b'{"jsonrpc":"2.0","method":"m","id":"\\udc00"}', b'{"jsonrpc":"2.0","method":"m","params":{"\\ud800":1},"id":1}']
    return out


VALID = [b'{"jsonrpc":"2.0","method":"m","params":[1,2],"id":5}', b'{"jsonrpc":"2.0","method":"n"}',
         b'{"jsonrpc":"2.0","result":[1,{"a":null}],"id":0}', b'{"jsonrpc":"2.0","error":{"code":-5,"message":"boo"},"id":1}',
         b'{"method":"m","params":[1],"id":7}', b'{"result":5,"error":null,"id":2}',
         b'{"result":null,"error":{"code":3,"message":"e"},"id":0}',
         b'[{"jsonrpc":"2.0","method":"m","id":1}, {"jsonrpc":"2.0","method":"n","params":{"a":1}}]',
         b'[{"jsonrpc":"2.0","result":1,"id":0}, {"jsonrpc":"2.0","result":2,"id":1}]',
         b'[{"jsonrpc":"2.0","result":1,"id":4}, {"jsonrpc":"2.0","error":{"code":1,"message":"x"},"id":2}, {"jsonrpc":"2.0","result":3,"id":3}]',
         PROBE]


def mutate(rng, msg):
    b = bytearray(msg)
    for _ in range(rng.choice((1, 1, 2, 3))):
        r = rng.random()
        if not b:
            b += bytes([rng.randrange(256)])
        elif r < 0.3:
            b[rng.randrange(len(b))] = rng.choice(b'{}[]",:0123456789-.eE\\ntfu \x00\xff\xc3\xe2\x80')
        elif r < 0.5:
            del b[rng.randrange(len(b))]
        elif r < 0.7:
            i = rng.randrange(len(b) + 1)
            b[i:i] = rng.choice([b'[', b']', b'{', b'}', b'"', b',', b':', b'null', b'true', b'NaN', b'1e999',
                                 b'\\ud800', b'\\u00', b'\xff', b'\xc3', b'\xe2\x82', b'-', b'"id":[1],', b'"id":null,',
                                 b'"method":1,', b'"error":0,', b'"result":0,', b'"jsonrpc":"1.0",'])
        elif r < 0.8:
            del b[rng.randrange(len(b)):]
        elif r < 0.9:
            i, j = sorted((rng.randrange(len(b)), rng.randrange(len(b))))
            b[i:j] = b[i:j] * 2
        else:
            b = bytearray(bytes(b).replace(rng.choice([b'0', b'1', b'"m"', b'2.0']),
                                           rng.choice([b'[0]', b'{}', b'true', b'1.0', b'null', b'"0"', b'1e400'])))
    return bytes(b)


def grammar_bytes(rng):
    """JSON-ish text from a small grammar: valid JSON with unusual lexical forms"""
    from harness import c04
    p = c04.random_payload(rng)
    r = rng.random()
    if r < 0.5:
        return cc.to_bytes(p)
    if r < 0.7:
        return json.dumps(p, indent=rng.choice((None, 0, 1)), ensure_ascii=rng.random() < 0.5,
                          separators=rng.choice(((',', ':'), (', ', ': '), (' ,\t', ' :\r\n')))) \
            .encode('utf-8', 'surrogatepass' if rng.random() < 0.5 else 'replace')
    if r < 0.85:
        # duplicate keys, NaN and friends
        s = cc.to_bytes(p)
        return s.replace(b'{', rng.choice([b'{"id":[1],', b'{"id":NaN,', b'{"result":Infinity,', b'{"jsonrpc":"2.0",']), 1)
    return bytes(rng.randrange(256) for _ in range(rng.randint(0, 12)))


def targeted_response(rng, setup):
    """responses aimed at the outstanding ids: right ids, permutations, near misses"""
    ids = []
    nxt = 0
    groups = []
    for s in setup:
        if s == 'S':
            groups.append([nxt])
            nxt += 1
        else:
            k = int(s[1:])
            groups.append(list(range(nxt, nxt + k)))
            nxt += k
    if not groups:
        groups = [[0]]
    g = list(rng.choice(groups))
    rng.shuffle(g)

    def idtext(i):
        r = rng.random()
        if r < 0.7:
            return str(i)
        return rng.choice([f'{i}.0', f'"{i}"', 'true' if i == 1 else 'false', 'null', f'[{i}]', str(i + 1),
                           f'{i}e0', f'-{i}'])

    def member(k, i):
        r = rng.random()
        v1 = rng.random() < 0.3
        if r < 0.6:
            return ('{"result":%d,"error":null,"id":%s}' if v1 else '{"jsonrpc":"2.0","result":%d,"id":%s}') % (k, idtext(i))
        if r < 0.85:
            return ('{"result":null,"error":{"code":%d,"message":"e"},"id":%s}' if v1
                    else '{"jsonrpc":"2.0","error":{"code":%d,"message":"e"},"id":%s}') % (k, idtext(i))
        return '{"jsonrpc":"2.0","id":%s}' % idtext(i)
    if len(g) == 1 and rng.random() < 0.8:
        return member(7, g[0]).encode()
    if rng.random() < 0.2:
        g = g + [rng.choice(g)] if rng.random() < 0.5 else g[:-1] or g
    return ('[' + ','.join(member(k, i) for k, i in enumerate(g)) + ']').encode()


STATES = ('empty', 'singles', 'batches', 'mixed')


def gen_conn_cases(rng, n):
    out = []
    for _ in range(n):
        pname = rng.choice(cc.PROTO_NAMES)
        state = rng.choice(STATES)
        setup = setup_for(pname, state)
        r = rng.random()
        if r < 0.3:
            msg = grammar_bytes(rng)
        elif r < 0.6:
            msg = mutate(rng, rng.choice(VALID))
        elif r < 0.9:
            msg = targeted_response(rng, setup)
            if rng.random() < 0.3:
                msg = mutate(rng, msg)
        else:
            msg = rng.choice(VALID)
        out.append((pname, setup, msg))
    return out


# ------------------------------------------------------------------------------ session level
def run_session_case(repo, pname, setup, msgs, limited=True):
    """Feeds `msgs` (unframed) to a real server RPCSession whose connection uses protocol
    `pname` and has `setup` outstanding, then the probe.  Returns observations."""
    mod = fresh_import(repo, 'aiorpcx.jsonrpc')
    smod = fresh_import(repo, 'aiorpcx.session')
    rmod = fresh_import(repo, 'aiorpcx.rawsocket')
    c05_fake.bind_virtual_time(smod)
    cls = cc.protos(mod)[pname]
    obs = {}

    class S(smod.RPCSession):
        async def handle_request(self, request):
            return 'pong'

    if not limited:
        S.cost_hard_limit = 0

    async def go():
        conn_holder = {}

        def factory(transport):
            conn, entries = build_conn(mod, cls, setup)
            conn_holder['entries'] = entries
            return S(transport, connection=conn)
        p, t, session = c05_fake.make(rmod, smod, factory)
        await c05_fake.settle()
        per = []
        for m in msgs:
            before = len(t.writes)
            p.data_received(m + b'\n')
            await c05_fake.settle(40)
            # let throttling sleeps elapse (virtual time)
            await asyncio.sleep(5)
            await c05_fake.settle(10)
            per.append(len(t.writes) - before)
        before = len(t.writes)
        closing_before_probe = t.is_closing()
        if not closing_before_probe:
            p.data_received(PROBE + b'\n')
            await c05_fake.settle(40)
            await asyncio.sleep(40)
            await c05_fake.settle(10)
        answered = False
        for w in t.writes[before:]:
            for part in w.split(b'\n'):
                try:
                    o = json.loads(part.decode())
                except Exception:
                    continue
                for x in (o if isinstance(o, list) else [o]):
                    if isinstance(x, dict) and x.get('id') == PROBE_ID and type(x.get('id')) is int:
                        answered = True
        task = p._process_messages_task if hasattr(p, '_process_messages_task') else None
        texc = None
        if task is not None and task.done() and not task.cancelled():
            texc = task.exception()
        obs.update(per=per, answered=answered, closing=t.is_closing(), task_exc=texc,
                   task_done=bool(task is not None and task.done()))
        if not t.is_closing():
            t.close()
            await c05_fake.settle(20)
    try:
        vloop.run(go())
    except vloop.Deadlock:
        obs.setdefault('deadlock', True)
    except vloop.Livelock:
        obs.setdefault('livelock', True)
    return obs


def oracle_session(obs, msgs):
    if obs.get('livelock'):
        return 'c05:session-livelock', 'the session spins without progress'
    if 'answered' not in obs:
        return 'c05:session-hang', 'the session run did not finish'
    if not obs['answered'] and not obs['closing']:
        exc = obs.get('task_exc')
        fam = family(msgs[-1] if msgs else b'', exc) if exc is not None else 'no-exception'
        # find the message that killed the task for the key
        return f'c05:session-wedged-{fam}', \
            'after the hostile bytes the probe request is not answered and the transport is still open'
    return None


def session_phase(obs):
    if 'answered' not in obs:
        return 'hang'
    if obs['closing']:
        return 'closed'
    return 'receiving' if obs['answered'] else 'dead'


def _sess_chunk(args):
    repo, cases = args
    out = []
    for pname, setup, msgs in cases:
        obs = run_session_case(repo, pname, setup, msgs)
        outcomes = [loads_outcome(m) for m in msgs]
        out.append((session_phase(obs), obs.get('per'), oracle_session(obs, msgs),
                    [(o, cc.safe_enc(p) if o == 'V' else None) for o, p in outcomes],
                    type(obs.get('task_exc')).__name__ if obs.get('task_exc') is not None else None))
    return out


def evaluate_sessions(ctx, res, cases, scope):
    """cases: list of (pname, setup, [msg bytes])"""
    if not cases:
        return
    if len(cases) < 1500:
        impl = _sess_chunk((ctx.repo, cases))
    else:
        nproc = min(12, os.cpu_count() or 1)
        size = max(200, len(cases) // (nproc * 3))
        jobs = [(ctx.repo, cases[i:i + size]) for i in range(0, len(cases), size)]
        with Pool(nproc) as pool:
            parts = pool.map(_sess_chunk, jobs)
        impl = [r for p in parts for r in p]
    lines, idx = [], []
    for i, ((pname, setup, msgs), (phase, per, verdict, outs, texc)) in enumerate(zip(cases, impl)):
        if any(o.startswith('other:') or (p is not None and p.startswith('!')) for o, p in outs) or \
                any(1300 <= bracket_depth(m) <= 1700 for m in msgs) or len(msgs) > 4 or not msgs:
            continue
        _c, entries = None, None
        keys = fake_keys(setup)
        lines.append(f'sess {pname} {keys} ' + ' | '.join(('V ' + p) if o == 'V' else o for o, p in outs))
        idx.append(i)
    model = ctx.model(lines)
    mp = dict(zip(idx, model)) if model is not None else {}
    for i, ((pname, setup, msgs), (phase, per, verdict, outs, texc)) in enumerate(zip(cases, impl)):
        case = {'kind': 'session', 'proto': pname, 'setup': setup,
                'msgs': [m.hex() if len(m) <= 4000 else describe_big(m) for m in msgs], 'scope': scope}
        if verdict:
            res.violation(verdict[0], case, verdict[1], impl=f'phase={phase} task_exc={texc}')
        res.count('session_' + phase)
        if i in mp:
            mphase, mobs = (mp[i].split(' ', 1) + [''])[:2]
            mobs = mobs.split(',') if mobs else []
            bad = mphase != phase
            # an error reply is exactly one write, silence is none (spawned work is not compared)
            if not bad and per is not None and len(mobs) == len(per) and phase != 'dead':
                for o, w in zip(mobs, per):
                    if o == 'reply' and w != 1:
                        bad = True
                    if o in ('silent', 'resolved', '-') and w != 0:
                        bad = True
            if bad:
                res.disagreement(case, f'{phase} writes={per}', mp[i])
        res.nontrivial(('s', pname, tuple(setup), tuple(m[:60] for m in msgs)))
    res['evaluations'] += len(cases)


def fake_keys(setup):
    entries, nxt = [], 0
    for s in setup:
        if s == 'S':
            entries.append(('S', nxt, None))
            nxt += 1
        else:
            k = int(s[1:])
            entries.append(('B', list(range(nxt, nxt + k)), None))
            nxt += k
    return keys_line(entries)


def gen_session_cases(rng, n, pool):
    out = []
    for _ in range(n):
        pname = rng.choice(cc.PROTO_NAMES)
        setup = setup_for(pname, rng.choice(STATES))
        k = rng.choice((1, 1, 2, 3))
        msgs = []
        for _ in range(k):
            r = rng.random()
            if r < 0.45:
                msgs.append(rng.choice(pool))
            elif r < 0.7:
                msgs.append(mutate(rng, rng.choice(VALID)))
            elif r < 0.9:
                msgs.append(targeted_response(rng, setup))
            else:
                msgs.append(rng.choice(VALID))
        out.append((pname, setup, msgs))
    return out


# ------------------------------------------------------------------------------ corpus / replay
def rebuild(m):
    if isinstance(m, list):
        if m[0] == 'hex':
            return bytes.fromhex(m[1])
        return BIG[m[0]](m[1])
    return bytes.fromhex(m)


def load_corpus(verif):
    path = os.path.join(verif, 'corpus', 'C05.txt')
    conn, sess = [], []
    if os.path.exists(path):
        for line in open(path):
            line = line.strip()
            if not line or line.startswith('#'):
                continue
            d = json.loads(line)
            if d['kind'] == 'conn':
                msg = rebuild(d['gen']) if d.get('gen') else (
                    d['text'].encode() if 'text' in d else bytes.fromhex(d['hex']))
                conn.append((d['proto'], d['setup'], msg))
            else:
                sess.append((d['proto'], d['setup'],
                             [m.encode() if isinstance(m, str) and d.get('text') else rebuild(m)
                              for m in d['msgs']]))
    return conn, sess


RULE = ('connection case = (protocol class, outstanding requests: none / 3 singles / batches of 2 '
        'and 3 / mixed, message bytes); session case = (protocol, outstanding, 1-3 hostile '
        'messages, then a probe request) on a real RPCSession over a fake transport and the '
        'virtual loop.  Messages: the odd-typed-id table (32 id texts x 13 message shapes, all id '
        'pairs in 2-member response batches) and the resource-limit family (nesting 10^3..10^5 in '
        'six positions, 10^3..10^5-digit numbers in seven positions, 20k-member batches) in every '
        'state x protocol; seeded grammar-based JSON text (odd whitespace, duplicate keys, NaN, '
        'raw non-ASCII), byte-mutated valid messages, invalid UTF-8, responses aimed at the '
        'outstanding ids (permuted, duplicated, near-miss id types).  non-trivial = distinct '
        '(protocol, state, result line) other than plain parse errors; distinct session cases')


def run(ctx):
    res = Results()
    rng = ctx.rng
    # (a) corpus first (pinned witnesses F4-F6 are its first lines)
    cconn, csess = load_corpus(ctx.verif)
    evaluate_conn(ctx, res, cconn, 'corpus')
    evaluate_sessions(ctx, res, csess, 'corpus')
    res['scopes']['corpus'] = len(cconn) + len(csess)
    # (b) exhaustive tables: odd ids and resource limits x protocol x state
    odd = odd_id_messages()
    cases = [(pn, setup_for(pn, st), m) for m in odd for pn in cc.PROTO_NAMES for st in STATES]
    evaluate_conn(ctx, res, cases, 'odd-ids')
    res['scopes']['odd_id_messages'] = {'messages': len(odd), 'cases': len(cases)}
    big = resource_family(ctx.deep)
    states = STATES if ctx.deep else ('mixed',)
    cases = [(pn, setup_for(pn, st), m) for m in big for pn in cc.PROTO_NAMES for st in states]
    evaluate_conn(ctx, res, cases, 'resource-limits')
    res['scopes']['resource_limit_messages'] = {'messages': len(big), 'cases': len(cases)}
    # (c) seeded generated
    n = 150000 if ctx.deep else 7000
    evaluate_conn(ctx, res, gen_conn_cases(rng, n), 'generated')
    res['scopes']['generated_conn'] = n
    # (d) session level
    small_big = [BIG[k](d) for k in ('deep-list', 'deep-id-response', 'digits-id', 'digits-bare', 'deep-unclosed')
                 for d in ((1000, 5000, 100000) if not ctx.deep else BIG_SIZES)]
    pool = odd + small_big * 3
    ns = 12000 if ctx.deep else 400
    scases = [(pn, setup_for(pn, 'mixed'), [m]) for m in small_big for pn in ('v2', 'v1')]
    scases += gen_session_cases(rng, ns, pool)
    evaluate_sessions(ctx, res, scases, 'session')
    res['scopes']['session_cases'] = len(scases)
    for c in scases[-2:]:
        res.sample({'proto': c[0], 'setup': c[1], 'msgs': [m[:80].decode('latin-1') for m in c[2]]})
    return res.finish(RULE, exhaustive=True)


def replay(ctx, case):
    if 'case' in case and isinstance(case['case'], dict):
        case = case['case']
    res = Results()
    if case.get('kind') == 'conn':
        msg = rebuild(case['gen']) if case.get('gen') else bytes.fromhex(case['hex'])
        evaluate_conn(ctx, res, [(case['proto'], case['setup'], msg)], 'replay')
    elif case.get('kind') == 'session':
        evaluate_sessions(ctx, res, [(case['proto'], case['setup'], [rebuild(m) for m in case['msgs']])],
                          'replay')
    res.sample({k: v for k, v in case.items() if k != 'hex'})
    return res.finish('replay of one recorded case')
