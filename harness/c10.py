"""C10: join follows its wait policy and reports the first finisher.  Same driver and monitor as
C09 (harness/taskgroup.py, drv_c09); the oracle here is the policy reading of the property."""
from harness import c09
from harness import taskgroup as TG

PID = 'C10'
RULE = c09.RULE.replace('non-trivial = the join exit was observed and at least one member had to '
                        'be cancelled by the group',
                        'non-trivial = the join exit was observed and at least one member had to '
                        'be cancelled by the group (completed/next_done/policy clauses are '
                        'evaluated on every trace)')


def counts(policy, oc):
    """does a finished member count as `completed` (property: not under `object` if it returned
    None)"""
    return not (policy == 'object' and oc == 'n')


def failed(oc):
    return oc in ('e', 'c')


def oracle(policy, actions, recs, snap):
    bad = []
    log, outcome = snap['log'], snap['outcome']
    yielded = [m for _k, m in snap['yielded']]
    # next_done yields every non-daemon member at most once, only finished ones, in completion
    # order
    if len(set(yielded)) != len(yielded):
        bad.append(('c10:next-done-repeats', f'next_done returned a member twice: {yielded}'))
    pos = {m: i for i, m in enumerate(log)}
    if any(m not in pos for m in yielded):
        bad.append(('c10:next-done-foreign', f'next_done returned a daemon/unfinished task: {yielded}'))
    elif [pos[m] for m in yielded] != sorted(pos[m] for m in yielded):
        bad.append(('c10:next-done-order', f'next_done order {yielded} is not completion order {log}'))
    # join never raises a member's exception
    for rec in recs:
        for o in rec['obs']:
            if o.startswith('jxERR'):
                bad.append(('c10:join-raised-member-exception', f'join raised {o[6:]}'))
    started = next((i for i, a in enumerate(actions) if a[0] in ('J', 'E')), None)
    if started is None:
        return bad
    last = recs[-1]
    completed = last['completed']
    # completed describes the first finisher that counts and was not consumed by a caller
    if completed is not None:
        if completed not in pos:
            bad.append(('c10:completed-not-a-finished-member', f'completed={completed}'))
        else:
            if not counts(policy, outcome.get(completed)):
                bad.append(('c10:completed-none-under-object',
                            f'completed={completed} returned None under the object policy'))
            if completed in yielded:
                bad.append(('c10:completed-was-consumed',
                            f'completed={completed} had been taken by a next_done caller'))
            earlier = [m for m in log[:pos[completed]]
                       if m not in yielded and counts(policy, outcome.get(m))]
            if earlier:
                bad.append(('c10:completed-not-first',
                            f'completed={completed} but {earlier} finished earlier, count, and '
                            f'were not consumed by the caller (log {log})'))
    # ... and is there at all: a member that had already finished when join()/__aexit__ was
    # called (or was handed over, finished, by that very call), counts under the policy and was
    # not consumed by a next_done caller is in front of the join loop, so after a join that
    # returned normally `completed` names a member (policy None waits for nobody and looks at
    # nobody)
    if last['joined'] and completed is None and policy != 'none' \
            and not any(a[0] == 'K' for a in actions):
        early = [m for m in log if m not in yielded and counts(policy, outcome.get(m))
                 and (any(m == i for i, _oc in TG.adds_of(actions[started]))
                      or (started > 0 and m in recs[started - 1]['done']))]
        if early:
            bad.append(('c10:completed-missing',
                        f'policy {policy}: join returned but completed is None although members '
                        f'{early} had finished before it started (log {log}, consumed {yielded})'))
    # next_done() returns None only when the group holds no finished and no pending member: a
    # caller that hands over already finished tasks with the same call, alone (no other caller,
    # no join yet), gets one of them
    for idx, (a, rec) in enumerate(zip(actions, recs)):
        if a[0] == 'N' and TG.adds_of(a) and (started is None or idx < started) \
                and not any(b[0] == 'N' for b in actions[:idx]):
            if f'nd{a[1]}=N' in rec['obs']:
                bad.append(('c10:next-done-none-with-finished-member',
                            f'step {idx} {a}: next_done() returned None although the finished '
                            f'tasks {[i for i, _ in TG.adds_of(a)]} had just been added'))
    # result / exception properties describe `completed`
    if last['joined']:
        if completed is None:
            if snap.get('exception_prop') is not None:
                bad.append(('c10:exception-without-completed', str(snap.get('exception_prop'))))
        else:
            oc = outcome.get(completed)
            ep, rp = snap.get('exception_prop'), snap.get('result_prop')
            want_exc = {'e': TG.raised_name(completed), 'c': 'CancelledError'}.get(oc)
            if ep != want_exc:
                bad.append(('c10:exception-prop', f'completed ended {oc} but .exception is {ep}'))
            if oc == 'v' and not (rp and rp[0] == 'ok' and TG.same_value(
                    rp[1], TG.VALUES[completed % len(TG.VALUES)](completed))):
                bad.append(('c10:result-prop', f'.result is {rp} for member {completed}'))
            if oc == 'n' and rp != ('ok', None):
                bad.append(('c10:result-prop', f'.result is {rp} for a member that returned None'))
    # policy: evaluated step by step while the joiner is never cancelled
    # (nor swept from outside by another task's cancel_remaining(): which cancellations are the
    # group's own is then not observable)
    if not any(a[0] in ('K', 'R') for a in actions):
        body_raised = any(a[0] == 'E' and a[1] for a in actions)
        daemon = snap['daemon']
        ext = set()
        yl = []
        stopped_at = None
        exited_at = None
        sweeping = False
        for idx, (a, rec) in enumerate(zip(actions, recs)):
            if a[0] == 'X':
                ext.add(a[1])
            for o in rec['obs']:
                if o.startswith('nd') and not o.endswith('=N'):
                    yl.append(int(o.split('=')[1]))
            if idx < started:
                continue
            done = rec['done']
            present = [i for i in daemon if c09._spawned_by(i, idx, actions, recs)]
            nd_members = [i for i in present if not daemon[i]]
            # the stop condition is judged on the group as it was before its own reaction in
            # this step (children spawned by members the group cancels now come later)
            nd_before = [i for i in daemon if not daemon[i]
                         and c09._spawned_by(i, idx, actions, recs, strict=True)]
            avail = [m for m in log if m in done and m not in yl]
            stop = policy == 'none'
            for m in avail:
                if stop:
                    break
                oc = outcome[m]
                if failed(oc) or policy == 'any' or (policy == 'object' and oc == 'v'):
                    stop = True
            if not stop and all(i in done for i in nd_before):
                # nothing left to wait for
                stop = True
            if stop and stopped_at is None:
                stopped_at = idx
                # on stopping, every member still running is cancelled (the group's first sweep
                # reaches everything that existed before this step)
                crs = {o for r in recs[:idx + 1] for o in r['obs'] if o.startswith('cr')}
                before = [i for i in daemon if c09._spawned_by(i, idx, actions, recs, strict=True)]
                missed = [i for i in before if i not in done and f'cr{i}' not in crs]
                # (with a competing next_done caller the joiner may be starved instead: F12,
                # judged by the hang clause below)
                if missed and not body_raised and not yl \
                        and not any(o.startswith('jx') for o in rec['obs']):
                    bad.append(('c10:stop-does-not-cancel-rest',
                                f'policy {policy}: step {idx} {a}: a stop condition holds but '
                                f'members {missed} were not cancelled (log {log})'))
            group_cr = [o for o in rec['obs'] if o.startswith('cr')
                        and not (a[0] == 'X' and o == f'cr{a[1]}')]
            if group_cr and stopped_at is None and not body_raised and exited_at is None:
                bad.append(('c10:cancels-before-stop',
                            f'policy {policy}: step {idx} {a}: the group cancelled '
                            f'{group_cr} before any stop condition (log {log})'))
            if any(o.startswith('jx') for o in rec['obs']):
                exited_at = idx
                # "on stopping, all members still running are cancelled": nobody the group holds
                # is still running without ever having been sent a cancellation when join returns
                crs_now = {o for r in recs[:idx + 1] for o in r['obs'] if o.startswith('cr')}
                left = [i for i in present if i not in done and f'cr{i}' not in crs_now]
                if left:
                    bad.append(('c10:join-returned-leaving-member-uncancelled',
                                f'policy {policy}: join returned at step {idx} {a} while members '
                                f'{left} were still running and had never been cancelled'))
                if stopped_at is None and not body_raised:
                    bad.append(('c10:join-returned-early',
                                f'policy {policy}: join returned at step {idx} though no stop '
                                f'condition holds (log {log}, outcomes {outcome})'))
            if stopped_at is not None and exited_at is None and all(i in done for i in present):
                key = 'c10:join-hangs'
                if yl and set(nd_members) <= set(done):
                    key = 'c10:join-hangs-consumer-took-last-member'
                bad.append((key, f'policy {policy}: at step {idx} {a} a stop condition holds and '
                                 f'every member has finished but join has not returned '
                                 f'(log {log}, consumed by callers {yl})'))
                break
    bad += c09.join_stuck('c10:join-stuck', policy, actions, recs, snap)[1]
    return bad


def run(ctx):
    return c09.run(ctx, oracle_fn=oracle, pid=PID, rule=RULE)


def replay(ctx, case):
    return c09.replay(ctx, case, oracle_fn=oracle)
