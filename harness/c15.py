"""C15 back-pressure: real RSTransport / USTransport + session `_send_message` (+ `close`) on a
scripted fake asyncio transport and the virtual loop, against the Lean write-path model
(`drv_c15`), with the property oracle on the implementation's own trace.

Events:  ('S', sender, msg, flags, big)  a task calls session._send_message(<body of msg>);
                                          big: the framed message is 150 KB - 1.1 MB (several
                                          pieces), otherwise a few bytes.  Text: `S s m f` / `B s m f`
                                          The 5th field is the SHAPE of the sender: False / True =
                                          `_send_message` of a small / big raw message (`S`/`B`);
                                          'N' = `session.send_notification(..)` (text `N s m f`);
                                          'K' = a batch of notifications only through the public
                                          `session.send_batch()` (text `K s m f`) - senders that
                                          end when their message is written
         ('P',) buffer full (pause_writing)      ('R', flags) buffer drained (resume_writing)
         ('L',) link lost                         ('A', dt) virtual time passes
         ('C', msg)  the harness cancels the task that is sending <msg> (no-op if it finished or
                     does not exist)
         ('G', p)    graceful close: a task calls session.close(force_after=100000).  The peer is
                     stalled for the whole trace (the fake transport keeps every written byte
                     unsent); p=1: it stays so - if anything was written the close stays pending
                     (is_closing() true, connection_lost not delivered) until L / an abort /
                     a later `G 0`; p=0: the peer consumes everything first, the close completes.
         ('X', flags, acts)  acts = tuple of ('S', sender, msg, big) / ('P',) / ('R',) performed
                     back to back WITHOUT running the loop in between (a new sender's task is
                     created = runnable, pause_writing()/resume_writing() are called); only then
                     does the loop run to idle.  So a sender made runnable before a resume runs
                     BEFORE the writers that resume woke, and a pause that follows a resume clears
                     the event before any woken writer has run.  Text: `X f S.s.m,R,P` (B.s.m big)
flags = high-water script: one bool per transport.write() call that happens in this step; True =
the transport calls pause_writing() from inside that write().

The byte stream handed to the fake transport is cut into frames in the worker (`Impl._lex`) and
judged by the oracle at stream level: whole frames of distinct sent messages, optionally followed
by a proper prefix of one message whose sender is still in flight.
"""
import asyncio
import itertools
import os
import re
from multiprocessing import Pool

from harness import vloop
from harness import fake_transport as FT
from harness.base import Results, corpus_lines

MAXDELAY = 20
FORCE_AFTER = 100000
RULE = ('case = sequence of <=14 events over {send of a small or a big (150 KB - 1.1 MB framed) message '
        'by one of 4 senders, pause, resume, link lost, time passes, cancel the sender of message '
        'k, graceful close with/without unsent data, batches of sends/pauses/resumes performed '
        'back to back before the loop runs again} with a scripted high-water policy (the '
        'transport may re-pause inside any write call), on RSTransport and USTransport, '
        'max_send_delay=20; exhaustive over all event sequences up to the stated length from three '
        'alphabets (both transports for length <= 3, alternating above) + seeded random longer '
        'ones; non-trivial = at least one sender was blocked; distinct = distinct (transport '
        'kind, event list)')

_BODY = {}


def body(m, big):
    """unique, recognisable content per message id; never contains a newline"""
    k = (m, big)
    if k not in _BODY:
        if big:
            # a few sizes; ids 1, 5, 9.. are beyond 1 MiB (several pieces for any plausible piece
            # size of a write() that hands a frame over in parts)
            n = (150000, 1100000, 250000, 300000)[m % 4]
            unit = b'<%d>' % m
            _BODY[k] = (b'%d:' % m + unit * (n // len(unit) + 1))[:n]
        else:
            _BODY[k] = b'%d' % m
    return _BODY[k]


def frame_of(m, big):
    """what a whole frame of message m is (NewlineFramer: the message and a newline)"""
    return body(m, big) + b'\n'


_DIGITS = re.compile(rb'\d+')


class Impl:
    def __init__(self, repo, kind):
        self.mods = FT.import_all(repo)
        self.loop = vloop.VLoop()
        asyncio.set_event_loop(self.loop)
        sess = self.mods['session']
        self.TaskTimeout = self.mods['curio'].TaskTimeout

        class S(sess.RPCSession):
            max_send_delay = MAXDELAY

        self.proto, self.tr, self.session = FT.make(self.mods, S, transport=kind,
                                                    framer=self.mods['framing'].NewlineFramer())
        self.tr.hold = True             # the peer is stalled: written bytes stay unsent
        self.sess_time = sess.time
        sess.time = FT.TimeShim(self.loop)
        self.tasks = {}
        self.closers = []
        self.sent = {}                  # msg id -> big?
        self.frames = {}                # msg id -> expected frame
        self.small = {}                 # expected frame (short ones) -> msg id
        self.tail = b''                 # bytes of the stream after the last whole line
        self.obs = []
        self.idle()

    def idle(self):
        """run the loop at constant virtual time until nothing is ready and no timer is due"""
        for _ in range(20000):
            self.loop.call_soon(self.loop.stop)
            self.loop.run_forever()
            now = self.loop.time()
            due = any(not h.cancelled() and h.when() <= now for h in self.loop._scheduled)
            if not self.loop._ready and not due:
                return
        raise vloop.Livelock('loop never goes idle')

    def advance_to(self, target):
        for _ in range(10000):
            due = [h.when() for h in self.loop._scheduled if not h.cancelled() and h.when() <= target]
            if not due:
                break
            self.loop._vtime = max(self.loop._vtime, float(min(due)))
            self.idle()
        else:
            raise vloop.Livelock('timers keep re-arming')
        self.loop._vtime = float(target)
        self.idle()

    def _items(self, m, shape):
        N = self.mods['jsonrpc'].Notification
        return [N(f'm{m}', [m])] if shape == 'N' else [N(f'm{m}', [m]), N(f'n{m}', [m, m])]

    def _frame(self, m, shape):
        """the whole frame of message m.  Raw messages: the bytes and a newline.  Public-API
        senders: what the connection's (pure) encoder makes of the items, and a newline"""
        if shape in (False, True):
            f = frame_of(m, shape)
        elif shape == 'N':
            f = self.session.connection.send_notification(self._items(m, shape)[0]) + b'\n'
        else:
            Batch = self.mods['jsonrpc'].Batch
            f = self.session.connection.send_batch(Batch(self._items(m, shape)))[0] + b'\n'
        if len(f) < 4096:
            self.small[f] = m
        return f

    async def _send(self, s, m, big):
        try:
            if big == 'N':
                await self.session.send_notification(f'm{m}', [m])
            elif big == 'K':
                async with self.session.send_batch() as b:
                    for it in self._items(m, big):
                        b.add_notification(it.method, it.args)
            else:
                await self.session._send_message(body(m, big))
            self.obs.append(f'ok{s}.{m}@{int(self.loop.time())}')
        except self.TaskTimeout:
            self.obs.append(f'to{s}.{m}@{int(self.loop.time())}')
        except asyncio.CancelledError:
            self.obs.append(f'ca{s}.{m}')
            raise
        except BaseException as e:      # noqa
            self.obs.append(f'exc{s}.{m}:{type(e).__name__}')

    async def _close(self):
        try:
            await self.session.close(force_after=FORCE_AFTER)
        except asyncio.CancelledError:
            raise
        except BaseException as e:      # noqa
            self.obs.append(f'excclose:{type(e).__name__}')

    def _whole(self, data):
        """msg id if `data` is exactly the frame of a message passed to a send, else None"""
        if len(data) < 4096:
            m = self.small.get(bytes(data))
            if m is not None:
                return m
        mm = _DIGITS.match(data)
        if mm:
            m = int(mm.group())
            if self.frames.get(m) == data:
                return m
        return None

    def _lex(self, chunks):
        """cut the new bytes of the stream into lines; chunks = [(data, transport paused at
        that write call)] -> (frames, tail-description, calls).  calls: per write call
        (paused, does a byte that begins a new frame lie in this call, length)"""
        frames, calls = [], []
        for data, paused in chunks:
            begins = (not self.tail and len(data) > 0) or data.find(b'\n', 0, len(data) - 1) >= 0
            calls.append((bool(paused), bool(begins), len(data)))
            buf = self.tail + data if self.tail else data
            while True:
                i = buf.find(b'\n')
                if i < 0:
                    break
                line, buf = buf[:i + 1], buf[i + 1:]
                m = self._whole(line)
                frames.append(m if m is not None else ('bad', len(line), line[:32].decode('latin1')))
            self.tail = buf
        tail = None
        if self.tail:
            t = self.tail
            tail = (len(t), sorted(m for m, f in self.frames.items() if f.startswith(t)),
                    t[:32].decode('latin1'))
        return frames, tail, calls

    def act(self, ev):
        self.obs = []
        mark = len(self.tr.log)
        k = ev[0]
        if k == 'S':
            self.tr.pause_script = list(ev[3])
            self.sent[ev[2]] = ev[4]
            self.frames[ev[2]] = self._frame(ev[2], ev[4])
            t = self.loop.create_task(self._send(ev[1], ev[2], ev[4]))
            self.tasks[ev[2]] = t
            self.idle()
            if not t.done():
                self.obs.append(f'bl{ev[1]}.{ev[2]}')
        elif k == 'P':
            self.tr.env_pause()
        elif k == 'R':
            self.tr.pause_script = list(ev[1])
            self.tr.env_resume()
        elif k == 'L':
            self.tr.drop()
        elif k == 'A':
            self.advance_to(int(self.loop.time()) + ev[1])
        elif k == 'C':
            t = self.tasks.get(ev[1])
            if t is not None and not t.done():
                t.cancel()
        elif k == 'G':
            if not ev[1]:
                self.tr.release()
            self.closers.append(self.loop.create_task(self._close()))
        elif k == 'X':
            self.tr.pause_script = list(ev[1])
            fresh = []
            for a in ev[2]:
                if a[0] == 'S':
                    self.sent[a[2]] = a[3]
                    self.frames[a[2]] = self._frame(a[2], a[3])
                    t = self.loop.create_task(self._send(a[1], a[2], a[3]))
                    self.tasks[a[2]] = t
                    fresh.append((a[1], a[2], t))
                elif a[0] == 'P':
                    self.tr.env_pause()
                elif a[0] == 'R':
                    self.tr.env_resume()
            self.idle()
            for s_, m_, t in fresh:
                if not t.done():
                    self.obs.append(f'bl{s_}.{m_}')
        self.idle()
        self.tr.pause_script = []
        # translate the transport's own log of this step
        out, chunks = [], []
        for rec in self.tr.log[mark:]:
            kind = rec[1]
            if kind == 'write':
                m = self._whole(rec[2])
                out.append(f'w{m}:{int(rec[3])}' if m is not None else f'wp{len(rec[2])}:{int(rec[3])}')
                chunks.append((rec[2], rec[3]))
            elif kind == 'write-after-close':
                m = self._whole(rec[2])
                out.append(f'wac{m}' if m is not None else f'wacp{len(rec[2])}')
            elif kind == 'pause_reading':
                out.append('pr')
            elif kind == 'resume_reading':
                out.append('rr')
            elif kind == 'abort':
                out.append(f'ab@{int(rec[0])}')
            elif kind == 'connection_lost':
                out.append('lost')
        frames, tail, calls = self._lex(chunks)
        return {
            'obs': tuple(sorted(out + self.obs)),
            'writes': [o for o in out if o.startswith('w') and not o.startswith('wac')],
            'cl': self.tr.is_closing(), 'lo': self.tr.lost_delivered, 'rd': self.tr.reading,
            'nb': sum(1 for t in self.tasks.values() if not t.done()),
            't': int(self.loop.time()),
            'paused': self.tr.paused_writing,
            'frames': frames, 'tail': tail, 'calls': calls,
            'inflight': sorted(m for m, t in self.tasks.items() if not t.done()),
            'bytes': sum(len(c) for c, _p in chunks),
        }

    def close(self):
        try:
            self.mods['session'].time = self.sess_time
            for _ in range(4):
                for t in asyncio.all_tasks(self.loop):
                    t.cancel()
                try:
                    self.idle()
                except Exception:
                    pass
                if not asyncio.all_tasks(self.loop):
                    break
        finally:
            asyncio.set_event_loop(None)
            self.loop.close()


LETTER = {False: 'S', True: 'B', 'N': 'N', 'K': 'K'}
SHAPE = {v: k for k, v in LETTER.items()}


def _fl(f):
    return ''.join('1' if x else '0' for x in f) or '-'


def ser(ev):
    k = ev[0]
    if k == 'S':
        return f'{LETTER[ev[4]]} {ev[1]} {ev[2]} {_fl(ev[3])}'
    if k == 'R':
        return f'R {_fl(ev[1])}'
    if k in ('A', 'C', 'G'):
        return f'{k} {int(ev[1])}'
    if k == 'X':
        acts = ','.join(f'{LETTER[a[3]]}.{a[1]}.{a[2]}' if a[0] == 'S' else a[0] for a in ev[2])
        return f'X {_fl(ev[1])} {acts}'
    return k


def parse(text):
    evs = []
    fl = lambda s: tuple(c == '1' for c in s) if s != '-' else ()
    for tok in text.split(';'):
        f = tok.split()
        if not f:
            continue
        if f[0] in SHAPE:
            evs.append(('S', int(f[1]), int(f[2]), fl(f[3]), SHAPE[f[0]]))
        elif f[0] == 'R':
            evs.append(('R', fl(f[1])))
        elif f[0] in ('A', 'C', 'G'):
            evs.append((f[0], int(f[1])))
        elif f[0] == 'X':
            acts = []
            for a in f[2].split(','):
                b = a.split('.')
                acts.append(('S', int(b[1]), int(b[2]), SHAPE[b[0]]) if b[0] in SHAPE else (b[0],))
            evs.append(('X', fl(f[1]), tuple(acts)))
        else:
            evs.append((f[0],))
    return evs


def run_trace(repo, kind, events):
    im = Impl(repo, kind)
    try:
        return [im.act(e) for e in events]
    finally:
        im.close()


def parse_model(rec):
    parts = rec.split(' ')
    f = {p.split('=', 1)[0]: p.split('=', 1)[1] for p in parts}
    obs = [x for x in f['obs'].split(',') if x]
    # the observations of a step as a set, plus the write calls in their order
    return (tuple(sorted(obs)), tuple(x for x in obs if x.startswith('w')), f['cl'] == '1',
            f['lo'] == '1', f['rd'] == '1', int(f['nb']), int(f['t']))


def key(rec):
    return (rec['obs'], tuple(rec['writes']), rec['cl'], rec['lo'], rec['rd'], rec['nb'], rec['t'])


def sends_of(ev):
    """(sender, msg, big) of every send a (possibly composite) event starts"""
    if ev[0] == 'S':
        return [(ev[1], ev[2], ev[4])]
    if ev[0] == 'X':
        return [(a[1], a[2], a[3]) for a in ev[2] if a[0] == 'S']
    return []


def oracle(events, recs):
    """from the property text, on the implementation's trace (observables only: the byte stream
    handed to the asyncio transport cut into lines, the transport's pause state at each write
    call, pause/resume_reading, abort and its time, how and when every sender ended)"""
    bad = []
    sent, written, done = {}, [], {}
    for idx, (ev, rec) in enumerate(zip(events, recs)):
        for s_, m_, _big in sends_of(ev):
            sent[m_] = (s_, idx)
        for o in rec['obs']:
            if o.startswith('wac'):
                pass
            elif o.startswith('w'):
                pass        # one transport.write() call: judged below, at stream level
            elif o.startswith('ok') or o.startswith('to'):
                s, rest = o[2:].split('.')
                m, at = rest.split('@')
                done[int(m)] = (o[:2], int(at), idx)
            elif o.startswith('ca'):
                m = int(o[2:].split('.')[1])
                done[m] = ('ca', rec['t'], idx)
                if not (ev[0] == 'C' and ev[1] == m):
                    bad.append(('c15:sender-other-exception',
                                f'step {idx} {ev}: the sender of message {m} ended with '
                                f'CancelledError although nobody cancelled it'))
            elif o.startswith('exc'):
                bad.append(('c15:sender-other-exception', f'step {idx}: {o}'))
        # while the transport reports its send buffer full nothing further is written: no byte
        # that begins a new frame is handed over in a call made while it is paused (finishing
        # the frame that was being handed over when the transport said "full" is not "further")
        for paused, begins, n in rec['calls']:
            if paused and begins:
                bad.append(('c15:write-while-paused',
                            f'step {idx} {ev}: a write call of {n} bytes that begins a new '
                            f'message was made while the transport reported its send buffer full'))
        # ---- the byte stream: whole frames of distinct sent messages ...
        for f in rec['frames']:
            if not isinstance(f, int):
                bad.append(('c15:interleaved-frame',
                            f'step {idx} {ev}: the stream contains a line of {f[1]} bytes '
                            f'(starts {f[2]!r}) that is not the whole frame of any message sent: '
                            f'a partial frame followed by / mixed with other bytes'))
                continue
            if f in written:
                bad.append(('c15:written-twice', f'step {idx} {ev}: message {f} written twice'))
            written.append(f)
        # ... optionally followed by a proper prefix of one message whose sender is in flight
        if rec['tail'] is not None:
            n, cands, start = rec['tail']
            cands = [m for m in cands if m not in written]
            if not cands:
                bad.append(('c15:interleaved-frame',
                            f'step {idx} {ev}: the stream ends with {n} bytes (start {start!r}) that '
                            f'are not the beginning of any unwritten message'))
            elif not rec['cl'] and not any(m in rec['inflight'] for m in cands):
                m = cands[0]
                how = done.get(m, ('?',))[0]
                bad.append(('c15:partial-frame',
                            f'step {idx} {ev}: {n} bytes of message {m} are on the stream, its '
                            f'sender has ended ({how}) and the connection is up: the message was '
                            f'neither written whole nor not at all, and whatever is written next '
                            f'follows a partial frame'))
        # reading follows writing while the connection is up
        if not rec['cl'] and rec['rd'] == rec['paused']:
            bad.append(('c15:reading-not-tracking',
                        f'step {idx} {ev}: transport paused={rec["paused"]} but reading={rec["rd"]}'))
        # when room is reported the blocked messages are written: nobody waits on a transport
        # that does not report its buffer full
        if not rec['paused'] and rec['nb']:
            bad.append(('c15:blocked-with-room',
                        f'step {idx} {ev}: the transport reports room but {rec["nb"]} sender(s) '
                        f'({rec["inflight"]}) are still blocked'))
        # nobody stays blocked once the connection is lost
        if rec['lo'] and rec['nb']:
            bad.append(('c15:writer-left-hanging',
                        f'step {idx} {ev}: {rec["nb"]} senders still blocked after the loss'))
        # a sender blocked for max_send_delay is released by an abort at exactly that time -
        # whether or not somebody has asked for a graceful close in the meantime
        for m, (s, sidx) in sent.items():
            t0 = recs[sidx]['t']
            if m not in done and rec['t'] >= t0 + MAXDELAY:
                bad.append(('c15:stall-not-aborted',
                            f'message {m} sent at {t0} still blocked at {rec["t"]} '
                            f'(max_send_delay {MAXDELAY}; closing={rec["cl"]} lost={rec["lo"]})'))
            if m in done and done[m][0] == 'to' and done[m][2] == idx:
                if done[m][1] != t0 + MAXDELAY:
                    bad.append(('c15:abort-time', f'message {m} sent at {t0} timed out at '
                                                  f'{done[m][1]} (max_send_delay {MAXDELAY})'))
                if not any(o == f'ab@{done[m][1]}' for r in recs for o in r['obs']):
                    bad.append(('c15:timeout-without-abort',
                                f'step {idx} {ev}: message {m} could not be written within '
                                f'max_send_delay (TaskTimeout at {done[m][1]}) but the connection '
                                f'was not aborted (closing={rec["cl"]} lost={rec["lo"]})'))
    # a message whose send completed while the connection was up was written exactly once
    for m, (kind, at, idx) in done.items():
        if kind == 'ok' and m not in written and not recs[idx]['cl']:
            bad.append(('c15:accepted-not-written',
                        f'message {m}: the send returned normally on a live connection but '
                        f'the message is not (whole) on the stream'))
    # messages one task sends one after another keep their order
    pos = {m: i for i, m in enumerate(written)}
    for a in pos:
        for b in pos:
            if (sent[a][0] == sent[b][0] and a in done and done[a][2] < sent[b][1]
                    and pos[a] > pos[b]):
                bad.append(('c15:order', f'sender {sent[a][0]}: message {a} completed before '
                                         f'{b} was sent but is behind it on the stream'))
    return bad


# family 1: three senders, fine-grained time
ALPHABET_QUICK = [('S0',), ('S1',), ('S2p',), ('P',), ('R',), ('Rp',), ('L',), ('A7',), ('A15',)]
# family 2: small/big messages (p: the transport re-pauses inside the first write call), cancel
# of message 1 / 2, graceful close with a stalled peer, one time step beyond max_send_delay
ALPHABET_2 = [('S',), ('Sp',), ('B',), ('Bp',), ('P',), ('R',), ('Rp',), ('G',), ('C1',), ('C2',),
              ('A25',), ('L',)]
# family 3: things that happen back to back before the loop runs again.  SR / SpR: a sender is
# already runnable when the buffer drains (it runs before the woken writers; p: its write
# re-fills the buffer); RS: the sender becomes runnable just after the resume; RP: the buffer
# fills again before any woken writer has run; N / K: senders of the public API - a notification,
# a batch of notifications only
ALPHABET_3 = [('S',), ('Sp',), ('P',), ('R',), ('SR',), ('SpR',), ('RS',), ('RP',), ('A25',),
              ('N',), ('K',)]
COMPOSITE = {'SR': ((), 'SR'), 'SpR': ((True,), 'SR'), 'RS': ((), 'RS'), 'RP': ((), 'RP')}


def expand(seq):
    """turn letter sequences into concrete events with fresh message ids"""
    evs, mid = [], 0
    for (x,) in seq:
        if x in COMPOSITE:
            flags, letters = COMPOSITE[x]
            acts = []
            for c in letters:
                if c == 'S':
                    mid += 1
                    acts.append(('S', mid % 3, mid, False))
                else:
                    acts.append((c,))
            evs.append(('X', flags, tuple(acts)))
        elif x in ('N', 'K'):
            mid += 1
            evs.append(('S', mid % 3, mid, (), x))
        elif x[0] in 'SB':
            mid += 1
            p = x.endswith('p')
            sender = int(x[1]) if x[1:2].isdigit() else mid % 3
            evs.append(('S', sender, mid, (True,) if p else (), x[0] == 'B'))
        elif x == 'P':
            evs.append(('P',))
        elif x == 'R':
            evs.append(('R', ()))
        elif x == 'Rp':
            evs.append(('R', (True,)))
        elif x == 'L':
            evs.append(('L',))
        elif x == 'G':
            evs.append(('G', 1))
        elif x[0] == 'C':
            evs.append(('C', int(x[1:])))
        else:
            evs.append(('A', int(x[1:])))
    return evs


def random_trace(r):
    evs, mid = [], 0
    for _ in range(r.randint(3, 14)):
        k = r.random()
        if k < 0.40:
            mid += 1
            big = r.choice([False, False, False, False, True, True, 'N', 'K', 'K'])
            # a big message may be handed over in several calls by a changed write(): script
            # the high-water answer for the later calls too
            fl = tuple(r.random() < 0.3 for _ in range(r.randint(1, 3) if big is True else 1))
            evs.append(('S', r.randrange(4), mid, fl, big))
        elif k < 0.53:
            evs.append(('P',))
        elif k < 0.70:
            evs.append(('R', tuple(r.random() < 0.4 for _ in range(r.randint(0, 4)))))
        elif k < 0.75:
            evs.append(('L',))
        elif k < 0.83:
            # mostly a message that exists (and may be blocked), sometimes one that does not
            evs.append(('C', r.randint(max(1, mid - 3), mid) if mid and r.random() < 0.9
                        else r.randint(1, 20)))
        elif k < 0.87:
            evs.append(('G', 1 if r.random() < 0.8 else 0))
        elif k < 0.93:
            # back to back, the loop runs only afterwards
            acts = []
            for _ in range(r.randint(2, 4)):
                c = r.random()
                if c < 0.4:
                    mid += 1
                    acts.append(('S', r.randrange(4), mid, r.choice([False, False, False, True, 'N', 'K'])))
                elif c < 0.6:
                    acts.append(('P',))
                else:
                    acts.append(('R',))
            evs.append(('X', tuple(r.random() < 0.4 for _ in range(r.randint(0, 4))), tuple(acts)))
        else:
            evs.append(('A', r.choice([1, 5, 10, 19, 20, 21, 40])))
    return evs


def _work(args):
    repo, jobs = args
    out = []
    for kind, evs in jobs:
        out.append(run_trace(repo, kind, evs))
    return out


def run_all(ctx, jobs):
    if len(jobs) < 1500:
        return _work((ctx.repo, jobs))
    nproc = min(16, os.cpu_count() or 1)
    size = max(200, len(jobs) // (nproc * 3))
    chunks = [(ctx.repo, jobs[i:i + size]) for i in range(0, len(jobs), size)]
    with Pool(nproc) as pool:
        parts = pool.map(_work, chunks)
    return [x for p in parts for x in p]


def evaluate(ctx, jobs, res):
    allrecs = run_all(ctx, jobs)
    lines = [f'1 {MAXDELAY} ; ' + ' ; '.join(ser(e) for e in evs) for _k, evs in jobs]
    model = ctx.model(lines)
    for i, ((kind, evs), recs) in enumerate(zip(jobs, allrecs)):
        case = {'transport': kind, 'events': ' ; '.join(ser(e) for e in evs)}
        for k, why in oracle(evs, recs):
            res.violation(k, case, why)
        if model is not None:
            if model[i] == 'bad-op':
                res.disagreement(case, 'n/a', 'bad-op')
            else:
                for st, (m, rec) in enumerate(zip(model[i].split(' ; '), recs)):
                    if parse_model(m) != key(rec):
                        res.disagreement(case, str(key(rec)), str(parse_model(m)), step=st,
                                         event=ser(evs[st]))
                        break
        allobs = [o for r in recs for o in r['obs']]
        res.count('write_calls', sum(o.startswith('w') and not o.startswith('wac') for o in allobs))
        res.count('frames_on_stream', sum(len(r['frames']) for r in recs))
        res.count('stream_bytes', sum(r['bytes'] for r in recs))
        snd = [x for e in evs for x in sends_of(e)]
        res.count('sends_small', sum(1 for x in snd if x[2] is False))
        res.count('sends_big', sum(1 for x in snd if x[2] is True))
        res.count('sends_notification_api', sum(1 for x in snd if x[2] == 'N'))
        res.count('sends_notification_only_batch_api', sum(1 for x in snd if x[2] == 'K'))
        res.count('big_frames_on_stream', sum(1 for x in snd if x[2] is True
                                              and any(x[1] in r['frames'] for r in recs)))
        res.count('batch_events', sum(1 for e in evs if e[0] == 'X'))
        # a sender of a batch wrote in a step in which writers that had been blocked before
        # the step were woken (it ran before / between / after them)
        res.count('batch_sender_wrote_among_woken',
                  sum(1 for j, (e, r) in enumerate(zip(evs, recs)) if e[0] == 'X' and j
                      and recs[j - 1]['nb'] and 'rr' in r['obs']
                      and any(x[1] in r['frames'] for x in sends_of(e))))
        res.count('batch_woken_writers_blocked_again',
                  sum(1 for j, (e, r) in enumerate(zip(evs, recs)) if e[0] == 'X' and j
                      and 'rr' in r['obs'] and any(m in r['inflight'] for m in recs[j - 1]['inflight'])))
        res.count('blocked_senders', sum(o.startswith('bl') for o in allobs))
        res.count('timeouts', sum(o.startswith('to') for o in allobs))
        res.count('losses', sum(o == 'lost' for o in allobs))
        res.count('cancel_events', sum(1 for e in evs if e[0] == 'C'))
        res.count('cancelled_blocked_senders', sum(o.startswith('ca') for o in allobs))
        res.count('gclose_events', sum(1 for e in evs if e[0] == 'G'))
        pend = [j for j, r in enumerate(recs) if r['cl'] and not r['lo']]
        res.count('steps_close_pending', len(pend))
        res.count('steps_close_pending_with_blocked', sum(1 for j in pend if recs[j]['nb']))
        res.count('timeouts_while_close_pending',
                  sum(1 for j, r in enumerate(recs) if j and (j - 1) in pend
                      and any(o.startswith('to') for o in r['obs'])))
        res.count('repause_inside_write', sum(1 for r in recs if 'pr' in r['obs'] and r['writes']))
        if any(o.startswith('bl') for o in allobs):
            res.nontrivial((kind, case['events']))
        if i < 3:
            res.sample({'case': case, 'impl_last': str(key(recs[-1])) if recs else None})
    res['evaluations'] += len(jobs)


def _kinds(i):
    return 'rs' if i % 2 == 0 else 'us'


def run(ctx):
    res = Results()
    corp = []
    for ln in corpus_lines(ctx.verif, 'C15'):
        corp += [('rs', parse(ln)), ('us', parse(ln))]
    if corp:
        evaluate(ctx, corp, res)
    res['scopes']['corpus'] = len(corp)
    # family 1 goes to length 5 whenever the run is deep (thorough tier, source drift, broken
    # obligation); the 12-letter family 2 only in the thorough tier (12^5 = 249k traces)
    maxlen = 5 if ctx.deep else 4
    maxlen2 = 5 if ctx.tier == 'thorough' else 4
    maxlen3 = 5 if ctx.tier == 'thorough' else 4
    done = 0
    for ln in range(1, maxlen + 1):
        if res.failed and ln > 3:
            break
        jobs = []
        for alphabet, mx in ((ALPHABET_QUICK, maxlen), (ALPHABET_2, maxlen2), (ALPHABET_3, maxlen3)):
            if ln > mx:
                continue
            for i, s in enumerate(itertools.product(alphabet, repeat=ln)):
                evs = expand(s)
                if ln <= 3:
                    jobs += [('rs', evs), ('us', evs)]
                else:
                    jobs.append((_kinds(i), evs))
        evaluate(ctx, jobs, res)
        done = ln
    # seeded structured generator: longer traces, several flags per write, G 0, cancels of
    # arbitrary ids (mostly-valid + some that refer to nothing)
    n = (150000 if ctx.tier == 'thorough' else 30000) if ctx.deep else 3000
    if res.failed:
        n = min(n, 3000)
    jobs = [(_kinds(i), random_trace(ctx.rng)) for i in range(n)]
    evaluate(ctx, jobs, res)
    res['scopes']['generated'] = n
    res['scopes']['exhaustive'] = {'alphabets': [[a[0] for a in ALPHABET_QUICK],
                                                 [a[0] for a in ALPHABET_2],
                                                 [a[0] for a in ALPHABET_3]],
                                   'max_len': [min(done, maxlen), min(done, maxlen2),
                                               min(done, maxlen3)]}
    return res.finish(RULE, exhaustive=(done == maxlen))


def replay(ctx, case):
    if isinstance(case.get('case'), dict):
        case = case['case']
    res = Results()
    evaluate(ctx, [(case.get('transport', 'rs'), parse(case['events']))], res)
    return res.finish('replay of one recorded trace')
