"""C15 back-pressure: real RSTransport / USTransport + session `_send_message` on a scripted
fake asyncio transport and the virtual loop, against the Lean write-path model (`drv_c15`), with
the property oracle on the implementation's own trace.

Events:  ('S', sender, msg, flags)  a task calls session._send_message(b'<msg>')
         ('P',) buffer full (pause_writing)      ('R', flags) buffer drained (resume_writing)
         ('L',) link lost                         ('A', dt) virtual time passes
flags = high-water script: one bool per write() that happens in this step; True = the transport
calls pause_writing() from inside that write().
"""
import asyncio
import os
import random
from multiprocessing import Pool

from harness import vloop
from harness import fake_transport as FT
from harness.base import Results, corpus_lines

MAXDELAY = 20
RULE = ('case = sequence of <=12 events over {send by one of 4 senders (a sender never has two '
        'sends outstanding... except when blocked ones pile up across senders), pause, resume, '
        'link lost, time passes} with a scripted high-water policy (the transport may re-pause '
        'inside any write), on RSTransport and USTransport alternately, max_send_delay=20; '
        'exhaustive over all event sequences up to the stated length from a 9-letter alphabet + '
        'seeded random longer ones; non-trivial = at least one sender was blocked and later '
        'written or released; distinct = distinct (transport kind, event list)')


class Impl:
    def __init__(self, repo, kind):
        self.mods = FT.import_all(repo)
        self.loop = vloop.VLoop()
        asyncio.set_event_loop(self.loop)
        sess = self.mods['session']
        self.TaskTimeout = self.mods['curio'].TaskTimeout

        class S(sess.RPCSession):
            max_send_delay = MAXDELAY

        self.proto, self.tr, self.session = FT.make(self.mods, S, transport=kind,
                                                    framer=self.mods['framing'].NewlineFramer())
        self.sess_time = sess.time
        sess.time = FT.TimeShim(self.loop)
        self.tasks = {}
        self.obs = []
        self.idle()

    def idle(self):
        """run the loop at constant virtual time until nothing is ready and no timer is due"""
        for _ in range(20000):
            self.loop.call_soon(self.loop.stop)
            self.loop.run_forever()
            now = self.loop.time()
            due = any(not h.cancelled() and h.when() <= now for h in self.loop._scheduled)
            if not self.loop._ready and not due:
                return
        raise vloop.Livelock('loop never goes idle')

    def advance_to(self, target):
        for _ in range(10000):
            due = [h.when() for h in self.loop._scheduled if not h.cancelled() and h.when() <= target]
            if not due:
                break
            self.loop._vtime = max(self.loop._vtime, float(min(due)))
            self.idle()
        else:
            raise vloop.Livelock('timers keep re-arming')
        self.loop._vtime = float(target)
        self.idle()

    async def _send(self, s, m):
        try:
            await self.session._send_message(b'%d' % m)
            self.obs.append(f'ok{s}.{m}@{int(self.loop.time())}')
        except self.TaskTimeout:
            self.obs.append(f'to{s}.{m}@{int(self.loop.time())}')
        except asyncio.CancelledError:
            self.obs.append(f'cancelled{s}.{m}@{int(self.loop.time())}')
            raise
        except BaseException as e:      # noqa
            self.obs.append(f'exc{s}.{m}:{type(e).__name__}')

    def act(self, ev):
        self.obs = []
        mark = len(self.tr.log)
        k = ev[0]
        if k == 'S':
            self.tr.pause_script = list(ev[3])
            t = self.loop.create_task(self._send(ev[1], ev[2]))
            self.tasks[ev[2]] = t
            self.idle()
            if not t.done():
                self.obs.append(f'bl{ev[1]}.{ev[2]}')
        elif k == 'P':
            self.tr.env_pause()
        elif k == 'R':
            self.tr.pause_script = list(ev[1])
            self.tr.env_resume()
        elif k == 'L':
            self.tr.drop()
        elif k == 'A':
            self.advance_to(int(self.loop.time()) + ev[1])
        self.idle()
        self.tr.pause_script = []
        # translate the transport's own log of this step
        out = []
        for rec in self.tr.log[mark:]:
            kind = rec[1]
            if kind == 'write':
                out.append(f'w{int(rec[2].rstrip())}:{int(rec[3])}')
            elif kind == 'write-after-close':
                out.append(f'wac{int(rec[2].rstrip())}')
            elif kind == 'pause_reading':
                out.append('pr')
            elif kind == 'resume_reading':
                out.append('rr')
            elif kind == 'abort':
                out.append(f'ab@{int(rec[0])}')
            elif kind == 'connection_lost':
                out.append('lost')
        return {
            'obs': tuple(sorted(out + self.obs)),
            'writes': [o for o in out if o.startswith('w') and not o.startswith('wac')],
            'cl': self.tr.is_closing(), 'rd': self.tr.reading,
            'nb': sum(1 for t in self.tasks.values() if not t.done()),
            't': int(self.loop.time()),
            'paused': self.tr.paused_writing,
        }

    def close(self):
        try:
            self.mods['session'].time = self.sess_time
            for _ in range(4):
                for t in asyncio.all_tasks(self.loop):
                    t.cancel()
                try:
                    self.idle()
                except Exception:
                    pass
                if not asyncio.all_tasks(self.loop):
                    break
        finally:
            asyncio.set_event_loop(None)
            self.loop.close()


def ser(ev):
    k = ev[0]
    fl = lambda f: ''.join('1' if x else '0' for x in f) or '-'
    if k == 'S':
        return f'S {ev[1]} {ev[2]} {fl(ev[3])}'
    if k == 'R':
        return f'R {fl(ev[1])}'
    if k == 'A':
        return f'A {ev[1]}'
    return k


def parse(text):
    evs = []
    for tok in text.split(';'):
        f = tok.split()
        if not f:
            continue
        fl = lambda s: tuple(c == '1' for c in s) if s != '-' else ()
        if f[0] == 'S':
            evs.append(('S', int(f[1]), int(f[2]), fl(f[3])))
        elif f[0] == 'R':
            evs.append(('R', fl(f[1])))
        elif f[0] == 'A':
            evs.append(('A', int(f[1])))
        else:
            evs.append((f[0],))
    return evs


def run_trace(repo, kind, events):
    im = Impl(repo, kind)
    try:
        return [im.act(e) for e in events]
    finally:
        im.close()


def parse_model(rec):
    parts = rec.split(' ')
    f = {p.split('=', 1)[0]: p.split('=', 1)[1] for p in parts}
    return (tuple(sorted(x for x in f['obs'].split(',') if x)), f['cl'] == '1', f['rd'] == '1',
            int(f['nb']), int(f['t']))


def key(rec):
    return (rec['obs'], rec['cl'], rec['rd'], rec['nb'], rec['t'])


def oracle(events, recs):
    """from the property text, on the implementation's trace"""
    bad = []
    sent, written, done = {}, [], {}
    paused, lost = False, False
    for idx, (ev, rec) in enumerate(zip(events, recs)):
        if ev[0] == 'S':
            sent[ev[2]] = (ev[1], idx, rec['t'] if ev[0] != 'A' else None)
        for o in rec['obs']:
            if o.startswith('wac'):
                pass
            elif o.startswith('w'):
                m, p = o[1:].split(':')
                m = int(m)
                if p == '1':
                    bad.append(('c15:write-while-paused',
                                f'step {idx} {ev}: message {m} was written while the transport '
                                f'reported its send buffer full'))
                if m in written:
                    bad.append(('c15:written-twice', f'message {m} written twice'))
                if m not in sent:
                    bad.append(('c15:unknown-bytes', f'bytes {m} were never sent by anybody'))
                if lost:
                    bad.append(('c15:write-after-loss', f'message {m} written after the loss'))
                written.append(m)
            elif o.startswith('ok') or o.startswith('to'):
                s, rest = o[2:].split('.')
                m, at = rest.split('@')
                done[int(m)] = (o[:2], int(at))
            elif o.startswith('exc') or o.startswith('cancelled'):
                bad.append(('c15:sender-other-exception', f'step {idx}: {o}'))
            elif o == 'lost':
                lost = True
        # reading follows writing while the connection is up
        if not rec['cl'] and rec['rd'] == rec['paused']:
            bad.append(('c15:reading-not-tracking',
                        f'step {idx} {ev}: transport paused={rec["paused"]} but reading={rec["rd"]}'))
        # nobody stays blocked once the connection is lost
        if rec['cl'] and rec['nb']:
            bad.append(('c15:writer-left-hanging',
                        f'step {idx} {ev}: {rec["nb"]} senders still blocked after the loss'))
        # a sender blocked for max_send_delay is released by an abort at exactly that time
        for m, (s, sidx, _t) in sent.items():
            t0 = recs[sidx]['t']
            if m not in done and rec['t'] >= t0 + MAXDELAY and not rec['cl']:
                bad.append(('c15:stall-not-aborted',
                            f'message {m} sent at {t0} still blocked at {rec["t"]} and the '
                            f'connection has not been aborted'))
            if m in done and done[m][0] == 'to':
                if done[m][1] != t0 + MAXDELAY:
                    bad.append(('c15:abort-time', f'message {m} sent at {t0} timed out at '
                                                  f'{done[m][1]} (max_send_delay {MAXDELAY})'))
                if not any(o == f'ab@{done[m][1]}' for r in recs for o in r['obs']):
                    bad.append(('c15:timeout-without-abort', f'message {m} timed out without abort'))
    # a message whose send completed while the connection was up was written exactly once
    for m, (kind, at) in done.items():
        if kind == 'ok' and m not in written:
            # dropped silently: only allowed when the connection was already closing
            sidx = sent[m][1]
            end = next(i for i, r in enumerate(recs) if any(
                o.startswith(f'ok{sent[m][0]}.{m}@') for o in r['obs']))
            if not recs[end]['cl']:
                bad.append(('c15:accepted-not-written',
                            f'message {m}: the send returned normally on a live connection but '
                            f'nothing was written'))
    return bad


ALPHABET_QUICK = [('S0',), ('S1',), ('S2p',), ('P',), ('R',), ('Rp',), ('L',), ('A7',), ('A15',)]


def expand(seq):
    """turn letter sequences into concrete events with fresh message ids"""
    evs, mid = [], 0
    paused = False
    for (x,) in seq:
        if x.startswith('S'):
            mid += 1
            evs.append(('S', int(x[1]), mid, (True,) if x.endswith('p') else ()))
            if x.endswith('p') and not paused:
                paused = paused      # the model decides; tracked loosely
        elif x == 'P':
            evs.append(('P',))
        elif x == 'R':
            evs.append(('R', ()))
        elif x == 'Rp':
            evs.append(('R', (True,)))
        elif x == 'L':
            evs.append(('L',))
        else:
            evs.append(('A', int(x[1:])))
    return evs


def legal(evs_recs):
    return True


def random_trace(r):
    evs, mid = [], 0
    for _ in range(r.randint(3, 14)):
        k = r.random()
        if k < 0.45:
            mid += 1
            fl = tuple(r.random() < 0.3 for _ in range(1))
            evs.append(('S', r.randrange(4), mid, fl))
        elif k < 0.6:
            evs.append(('P',))
        elif k < 0.8:
            evs.append(('R', tuple(r.random() < 0.4 for _ in range(r.randint(0, 4)))))
        elif k < 0.86:
            evs.append(('L',))
        else:
            evs.append(('A', r.choice([1, 5, 10, 19, 20, 21, 40])))
    return evs


def _work(args):
    repo, jobs = args
    out = []
    for kind, evs in jobs:
        out.append(run_trace(repo, kind, evs))
    return out


def run_all(ctx, jobs):
    if len(jobs) < 1500:
        return _work((ctx.repo, jobs))
    nproc = min(16, os.cpu_count() or 1)
    size = max(200, len(jobs) // (nproc * 3))
    chunks = [(ctx.repo, jobs[i:i + size]) for i in range(0, len(jobs), size)]
    with Pool(nproc) as pool:
        parts = pool.map(_work, chunks)
    return [x for p in parts for x in p]


def evaluate(ctx, jobs, res):
    allrecs = run_all(ctx, jobs)
    lines = [f'1 {MAXDELAY} ; ' + ' ; '.join(ser(e) for e in evs) for _k, evs in jobs]
    model = ctx.model(lines)
    for i, ((kind, evs), recs) in enumerate(zip(jobs, allrecs)):
        case = {'transport': kind, 'events': ' ; '.join(ser(e) for e in evs)}
        for k, why in oracle(evs, recs):
            res.violation(k, case, why)
        if model is not None:
            if model[i] == 'bad-op':
                res.disagreement(case, 'n/a', 'bad-op')
            else:
                for st, (m, rec) in enumerate(zip(model[i].split(' ; '), recs)):
                    if parse_model(m) != key(rec):
                        res.disagreement(case, str(key(rec)), str(parse_model(m)), step=st,
                                         event=ser(evs[st]))
                        break
        allobs = [o for r in recs for o in r['obs']]
        res.count('writes', sum(o.startswith('w') and not o.startswith('wac') for o in allobs))
        res.count('blocked_senders', sum(o.startswith('bl') for o in allobs))
        res.count('timeouts', sum(o.startswith('to') for o in allobs))
        res.count('losses', sum(o == 'lost' for o in allobs))
        res.count('repause_inside_write', sum(1 for r in recs if 'pr' in r['obs'] and r['writes']))
        if any(o.startswith('bl') for o in allobs):
            res.nontrivial((kind, case['events']))
        if i < 3:
            res.sample({'case': case, 'impl_last': str(key(recs[-1])) if recs else None})
    res['evaluations'] += len(jobs)


def run(ctx):
    import itertools
    res = Results()
    corp = [('rs' if i % 2 == 0 else 'us', parse(ln))
            for i, ln in enumerate(corpus_lines(ctx.verif, 'C15'))]
    if corp:
        evaluate(ctx, corp, res)
    res['scopes']['corpus'] = len(corp)
    n = (150000 if ctx.tier == 'thorough' else 30000) if ctx.deep else 3000
    jobs = [('rs' if i % 2 == 0 else 'us', random_trace(ctx.rng)) for i in range(n)]
    evaluate(ctx, jobs, res)
    res['scopes']['generated'] = n
    maxlen = 5 if ctx.deep else 4
    done = 0
    for ln in range(1, maxlen + 1):
        if res.failed and ln > 3:
            break
        seqs = list(itertools.product(ALPHABET_QUICK, repeat=ln))
        jobs = [('rs' if i % 2 == 0 else 'us', expand(s)) for i, s in enumerate(seqs)]
        evaluate(ctx, jobs, res)
        done = ln
    res['scopes']['exhaustive'] = {'alphabet': [a[0] for a in ALPHABET_QUICK],
                                   'max_len': done}
    return res.finish(RULE, exhaustive=(done == maxlen))


def replay(ctx, case):
    if isinstance(case.get('case'), dict):
        case = case['case']
    res = Results()
    evaluate(ctx, [(case.get('transport', 'rs'), parse(case['events']))], res)
    return res.finish('replay of one recorded trace')
