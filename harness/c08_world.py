"""C08 implementation side: a real transport protocol (RSTransport / USTransport) + a real session
(RPCSession on the newline framer, MessageSession on the Bitcoin framer) on the scripted fake
transport and the virtual loop (harness/rig.py), driven event by event.

Events (text form, ` ; `-separated in corpus / replay files):

  peer -> session (ignored once the asyncio transport is closing: asyncio delivers no data then)
    Q i          request / message handled at once          W i      handler waits for a gate (F i)
    B i r        stubborn: on cancellation works r more seconds before giving in
    C i fa       handler calls session.close(force_after=fa)    X i   handler calls session.abort()
    K i          handler sends a request of its own and awaits the answer        (RPC only)
    D i          handler raises ReplyAndDisconnect                               (RPC only)
    NW i / NQ i  notification with a waiting / quick handler                     (RPC only)
    BT i j       batch [waiting i, quick j]                                      (RPC only)
    PT           half a message          GB   garbage (undecodable line / bad magic)
    BC           bad checksum (MessageSession only)
    R k          the peer answers outgoing request k                             (RPC only)
  application
    F i          release handler i's gate (it returns)
    Z i          cancel the future handler i (kind W) is awaiting: its task ends with CancelledError
    WC i fa      handler waits for its gate (F i), then calls session.close(force_after=fa)
    OM k n       n tasks k .. k+n-1 call send_request at the same moment
    WM i n       n requests i .. i+n-1 with waiting handlers arrive in one chunk (more than the
                 incoming limiter admits at once)
    XC c         cancel application task c while it is inside close()
    O k          task: send_request        OB k  task: batch of 2 requests + 1 notification
    ON k         task: send_notification / send_message
    AC c fa      task: close(force_after=fa)     ACC c d fa   two such tasks started together
    ACT c fa     one task calling close(force_after=fa) twice in a row
    AB           task: abort()
  environment
    L            peer closed (connection_lost(None))     LE   link broke (connection_lost(exc))
    PA / RE      send buffer full / drained
    A dt         dt seconds of virtual time pass
  fault at a micro-step
    M n f        the NEXT event is performed, then only n iterations of the event loop are run
                 (not to quiescence), then fault f strikes (0: L, 1: LE, 2: abort(), 3: close(7)
                 from a task, 4: close(7) on a stalled transport), then the loop runs to quiescence
"""
import asyncio
import json
import logging
import signal
import threading

from harness import fake_transport as FT
from harness import vloop
from harness.rig import Rig

BIG = 10 ** 6
PT_LIMIT = 400    # max_size of the newline framer of the rpc sessions (every complete message is shorter)


class StallTransport(FT.FakeTransport):
    """FakeTransport + (a) `stalled`: a graceful close() does not complete (the peer does not
    read, the send buffer never drains), so connection_lost comes only with abort() or when the
    link drops; (b) no data is delivered once closing (asyncio removes the reader in close());
    (c) a callback just before connection_lost is delivered."""
    stalled = False
    on_lost = None
    lost_exc = None      # what connection_lost is called with (None = clean close / EOF)

    def close(self):
        if self.stalled:
            self.log.append((self.loop.time(), 'close'))
            self.closing = True
        else:
            super().close()

    def _force(self):
        self.closing = True
        self.loop.call_soon(self._deliver_lost)

    def abort(self):
        self.log.append((self.loop.time(), 'abort'))
        self.aborted = True
        self._force()

    def drop(self, exc=None):
        self.log.append((self.loop.time(), 'link-drop'))
        if not self.closing or self.lost_exc is None:
            self.lost_exc = exc
        self._force()

    def _deliver_lost(self):
        # as FakeTransport._deliver_lost, but asyncio passes the error for a broken link
        if not self.lost_delivered:
            if self.on_lost:
                self.on_lost()
            self.lost_delivered = True
            self.log.append((self.loop.time(), 'connection_lost'))
            self.proto.connection_lost(self.lost_exc)

    def feed(self, data):
        if not self.closing:
            self.proto.data_received(data)


def _itime(t):
    return int(t) if float(t) == int(t) else round(float(t), 6)


class World:
    """one connection; `act(event)` performs the event and runs the loop to quiescence"""

    def __init__(self, repo, skind='rpc', transport='rs', stalled=False, ptimeout=None,
                 req_timeout=None, plain=False):
        """plain: switch off, through the session's public class attributes, what the lifecycle
        model leaves out: cost-based throttling (C13/C14) and the recalibration of the outgoing
        concurrency limit (C20)"""
        logging.disable(logging.CRITICAL)
        self.skind = skind
        self.handlers = {}      # id -> record
        self.hook_times = []
        self.outs = {}          # k -> record
        self.closers = {}       # c -> record
        self.aborters = []
        self.gates = {}
        self.fed_at = {}        # handler id -> instant its request arrived
        self.loop_exceptions = []
        self.lost_at = None
        self.pending_at_loss = None
        self.in_body_at_loss = None
        self.pending_at_hook = None
        self.in_body_at_hook = None
        self.paused_at_hook = False
        self.errors = []
        world = self

        def maker(mods):
            sess, curio = mods['session'], mods['curio']
            self.CancelledError = asyncio.CancelledError
            self.TaskTimeout = curio.TaskTimeout

            async def body(session, hid, kind, arg):
                rec = world.handlers.setdefault(hid, {})
                task = asyncio.current_task()
                rec.update(task=task, kind=kind, start=world.now, in_body=True, done_at=None,
                           how=None)
                task.add_done_callback(lambda t, rec=rec: rec.update(done_at=world.now))
                try:
                    if kind == 'Q':
                        return 'quick'
                    if kind == 'W':
                        await world.gate(hid)
                        return 'waited'
                    if kind == 'B':
                        try:
                            await world.gate(hid)
                        except asyncio.CancelledError:
                            rec['cancel_seen'] = world.now
                            await asyncio.sleep(arg)
                            raise
                        return 'waited'
                    if kind == 'C':
                        await session.close(force_after=arg)
                        rec['close_returned'] = world.now
                        return 'closed'
                    if kind == 'WC':
                        await world.gate(hid)
                        await session.close(force_after=arg)
                        rec['close_returned'] = world.now
                        return 'closed'
                    if kind == 'X':
                        await session.abort()
                        return 'aborted'
                    if kind == 'K':
                        return await session.send_request('q')
                    if kind == 'D':
                        raise sess.ReplyAndDisconnect('bye')
                    return 'ok'
                finally:
                    rec['in_body'] = False

            if skind == 'rpc':
                class S(sess.RPCSession):
                    async def connection_lost(self):
                        world._on_hook()
                        await super().connection_lost()

                    async def handle_request(self, request):
                        args = list(request.args) if isinstance(request.args, (list, tuple)) else []
                        hid = args[0] if args else -1
                        arg = args[1] if len(args) > 1 else None
                        return await body(self, hid, request.method, arg)
                    def default_framer(self):
                        # a small anti-DoS limit (public constructor argument), so that a `PT`
                        # event can also be "more newline-free bytes than the limit": the framer
                        # then drops the segment and re-synchronises - a connection loss that
                        # arrives in that state must still end the session
                        return mods['framing'].NewlineFramer(max_size=PT_LIMIT)
                if req_timeout is not None:
                    S.sent_request_timeout = req_timeout
            else:
                class S(sess.MessageSession):
                    async def connection_lost(self):
                        world._on_hook()
                        await super().connection_lost()

                    async def handle_message(self, message):
                        command, payload = message
                        parts = payload.decode().split(',') if payload else ['-1']
                        hid = int(parts[0])
                        arg = int(parts[1]) if len(parts) > 1 else None
                        await body(self, hid, command.decode(), arg)
            if ptimeout is not None:
                S.processing_timeout = ptimeout
            if plain:
                S.cost_hard_limit = 0
                S.recalibrate_count = 10 ** 9
            return S

        self.rig = Rig(repo, maker, transport=transport)
        # the tasks the transport / session started in connection_made (message processing)
        self.base_tasks = list(self.rig.tasks())
        self.mods = self.rig.mods
        self.tr = self.rig.tr
        self.tr.__class__ = StallTransport
        self.tr.stalled = stalled
        self.tr.on_lost = self._on_lost
        self.proto = self.rig.proto
        self.session = self.rig.session
        self.rig.loop.set_exception_handler(self._loop_exc)
        self.bframer = self.mods['framing'].BitcoinFramer() if skind == 'msg' else None
        self.req_ids = {}       # wire id -> k

    # ------------------------------------------------------------------ helpers
    @property
    def now(self):
        return _itime(self.rig.loop.time())

    def _loop_exc(self, loop, ctx):
        e = ctx.get('exception')
        self.loop_exceptions.append(type(e).__name__ if e else str(ctx.get('message')))

    def _snapshot(self):
        return (sorted(k for k, r in self.outs.items() if not r['task'].done()),
                sorted(h for h, r in self.handlers.items()
                       if r.get('in_body') and not r['task'].done()))

    def _on_lost(self):
        self.lost_at = self.now
        self.pending_at_loss, self.in_body_at_loss = self._snapshot()

    def _on_hook(self):
        self.hook_times.append(self.now)
        if self.pending_at_hook is None:
            self.pending_at_hook, self.in_body_at_hook = self._snapshot()
            self.paused_at_hook = bool(self.tr.paused_writing)

    def gate(self, hid):
        g = self.gates.get(hid)
        if g is None:
            g = self.gates[hid] = self.rig.loop.create_future()
        return g

    def _task(self, coro, rec):
        t = self.rig.loop.create_task(coro)
        rec.update(task=t, start=self.now, done_at=None)
        t.add_done_callback(lambda _t, rec=rec: rec.update(done_at=self.now))
        return t

    def _feed_request(self, method, hid, arg=None, notification=False):
        self.fed_at.setdefault(hid, self.now)
        if self.skind == 'rpc':
            params = [hid] if arg is None else [hid, arg]
            msg = {'jsonrpc': '2.0', 'method': method, 'params': params}
            if not notification:
                msg['id'] = hid
            self.tr.feed(json.dumps(msg).encode() + b'\n')
        else:
            payload = (str(hid) if arg is None else f'{hid},{arg}').encode()
            self.tr.feed(self.bframer.frame((method.encode(), payload)))

    def _wire_id(self, k):
        """the id under which send_request('x', [k]) went out, if it has been written"""
        for data in list(self.tr.out) + list(getattr(self.tr, 'buffer', [])):
            for line in data.split(b'\n'):
                if not line:
                    continue
                try:
                    m = json.loads(line)
                except ValueError:
                    continue
                if isinstance(m, dict) and m.get('method') == 'x' and m.get('params') == [k]:
                    return m.get('id')
        return None

    async def _batch(self):
        async with self.session.send_batch() as b:
            b.add_request('a')
            b.add_request('b')
            b.add_notification('c')
        return b.results

    async def _close_twice(self, fa, rec):
        await self.session.close(force_after=fa)
        rec['first_returned'] = self.now
        await self.session.close(force_after=fa)

    # ------------------------------------------------------------------ events
    MICRO_FAULTS = {0: ('L',), 1: ('LE',), 2: ('AB',), 3: ('AC', 900, 7), 4: ('AC', 900, 7)}

    def act(self, ev):
        """perform the event and run the loop to quiescence"""
        if ev[0] == 'M':
            self.micro = (ev[1], ev[2])
            return self.observe()
        micro, self.micro = getattr(self, 'micro', None), None
        self._do(ev)
        if micro is not None:
            n, f = micro
            for _ in range(n):
                self.rig.loop.call_soon(self.rig.loop.stop)
                self.rig.loop.run_forever()
            if f == 4:
                self.tr.stalled = True
            fault = self.MICRO_FAULTS[f]
            if fault[0] == 'AC':
                fault = ('AC', 900 + len(self.closers), 7)
            self._do(fault)
        self.rig.idle()
        return self.observe()

    def _do(self, ev):
        k = ev[0]
        s = self.session
        if k in ('Q', 'W', 'B', 'C', 'X', 'K', 'D', 'WC'):
            if ev[1] not in self.handlers:
                self._feed_request(k, ev[1], ev[2] if len(ev) > 2 else None)
        elif k in ('NW', 'NQ'):
            self._feed_request(k[1], ev[1], notification=True)
        elif k == 'WM':
            for j in range(ev[2]):
                if ev[1] + j not in self.handlers:
                    self._feed_request('W', ev[1] + j)
        elif k == 'BT':
            self.fed_at.setdefault(ev[1], self.now)
            self.fed_at.setdefault(ev[2], self.now)
            a = {'jsonrpc': '2.0', 'method': 'W', 'params': [ev[1]], 'id': ev[1]}
            b = {'jsonrpc': '2.0', 'method': 'Q', 'params': [ev[2]], 'id': ev[2]}
            self.tr.feed(json.dumps([a, b]).encode() + b'\n')
        elif k == 'PT':
            if self.skind == 'rpc':
                # bytes that complete no message: alternately half a message and a newline-free
                # chunk longer than the framer's limit (dropped, the framer re-synchronises)
                self.pt_count = getattr(self, 'pt_count', 0) + 1
                self.tr.feed(b'{"jsonrpc":"2.0","meth' if self.pt_count % 2 == 0
                             else b'{"x":"' + b'y' * (PT_LIMIT + 40))
            else:
                self.tr.feed(self.bframer.frame((b'Q', b'7'))[:13])
        elif k == 'GB':
            self.tr.feed(b'\xff\xfe\n' if self.skind == 'rpc' else b'\x00' * 24)
        elif k == 'BC':
            fr = bytearray(self.bframer.frame((b'Q', b'8')))
            fr[-1] ^= 0x55
            self.tr.feed(bytes(fr))
        elif k == 'R':
            rec = self.outs.get(ev[1])
            if rec is not None and rec.get('wire_id') is None and rec['kind'] == 'O':
                rec['wire_id'] = self._wire_id(ev[1])
            if rec is not None and rec.get('wire_id') is not None:
                self.tr.feed(json.dumps({'jsonrpc': '2.0', 'result': ev[1],
                                         'id': rec['wire_id']}).encode() + b'\n')
        elif k == 'F':
            g = self.gates.get(ev[1])       # only a handler that has started can be released
            if g is not None and not g.done():
                g.set_result(None)
        elif k == 'Z':
            g = self.gates.get(ev[1])
            h = self.handlers.get(ev[1])
            if g is not None and not g.done() and h is not None and h.get('kind') == 'W':
                g.cancel()
        elif k == 'XC':
            rec = self.closers.get(ev[1])
            if rec is not None and not rec['task'].done():
                rec['app_cancelled'] = self.now
                rec['task'].cancel()
        elif k == 'OM':
            for j in range(ev[2]):
                kk = ev[1] + j
                if kk not in self.outs:
                    rec = self.outs[kk] = {'kind': 'O', 'wire_id': None}
                    self._task(s.send_request('x', [kk]), rec)
        elif k in ('O', 'OB', 'ON'):
            if ev[1] not in self.outs:
                rec = self.outs[ev[1]] = {'kind': k, 'wire_id': None}
                if k == 'O':
                    coro = s.send_request('x', [ev[1]])
                elif k == 'OB':
                    coro = self._batch()
                elif self.skind == 'rpc':
                    coro = s.send_notification('x')
                else:
                    coro = s.send_message((b'x', b''))
                self._task(coro, rec)
        elif k == 'AC':
            if ev[1] not in self.closers:
                rec = self.closers[ev[1]] = {'fa': ev[2]}
                self._task(s.close(force_after=ev[2]), rec)
        elif k == 'ACC':
            for c in (ev[1], ev[2]):
                if c not in self.closers:
                    rec = self.closers[c] = {'fa': ev[3]}
                    self._task(s.close(force_after=ev[3]), rec)
        elif k == 'ACT':
            if ev[1] not in self.closers:
                rec = self.closers[ev[1]] = {'fa': ev[2], 'twice': True}
                self._task(self._close_twice(ev[2], rec), rec)
        elif k == 'AB':
            rec = {}
            self.aborters.append(rec)
            self._task(s.abort(), rec)
        elif k == 'L':
            self.tr.drop()
        elif k == 'LE':
            self.tr.drop(ConnectionResetError(104, 'Connection reset by peer'))
        elif k == 'PA':
            self.tr.env_pause()
        elif k == 'RE':
            self.tr.env_resume()
        elif k == 'A':
            self.rig.advance(ev[1])
        else:
            raise ValueError(f'unknown event {ev!r}')

    # ------------------------------------------------------------------ observations
    def is_closed(self):
        """has message processing ended?  (correspondence only; the oracle does not use it.)
        Read from the transport's own flag where it has one, else from behaviour: the tasks
        started in connection_made are done."""
        ev = getattr(self.proto, '_closed_event', None)
        if ev is not None and hasattr(ev, 'is_set'):
            return bool(ev.is_set())
        return all(t.done() for t in self.base_tasks)

    def first_abort(self):
        """instant of the first abort() on the asyncio transport that came before
        connection_lost was delivered (a later one does nothing)"""
        for rec in self.tr.log:
            if rec[1] == 'connection_lost':
                return None
            if rec[1] == 'abort':
                return _itime(rec[0])
        return None

    def outcome(self, task):
        if not task.done():
            return 'pending'
        if task.cancelled():
            return 'cancelled'
        e = task.exception()
        if e is None:
            return 'returned'
        return type(e).__name__

    def observe(self):
        tickets = []
        for k in sorted(self.outs):
            r = self.outs[k]
            if r['kind'] not in ('O', 'OB'):
                continue
            o = self.outcome(r['task'])
            if o == 'returned':
                o = 'answered'
            elif o == 'TaskTimeout':
                o = f'timedOut@{r["done_at"]}'
            tickets.append(f'{k}:{o}')
        closers = []
        for c in sorted(self.closers):
            r = self.closers[c]
            o = self.outcome(r['task'])
            if o == 'pending':
                o = 'waiting'
            elif o == 'returned':
                o = f'returned@{r["done_at"]}'
            closers.append(f'{c}:{o}')
        fa = self.first_abort()
        return {
            'hook': len(self.hook_times),
            'closed': self.is_closed(),
            'live': sum(1 for r in self.handlers.values() if 'task' in r and not r['task'].done()),
            'tickets': tickets,
            'closers': closers,
            'abort': '-' if fa is None else fa,
            'lost': self.tr.lost_delivered,
            'now': self.now,
            'closing': self.tr.is_closing(),
        }

    def leftover_tasks(self):
        return [t for t in self.rig.tasks()]

    def close(self):
        self.rig.close()
        logging.disable(logging.NOTSET)


# ---------------------------------------------------------------------- text form of events
def ser(ev):
    return ' '.join(str(x) for x in ev)


def parse_events(text):
    evs = []
    for tok in text.split(';'):
        f = tok.split()
        if f:
            evs.append(tuple([f[0]] + [int(x) for x in f[1:]]))
    return evs


CPU_BUDGET_S = 20.0     # CPU seconds (user time of this process) for ONE case; a normal case takes ~1-50 ms


class _Spin(KeyboardInterrupt):
    """raised by the CPU-time watchdog: code under test loops without ever yielding to the event
    loop (the virtual loop cannot see that).  A KeyboardInterrupt subclass because asyncio lets
    only those escape from a task step."""


_TRIPPED = [False]


def _watchdog(signum, frame):
    _TRIPPED[0] = True
    raise _Spin()


def run_events(repo, cfg, events, budget=CPU_BUDGET_S):
    """-> (list of per-event observations, final World summary) ; never raises for loop stalls:
    Deadlock / Livelock are recorded as observations.  Code that spins without yielding is cut
    off by a watchdog on the CPU time this process has used (ITIMER_VIRTUAL: not wall-clock time,
    so a loaded machine cannot trip it); the summary then carries `spin` and the caller decides
    (harness/c08.py re-runs the case: only a spin that repeats is an observation)."""
    use_timer = threading.current_thread() is threading.main_thread()
    old = None
    _TRIPPED[0] = False
    if use_timer:
        old = signal.signal(signal.SIGVTALRM, _watchdog)
        signal.setitimer(signal.ITIMER_VIRTUAL, budget)
    w = None
    try:
        try:
            w = World(repo, cfg.get('skind', 'rpc'), cfg.get('transport', 'rs'),
                      cfg.get('stalled', False), cfg.get('ptimeout'), cfg.get('req_timeout'),
                      cfg.get('plain', False))
            obs, stall = [], None
            for i, ev in enumerate(events):
                try:
                    obs.append(w.act(ev))
                except (vloop.Deadlock, vloop.Livelock) as e:
                    stall = (i, type(e).__name__)
                    break
                if _TRIPPED[0]:
                    raise _Spin()
            if stall is None:
                # "left waiting" means for ever: callers queued behind the outgoing limiter after
                # the loss are released wave by wave by their timeouts - give them the time
                try:
                    for _ in range(40):
                        if all(r['task'].done() for r in w.outs.values()):
                            break
                        w.rig.advance(100)
                except (vloop.Deadlock, vloop.Livelock) as e:
                    stall = (len(events) - 1, type(e).__name__)
            if use_timer:
                signal.setitimer(signal.ITIMER_VIRTUAL, 0)
            return obs, summary(w, stall)
        except _Spin:
            return [], spin_summary(len(events), budget)
    finally:
        if use_timer:
            signal.setitimer(signal.ITIMER_VIRTUAL, 0)
            signal.signal(signal.SIGVTALRM, old)
        if w is not None:
            try:
                w.close()
            except BaseException:      # noqa
                pass


def spin_summary(n, budget):
    return {'stall': (0, 'Livelock'), 'handlers': {}, 'outs': {}, 'closers': {}, 'aborters': [],
            'hook_times': [], 'lost_at': None, 'pending_at_loss': None, 'in_body_at_loss': None,
            'pending_at_hook': None, 'in_body_at_hook': None, 'paused_at_hook': False, 'closed': False,
            'closing': False, 'lost_delivered': False, 'leftover_session_tasks': 0,
            'leftover_own_tasks': 0, 'aborts': [], 'first_abort': None, 'loop_exceptions': [],
            'now': 0, 'writes_after_close': 0, 'max_send_delay': 0, 'processing_timeout': 0,
            'spin': budget}


def summary(w, stall):
    hs = {}
    for hid, r in w.handlers.items():
        if 'task' in r:
            hs[hid] = {'kind': r['kind'], 'start': r['start'], 'done_at': r['done_at'],
                       'arrived': w.fed_at.get(hid, r['start']),
                       'outcome': w.outcome(r['task']), 'cancel_seen': r.get('cancel_seen')}
    outs = {k: {'kind': r['kind'], 'start': r['start'], 'done_at': r['done_at'],
                'outcome': w.outcome(r['task'])} for k, r in w.outs.items()}
    closers = {c: {'fa': r['fa'], 'start': r['start'], 'done_at': r['done_at'],
                   'outcome': w.outcome(r['task']), 'app_cancelled': r.get('app_cancelled'),
                   'twice': r.get('twice', False)} for c, r in w.closers.items()}
    aborters = [w.outcome(r['task']) for r in w.aborters]
    own = {r['task'] for r in list(w.outs.values()) + list(w.closers.values()) + w.aborters}
    left = [t for t in w.leftover_tasks()]
    return {
        'stall': stall, 'handlers': hs, 'outs': outs, 'closers': closers, 'aborters': aborters,
        'hook_times': list(w.hook_times), 'lost_at': w.lost_at,
        'pending_at_loss': w.pending_at_loss, 'in_body_at_loss': w.in_body_at_loss,
        'pending_at_hook': w.pending_at_hook, 'in_body_at_hook': w.in_body_at_hook,
        'paused_at_hook': w.paused_at_hook,
        'closed': w.is_closed(), 'closing': w.tr.is_closing(),
        'lost_delivered': w.tr.lost_delivered,
        'leftover_session_tasks': len([t for t in left if t not in own]),
        'leftover_own_tasks': len([t for t in left if t in own]),
        'aborts': [_itime(rec[0]) for rec in w.tr.log if rec[1] == 'abort'],
        'first_abort': w.first_abort(),
        'loop_exceptions': list(w.loop_exceptions),
        'now': w.now,
        'writes_after_close': sum(1 for rec in w.tr.log if rec[1] == 'write-after-close'),
        'max_send_delay': _itime(w.session.max_send_delay),
        'processing_timeout': _itime(w.session.processing_timeout),
    }
