"""Shared by harness/c04.py and harness/c05.py: value generators, canonical rendering of what the
real codec returned (item lines in the format of lean/Aiorpcx/C04/Driver.lean), JSON helpers."""
import json
import math

from harness import jwire

E = jwire.enc
PROTO_NAMES = ('v1', 'v2', 'loose', 'auto')
DOCUMENTED_CODES = (-32700, -32600, -32601, -32602)     # JSON-RPC: parse error, invalid
#                                             request, method not found, invalid params


def protos(mod):
    return {'v1': mod.JSONRPCv1, 'v2': mod.JSONRPCv2, 'loose': mod.JSONRPCLoose,
            'auto': mod.JSONRPCAutoDetect}


def proto_name(mod, cls):
    for k, v in protos(mod).items():
        if v is cls:
            return k
    return getattr(cls, '__name__', repr(cls))


def strict_loads(b):
    """json.loads that refuses NaN/Infinity (they are not JSON)"""
    def bad(x):
        raise ValueError('constant ' + x)
    return json.loads(b.decode() if isinstance(b, bytes) else b, parse_constant=bad)


def to_bytes(payload):
    """what a peer would put on the wire for this payload"""
    return json.dumps(payload, separators=(',', ':')).encode()


def mask_msg(p):
    """library-generated message texts are not compared (twin of Driver.maskMsg)"""
    if isinstance(p, dict) and isinstance(p.get('error'), dict) and 'message' in p['error']:
        q = dict(p)
        q['error'] = {k: ('*' if k == 'message' else v) for k, v in p['error'].items()}
        return q
    return p


def canon_msg(p):
    """twin of JWire.canonMsg: members of a message object sorted by name (by code point), also
    inside its object-valued members - JSON objects are unordered"""
    if isinstance(p, dict):
        out = {}
        for k in sorted(p):
            v = p[k]
            out[k] = {k2: v[k2] for k2 in sorted(v)} if isinstance(v, dict) else v
        return out
    return p


def reply_line(mod, error_message):
    if error_message is None:
        return '-'
    try:
        p = json.loads(error_message.decode())
    except Exception as e:       # not decodable: shown as such, the oracle judges it
        return f'!undecodable:{type(e).__name__}'
    if isinstance(p, list):
        return E([canon_msg(mask_msg(x)) for x in p])
    return E(canon_msg(mask_msg(p)))


def exc_line(mod, e):
    if isinstance(e, mod.ProtocolError):
        rid = '-' if e.response_msg_id is id else safe_enc(e.response_msg_id)
        return f'PE {e.code} {reply_line(mod, e.error_message)} {rid}'
    return 'PY ' + type(e).__name__


def safe_enc(v):
    try:
        return E(v)
    except jwire.NotJ:
        return '!notJ:' + type(v).__name__


def item_line(mod, item, rid):
    if isinstance(item, mod.Request):
        return f'R {jwire.str_tok(item.method)} {safe_enc(item.args)} {safe_enc(rid)}'
    if isinstance(item, mod.Notification):
        return f'N {jwire.str_tok(item.method)} {safe_enc(item.args)}'
    if isinstance(item, mod.Response):
        r = item.result
        if isinstance(r, mod.RPCError):
            msg = r.message
            m = jwire.str_tok(msg) if isinstance(msg, str) else '!' + type(msg).__name__
            return f'E {safe_enc(r.code)} {m} {safe_enc(rid)}'
        if isinstance(r, mod.ProtocolError):
            return f'X {r.code} {safe_enc(rid)}'
        return f'V {safe_enc(r)} {safe_enc(rid)}'
    if isinstance(item, list):
        return 'B ' + safe_enc(item)
    return '!item:' + type(item).__name__


def decode_line(mod, cls, message):
    """canonical line for `cls.message_to_item(message)`"""
    try:
        item, rid = cls.message_to_item(message)
    except BaseException as e:      # noqa: every exception type is an observation
        if isinstance(e, (KeyboardInterrupt, SystemExit)):
            raise
        return exc_line(mod, e)
    return item_line(mod, item, rid)


# ------------------------------------------------------------------ value generation
SPECIAL_FLOATS = [0.0, -0.0, 1.0, -1.0, 1.5, 0.1, 5e-324, 2.2250738585072014e-308,
                  1.7976931348623157e308, -1.7976931348623157e308, 1e22, 1e21, 1e16, 123456789.125,
                  -2.5e-300, 3.141592653589793, 9007199254740993.0, 1e-7]
SPECIAL_STRS = ['', 'a', 'id', 'method', '2.0', '\n', '\r\n', '\t\x00\x1f', '"', '\\', '\\n', '\x7f',
                '\x80\xff', '  ', '\ud800', '\udfff', '\U00010000', '\U0001f600',
                '\U0010ffff', 'é', '日本語', ' ', '/', 'null', '﻿', '\x1b[0m',
                'a' * 300]


def unpair(s):
    """A high surrogate directly followed by a low surrogate is not representable in JSON as two
    code points (json.loads joins the escapes into one astral character): keep surrogates lone."""
    out = []
    for c in s:
        if out and '\ud800' <= out[-1] <= '\udbff' and '\udc00' <= c <= '\udfff':
            out.append('-')
        out.append(c)
    return ''.join(out)


def gen_str(rng):
    r = rng.random()
    if r < 0.35:
        return rng.choice(SPECIAL_STRS)
    n = rng.choice((1, 2, 3, 5, 9))
    pools = ('abcxyz_.', '\n\r\t\x00\x01\x1f"\\/', '\x7f\x80\xa0\xffĀ', '\ud800\U0010fc00\udfff',
             '\U00010000\U0001f600\U0010ffff', ' ￾￿€')
    return unpair(''.join(rng.choice(rng.choice(pools)) for _ in range(n)))


def gen_int(rng):
    r = rng.random()
    if r < 0.5:
        return rng.randint(-5, 20)
    if r < 0.7:
        return rng.choice((2 ** 31, 2 ** 53 + 1, -2 ** 63, 2 ** 64, 10 ** 18, -10 ** 19))
    digits = rng.choice((30, 100, 1000, 4000))
    v = rng.randrange(10 ** (digits - 1), 10 ** digits)
    return -v if rng.random() < 0.3 else v


def gen_float(rng):
    if rng.random() < 0.6:
        return rng.choice(SPECIAL_FLOATS)
    return math.ldexp(rng.random() - 0.5, rng.randint(-1070, 1020))


def gen_value(rng, depth=3):
    r = rng.random()
    if depth <= 0 or r < 0.45:
        k = rng.randrange(7)
        if k == 0:
            return None
        if k == 1:
            return rng.random() < 0.5
        if k == 2:
            return gen_int(rng)
        if k == 3:
            return gen_float(rng)
        if k == 4:
            return gen_str(rng)
        if k == 5:
            return []
        return {}
    if r < 0.72:
        return [gen_value(rng, depth - 1) for _ in range(rng.randint(0, 4))]
    out = {}
    for _ in range(rng.randint(0, 4)):
        out[gen_str(rng)] = gen_value(rng, depth - 1)
    return out


def nest(rng, depth):
    """a value nested `depth` levels deep (mixed lists/dicts)"""
    v = rng.choice((1, 'x', None, [], {}))
    for _ in range(depth):
        v = [v] if rng.random() < 0.5 else {gen_str(rng): v}
    return v


def has_float(v):
    if type(v) is float:
        return True
    if type(v) in (list, tuple):
        return any(has_float(x) for x in v)
    if type(v) is dict:
        return any(has_float(x) for x in v.values())
    return False


def floats_in(v, out):
    if type(v) is float:
        out.append(v)
    elif type(v) in (list, tuple):
        for x in v:
            floats_in(x, out)
    elif type(v) is dict:
        for x in v.values():
            floats_in(x, out)
    return out
