"""C05: running the real code on hostile inputs - shared by the facts extractor
(tools/facts/c05.py: the decision table the model's guards are derived from) and the harness
(harness/c05.py).

Everything here goes through the public surface (`JSONRPCConnection(protocol)`, `send_request`,
`send_batch`, `receive_message`, `pending_requests`, the futures the connection hands out;
`RSTransport` + `RPCSession` over a fake asyncio transport).  The three private helpers
`_receive_response`, `_receive_response_batch`, `_message_to_payload` are probed directly *if*
they exist under these names with these signatures; otherwise those rows are simply absent
(the public rows cover the same sites through `receive_message`).

Never call sys.set_int_max_str_digits here: the 4300-digit limit is part of the behaviour."""
import asyncio
import contextlib
import inspect
import json
import logging

from harness import vloop, c05_fake

PROTO_CLASS = {'v1': 'JSONRPCv1', 'v2': 'JSONRPCv2', 'loose': 'JSONRPCLoose',
               'auto': 'JSONRPCAutoDetect'}
PROTO_NAMES = ('v1', 'v2', 'loose', 'auto')

# names of lean/Aiorpcx/Common/Py.lean `PyExc` (the modelled exception universe)
UNIVERSE = ('BaseException', 'Exception', 'TypeError', 'ValueError', 'UnicodeDecodeError',
            'JSONDecodeError', 'RuntimeError', 'RecursionError', 'LookupError', 'KeyError',
            'IndexError', 'AttributeError', 'AssertionError', 'MemoryError', 'OverflowError',
            'StopIteration', 'InvalidStateError', 'CodeMessageError', 'RPCError', 'ProtocolError')


def protos(mod):
    return {k: getattr(mod, v) for k, v in PROTO_CLASS.items()}


def nearest_exc_name(e):
    """class name of `e`, or of its nearest base class inside the modelled universe
    (e.g. asyncio.CancelledError -> BaseException)"""
    for k in type(e).__mro__:
        if k.__name__ in UNIVERSE:
            return k.__name__
    return 'BaseException'


# ------------------------------------------------------------------------------ connection states
def build_conn(mod, cls, setup):
    """setup: list of tokens  S | Sc | Sd | B<k> | B<k>c | B<k>d
         S    a single request is outstanding and awaited
         B<k> a batch of k requests + one notification is outstanding and awaited
         ..c  its waiter gave up: the future was cancelled (what a timeout around the wait does);
              the connection still lists the request
         ..d  its future was already resolved by somebody else
    Returns (conn, entries), entries = [('S', id, future, request, state) |
    ('B', ids, future, batch, state)]; ids are read from the wire message, not assumed."""
    conn = mod.JSONRPCConnection(cls)
    entries = []
    for s in setup:
        state = 'p'
        if s[-1] in 'cd':
            s, state = s[:-1], s[-1]
        if s == 'S':
            req = mod.Request('m', [])
            msg, fut = conn.send_request(req)
            rid = wire_ids(msg)
            entries.append(('S', rid[0] if len(rid) == 1 else rid, fut, req, state))
        else:
            k = int(s[1:])
            batch = mod.Batch([mod.Request('m', []) for _ in range(k)] + [mod.Notification('n', [])])
            msg, fut = conn.send_batch(batch)
            entries.append(('B', wire_ids(msg), fut, batch, state))
        if state == 'c':
            fut.cancel()
        elif state == 'd':
            fut.set_result('resolved-by-somebody-else')
    return conn, entries


def wire_ids(msg):
    """the ids of the requests in an outgoing message, as the peer would read them"""
    p = json.loads(msg.decode())
    members = p if isinstance(p, list) else [p]
    return [m['id'] for m in members if isinstance(m, dict) and m.get('id') is not None]


def listed(conn, entries):
    """the entries the connection still lists as pending (public `pending_requests()`, matched
    by object identity); None if that cannot be determined"""
    try:
        pend = conn.pending_requests()
    except Exception:
        return None
    ids = {id(x) for x in pend}
    return [e for e in entries if id(e[3]) in ids]


# ------------------------------------------------------------------------------ the grid
STATES = {
    'empty': [],
    'singles': ['S', 'S'],
    'singleCancelled': ['Sc', 'S'],
    'singleDone': ['Sd', 'S'],
    'batch': ['B1', 'S'],
    'batchCancelled': ['B1c', 'S'],
    'batchDone': ['B1d', 'S'],
}
ALL_STATES = tuple(STATES)
SINGLE_STATES = ('empty', 'singles', 'singleCancelled', 'singleDone')


def states_for(pname):
    """1.0 has no batches: a 1.0 connection cannot have one outstanding"""
    return SINGLE_STATES if pname == 'v1' else ALL_STATES

# same names as `Inp` in lean/Aiorpcx/C05/Probe.lean
INPUTS = {
    'badUtf8': b'{"jsonrpc":"2.0","method":"\xff\xfe","id":1}',
    'badJson': b'{"jsonrpc":"2.0","method":"m","id":1',
    'deepNesting': b'[' * 100000,
    'hugeInt': b'{"jsonrpc":"2.0","method":"m","id":' + b'7' * 5000 + b'}',
    'respListId': b'{"jsonrpc":"2.0","result":7,"error":null,"id":[1]}',
    'respDictId': b'{"jsonrpc":"2.0","result":7,"error":null,"id":{"a":1}}',
    'respBoolId': b'{"jsonrpc":"2.0","result":7,"error":null,"id":true}',
    'respKnownV1': b'{"result":7,"error":null,"id":0}',
    'respKnownV2': b'{"jsonrpc":"2.0","result":7,"id":0}',
    'respErrorKnown': b'{"jsonrpc":"2.0","error":{"code":5,"message":"e"},"id":0}',
    'respMalformedKnown': b'{"jsonrpc":"2.0","id":0}',
    'respUnknown': b'{"jsonrpc":"2.0","result":7,"error":null,"id":77}',
    'batchMixedIds': b'[{"jsonrpc":"2.0","result":1,"id":0},{"jsonrpc":"2.0","result":2,"id":"x"}]',
    'batchNullIds': b'[{"jsonrpc":"2.0","result":1,"id":null},{"jsonrpc":"2.0","result":2,"id":null}]',
    'batchKnown': b'[{"jsonrpc":"2.0","result":7,"id":0}]',
    'batchMalformedKnown': b'[{"jsonrpc":"2.0","result":7,"error":5,"id":0}]',
    'reqBadParams': b'{"jsonrpc":"2.0","method":"m","params":5,"id":3}',
    'batchOneBad': b'[{"jsonrpc":"2.0","method":"m","id":3},5]',
    'batchAllBad': b'[5,6]',
    'reqOk': b'{"jsonrpc":"2.0","method":"m","params":[],"id":3}',
}
PARSE_INPUTS = ('badUtf8', 'badJson', 'deepNesting', 'hugeInt')
REQUEST_INPUTS = ('reqBadParams', 'batchOneBad', 'batchAllBad', 'reqOk')
RESPONSE_INPUTS = ('respListId', 'respDictId', 'respBoolId', 'respKnownV1', 'respKnownV2',
                   'respErrorKnown', 'respMalformedKnown', 'respUnknown', 'batchMixedIds',
                   'batchNullIds', 'batchKnown', 'batchMalformedKnown')
BATCH_INPUTS = ('batchMixedIds', 'batchNullIds', 'batchKnown', 'batchMalformedKnown')
# same names as `Rid`
RIDS = {'list': [1], 'dict': {'a': 1}, 'bool': False, 'zero': 0, 'one': 1, 'unknown': 77,
        'none': None, 'floatZero': 0.0, 'strZero': '0'}


def public_grid(pname):
    for i in PARSE_INPUTS + REQUEST_INPUTS:
        for st in ('empty', 'singles'):
            yield i, st
    for i in RESPONSE_INPUTS:
        for st in states_for(pname):
            yield i, st


def _callable_with(fn, *args):
    try:
        inspect.signature(fn).bind(*args)
    except (TypeError, ValueError):
        return False
    return True


def _ended(mod, call):
    try:
        call()
    except mod.ProtocolError as e:
        return 'protoReply' if getattr(e, 'error_message', None) is not None else 'protoNoReply'
    except BaseException as e:      # noqa: every type is an observation
        if isinstance(e, (KeyboardInterrupt, SystemExit)):
            raise
        return 'escaped:' + nearest_exc_name(e)
    return 'returned'


def retrieve(entries):
    """mark the exceptions stored in the futures as seen (asyncio logs unretrieved ones)"""
    for e in entries:
        fut = e[2]
        if fut.done() and not fut.cancelled():
            fut.exception()


def _pending(conn):
    try:
        return len(conn.pending_requests())
    except Exception:
        return 999


def conn_table(mod):
    """the decision table: list of rows (via, arg, proto, state, ended, pending).
    Needs a current event loop (the connection creates futures)."""
    P = protos(mod)
    rows = []
    for pname in PROTO_NAMES:
        cls = P[pname]
        for arg, st in public_grid(pname):
            conn, ents = build_conn(mod, cls, STATES[st])
            ended = _ended(mod, lambda: conn.receive_message(INPUTS[arg]))
            rows.append(('receiveMessage', arg, pname, st, ended, _pending(conn)))
            retrieve(ents)
        # direct probes of the private helpers, where they still exist
        for rname, rid in RIDS.items():
            for st in states_for(pname):
                conn, ents = build_conn(mod, cls, STATES[st])
                fn = getattr(conn, '_receive_response', None)
                if not callable(fn) or not _callable_with(fn, 7, rid):
                    continue
                ended = _ended(mod, lambda: fn(7, rid))
                rows.append(('receiveResponse', rname, pname, st, ended, _pending(conn)))
                retrieve(ents)
        if pname != 'v1':
            for arg in BATCH_INPUTS:
                payloads = json.loads(INPUTS[arg])
                for st in ALL_STATES:
                    conn, ents = build_conn(mod, cls, STATES[st])
                    fn = getattr(conn, '_receive_response_batch', None)
                    if not callable(fn) or not _callable_with(fn, payloads):
                        continue
                    ended = _ended(mod, lambda: fn(payloads))
                    rows.append(('receiveResponseBatch', arg, pname, st, ended, _pending(conn)))
                    retrieve(ents)
        fn = getattr(cls, '_message_to_payload', None)
        if callable(fn):
            for arg in PARSE_INPUTS + ('reqOk',):
                if not _callable_with(fn, INPUTS[arg]):
                    continue
                ended = _ended(mod, lambda: fn(INPUTS[arg]))
                rows.append(('messageToPayload', arg, pname, 'empty', ended, 0))
    return rows


def conn_table_in_loop(mod):
    loop = asyncio.new_event_loop()
    asyncio.set_event_loop(loop)
    try:
        return conn_table(mod)
    finally:
        asyncio.set_event_loop(None)
        loop.close()


# ------------------------------------------------------------------------------ logging
class FormattingHandler(logging.Handler):
    """formats every record it is given, as a real handler would (so lazily %-formatted
    arguments and `__str__` of logged objects actually run), and throws the text away"""

    def __init__(self):
        super().__init__(level=0)
        self.formatter = logging.Formatter('%(asctime)s %(name)s %(levelname)s %(message)s')
        self.count = 0

    def emit(self, record):
        self.count += 1
        try:
            self.format(record)
        except Exception:
            # as in the standard handlers: an exception while formatting a record is reported
            # by logging itself (Handler.handleError) and does not reach the code that logged
            pass


@contextlib.contextmanager
def logging_at(verbose, names=()):
    """verbose: every logger down to DEBUG, with a handler that formats the records;
    otherwise the library's defaults (WARNING).  Restores the previous configuration."""
    root = logging.getLogger()
    loggers = [root] + [logging.getLogger(n) for n in names]
    saved = [(lg, lg.level, list(lg.handlers), lg.propagate, lg.disabled) for lg in loggers]
    saved_disable = root.manager.disable
    h = FormattingHandler()
    try:
        if verbose:
            logging.disable(logging.NOTSET)
            for lg in loggers:
                lg.setLevel(logging.DEBUG)
                lg.disabled = False
            root.handlers = [h]
        else:
            for lg in loggers[1:]:
                lg.setLevel(logging.NOTSET)
            root.setLevel(logging.WARNING)
            root.handlers = [logging.NullHandler()]
        yield h
    finally:
        for lg, level, handlers, propagate, disabled in saved:
            lg.setLevel(level)
            lg.handlers = handlers
            lg.propagate = propagate
            lg.disabled = disabled
        logging.disable(saved_disable)


# ------------------------------------------------------------------------------ sessions
PROBE = b'{"jsonrpc":"2.0","method":"ping","params":[],"id":99}'
PROBE_V1 = b'{"method":"ping","params":[],"id":99}'
PROBE_ID = 99


def answered_probe(writes):
    for w in writes:
        for part in w.split(b'\n'):
            try:
                o = json.loads(part.decode())
            except Exception:
                continue
            for x in (o if isinstance(o, list) else [o]):
                if isinstance(x, dict) and x.get('id') == PROBE_ID and type(x.get('id')) is int:
                    return True
    return False


def run_session(repo_mods, pname, setup, msgs, verbose=False, limited=True, late=None, script=None):
    """Feeds `msgs` (unframed) to a real RPCSession whose connection uses protocol `pname` and has
    `setup` outstanding, then a probe request.  Returns observations.

    script: what happens before the messages - a list of steps
        ['ask', 'single'|'batch']        the session itself sends a request (a batch of two
                                         requests and a notification) and waits for the answer
                                         under its `sent_request_timeout`
        ['sleep', seconds]               virtual time passes
        ['peer', hex]                    the peer sends these bytes now
        ['answer', k, kind, delta]       the peer answers the k-th 'ask' (kind: valid / error /
                                         malformed / duplicate); delta None: now, else `delta`
                                         seconds after that request's deadline (a negative delta
                                         smaller than the loop's clock resolution: in the same
                                         loop iteration as the timeout, ahead of it)
    late = dict(what=, resp=, delta=) is short for [['ask', what], ['answer', 0, resp, delta]].

    verbose: debug logging enabled on every logger, `session.verbosity` raised, `log_me` set."""
    mod, smod, rmod = repo_mods
    c05_fake.bind_virtual_time(smod)
    cls = protos(mod)[pname]
    obs = {}
    if late:
        script = [['ask', late['what']], ['answer', 0, late['resp'], late['delta']]] + list(script or [])

    class S(smod.RPCSession):
        async def handle_request(self, request):
            return 'pong'

    if not limited:
        S.cost_hard_limit = 0

    async def go():
        def factory(transport):
            conn, entries = build_conn(mod, cls, setup)
            s = S(transport, connection=conn)
            if verbose:
                s.verbosity = 9
                s.log_me = True
            return s
        before_tasks = set(asyncio.all_tasks())
        p, t, session = c05_fake.make(rmod, smod, factory)
        # the message task is the task `connection_made` started
        mtasks = [x for x in asyncio.all_tasks() if x not in before_tasks]
        await c05_fake.settle()
        per = []
        loop = asyncio.get_event_loop()
        timeout = float(getattr(session, 'sent_request_timeout', 30.0))
        asks = []

        async def ask(what):
            if what == 'single' or pname == 'v1':
                return await session.send_request('slow', [])
            async with session.send_batch() as b:
                b.add_request('slow', [1])
                b.add_request('slow', [2])
                b.add_notification('note')
            return b.results

        def deliver(data):
            if not t.is_closing():
                p.data_received(data)
        for step in (script or []):
            if step[0] == 'ask':
                t0, nw = loop.time(), len(t.writes)
                task = loop.create_task(ask(step[1]))
                await c05_fake.settle()
                ids = [i for w in t.writes[nw:] for part in w.split(b'\n') if part
                       for i in wire_ids(part)]
                asks.append((task, step[1], ids, t0 + timeout))
            elif step[0] == 'sleep':
                await asyncio.sleep(step[1])
                await c05_fake.settle()
            elif step[0] == 'peer':
                deliver(bytes.fromhex(step[1]) + b'\n')
                await c05_fake.settle(40)
            elif step[0] == 'answer' and asks:
                task, what, ids, deadline = asks[step[1] % len(asks)]
                resp = late_response(pname, what, step[2], ids) + b'\n'
                if step[2] == 'duplicate':
                    resp += resp
                if step[3] is None:
                    deliver(resp)
                    await c05_fake.settle(40)
                else:
                    loop.call_at(deadline + step[3], deliver, resp)
        if asks:
            await asyncio.sleep(timeout + 5)
            await c05_fake.settle(40)
            outcomes = []
            for task, _what, _ids, _d in asks:
                outcomes.append('pending' if not task.done() else 'cancelled' if task.cancelled()
                                else type(task.exception()).__name__ if task.exception() is not None
                                else 'result')
                if not task.done():
                    task.cancel()
            obs['ask'] = ','.join(outcomes)
        for m in msgs:
            before = len(t.writes)
            deliver(m + b'\n')
            await c05_fake.settle(40)
            # let throttling sleeps elapse (virtual time)
            await asyncio.sleep(5)
            await c05_fake.settle(10)
            per.append(len(t.writes) - before)
        before = len(t.writes)
        if not t.is_closing():
            p.data_received((PROBE_V1 if pname == 'v1' else PROBE) + b'\n')
            await c05_fake.settle(40)
            await asyncio.sleep(40)
            await c05_fake.settle(10)
        answered = answered_probe(t.writes[before:])
        texc = None
        tdone = False
        for task in mtasks:
            if task.done():
                tdone = True
                if not task.cancelled() and task.exception() is not None:
                    texc = task.exception()
        obs.update(per=per, answered=answered, closing=t.is_closing(), task_exc=texc, task_done=tdone)
        if not t.is_closing():
            t.close()
            await c05_fake.settle(20)
    try:
        with logging_at(verbose, names=('S', 'asyncio')):
            vloop.run(go())
    except vloop.Deadlock:
        obs.setdefault('deadlock', True)
    except vloop.Livelock:
        obs.setdefault('livelock', True)
    return obs


def late_response(pname, what, kind, ids):
    """the peer's response to the request(s) with `ids`, in the connection's protocol"""
    v1 = pname == 'v1'

    def one(i, k):
        if kind == 'error':
            return ({"result": None, "error": {"code": 5, "message": "late"}, "id": i} if v1
                    else {"jsonrpc": "2.0", "error": {"code": 5, "message": "late"}, "id": i})
        if kind == 'malformed':
            # id recoverable, neither result nor error
            return {"id": i} if v1 else {"jsonrpc": "2.0", "id": i}
        return ({"result": k, "error": None, "id": i} if v1
                else {"jsonrpc": "2.0", "result": k, "id": i})
    if what == 'single' or v1:
        return json.dumps(one(ids[0] if ids else 0, 'done')).encode()
    return json.dumps([one(i, k) for k, i in enumerate(reversed(ids))]).encode()


def session_phase(obs):
    if 'answered' not in obs:
        return 'hang'
    if obs['closing']:
        return 'closed'
    return 'receiving' if obs['answered'] else 'dead'


# ------------------------------------------------------------------------------ long messages
# same names as `MsgKind`
KINDS = ('parseUtf8', 'parseJson', 'unsolicited', 'badParams', 'missingJsonrpc', 'allInvalidBatch',
         'okRequest', 'okNotification')
TEMPLATES = {
    'parseUtf8': (b'{"jsonrpc":"2.0","method":"\xff', b'","id":3}'),
    'parseJson': (b'{"jsonrpc":"2.0","method":"', b'","id":3'),
    'unsolicited': (b'{"jsonrpc":"2.0","result":"', b'","id":77}'),
    'badParams': (b'{"jsonrpc":"2.0","method":"', b'","params":5,"id":3}'),
    'missingJsonrpc': (b'{"method":"', b'","id":3}'),
    'allInvalidBatch': (b'[{"method":"', b'","id":3},5]'),
    'okRequest': (b'{"jsonrpc":"2.0","method":"', b'","params":[],"id":3}'),
    'okNotification': (b'{"jsonrpc":"2.0","method":"', b'","params":[]}'),
}
WIDE = {1: 'a', 2: 'é', 3: '€', 4: '\U0001f600'}


def long_message(kind, width, start, tail=60):
    """a message of kind `kind` (valid UTF-8 and, except for the two parse kinds, valid JSON)
    in which a character of `width` bytes begins at byte offset `start`, followed by `tail`
    more characters of the same width"""
    head, foot = TEMPLATES[kind]
    fill = start - len(head)
    if fill < 0:
        raise ValueError('start before the end of the fixed prefix')
    ch = WIDE[width].encode()
    return head + b'a' * fill + ch * (1 + tail) + foot


def straddling(kind, width, cut):
    """the character of `width` bytes begins one byte before `cut` (so `message[:cut]` ends in
    the middle of it); width 1: plain ASCII of the same length"""
    return long_message(kind, width, cut - 1)


DENSE_BYTES = 1100


def dense_start(kind, align):
    return len(TEMPLATES[kind][0]) + align


def dense_message(kind, width, align):
    """a run of `width`-byte characters from just behind the fixed prefix (+ `align` ASCII
    bytes) to beyond byte 1100: over the alignments 0..width-1, EVERY byte offset in that range
    falls inside a character in at least width-1 of the messages - whatever prefix length some
    code might cut at"""
    return long_message(kind, width, dense_start(kind, align), tail=DENSE_BYTES // width)


# messages whose multi-byte run begins at offset 2 (a long member name), for cuts below the
# fixed prefixes above
EARLY = {
    'unsolicited': (b'{"', b'":1,"jsonrpc":"2.0","result":1,"id":77}'),
    'badParams': (b'{"', b'":1,"jsonrpc":"2.0","method":"m","params":5,"id":3}'),
    'missingJsonrpc': (b'{"', b'":1,"method":"m","id":3}'),
    'allInvalidBatch': (b'[{"', b'":1,"method":"m","id":3},5]'),
    'parseJson': (b'{"', b'":1,"jsonrpc":"2.0","method":"m","id":3'),
}


def early_message(kind, width, align):
    head, foot = EARLY[kind]
    return head + b'a' * align + WIDE[width].encode() * (140 // width) + foot


FACT_CUTS = ((100, (1, 2, 3, 4)), (64, (3,)), (128, (3,)), (256, (3,)), (1000, (3,)), (1024, (3,)))


def loop_rows_spec():
    """(kind, width, start, run, message) of the session grid of the facts"""
    for kind in KINDS:
        for cut, widths in FACT_CUTS:
            for width in widths:
                yield kind, width, cut - 1, 61, straddling(kind, width, cut)
        for width in (2, 3, 4):
            for align in range(width):
                yield (kind, width, dense_start(kind, align), DENSE_BYTES // width + 1,
                       dense_message(kind, width, align))


def loop_table(repo_mods):
    """rows (verbose, kind, width, start, run, ended): a real server session (2.0, nothing
    outstanding) is fed one long message - a run of `run` characters of `width` bytes beginning
    at byte `start` - then a probe request"""
    rows = []
    for verbose in (False, True):
        for kind, width, start, run, msg in loop_rows_spec():
            try:
                obs = run_session(repo_mods, 'v2', [], [msg], verbose=verbose)
                ended = {'receiving': 'served', 'closed': 'closed'}.get(session_phase(obs), 'wedged')
            except Exception:       # noqa: the session could not even be run on this tree
                ended = 'wedged'
            rows.append((verbose, kind, width, start, run, ended))
    return rows
