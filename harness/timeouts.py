"""Shared machinery for C11 / C12: random and enumerated timeout programs, compiled into real
coroutines over aiorpcx.curio on the virtual-time loop, and serialised for the Lean driver.

Program nodes (times are even integers; external cancels come at odd instants, so a cancel
never coincides with a deadline or a wake-up):
    ('skip',) ('sleep', n>=2) ('raise', 'O'|'T') ('seq', a, b)
    ('block', ignore, relative, t, body, form)     form: 0 context manager, 1 coroutine form
    ('try', [kinds], body, handler)                kinds subset of T (TaskTimeout), O, U
"""
import asyncio
import itertools

from harness import vloop
from tools.facts.common import fresh_import

FOLLOW_ON = 1000
GAP = 2


def ser(p, plain=False):
    t = p[0]
    if t == 'skip':
        return 'skip'
    if t == 'sleep':
        return f'sleep {p[1]}'
    if t == 'raise':
        return f'raise {p[1]}'
    if t == 'seq':
        return f'seq {ser(p[1], plain)} {ser(p[2], plain)}'
    if t == 'block':
        blk = f'block {int(p[1])} {int(p[2])} {p[3]} {ser(p[4], plain)}'
        # forms 2/3: the timeout object is created GAP time units before it is entered - for the
        # model that is simply a sleep before the block (the deadline counts from entry)
        return f'seq sleep {GAP} {blk}' if p[5] >= 2 and not plain else blk
    if t == 'try':
        return f'try {len(p[1])} {" ".join(p[1])} {ser(p[2], plain)} {ser(p[3], plain)}'
    raise ValueError(p)



def ser_plain(p):
    return ser(p, plain=True)


def show(p):
    """human-readable"""
    t = p[0]
    if t in ('skip',):
        return 'pass'
    if t == 'sleep':
        return f'sleep({p[1]})'
    if t == 'raise':
        return f'raise {"TaskTimeout" if p[1] == "T" else "KeyError"}'
    if t == 'seq':
        return f'{show(p[1])}; {show(p[2])}'
    if t == 'block':
        name = ('ignore' if p[1] else 'timeout') + ('_after' if p[2] else '_at')
        form = {0: '', 1: ' [coroutine form]', 2: ' [created 2 earlier]',
                3: ' [coroutine form, created 2 earlier]'}[p[5]]
        return f'{name}({p[3]}){form}{{ {show(p[4])} }}'
    if t == 'try':
        return f'try{{ {show(p[2])} }} except {"|".join(p[1])} {{ {show(p[3])} }}'


def has_try(p):
    t = p[0]
    if t == 'try':
        return True
    if t == 'seq':
        return has_try(p[1]) or has_try(p[2])
    if t == 'block':
        return has_try(p[4])
    return False


def depth(p):
    t = p[0]
    if t == 'seq':
        return max(depth(p[1]), depth(p[2]))
    if t == 'block':
        return 1 + depth(p[4])
    if t == 'try':
        return max(depth(p[2]), depth(p[3]))
    return 0


def n_blocks(p):
    t = p[0]
    if t == 'seq':
        return n_blocks(p[1]) + n_blocks(p[2])
    if t == 'block':
        return 1 + n_blocks(p[4])
    if t == 'try':
        return n_blocks(p[2]) + n_blocks(p[3])
    return 0


def gen(r, d, tie_prone=False):
    k = r.random()
    if d <= 0 or k < 0.25:
        return ('sleep', r.choice([2, 4, 6, 8, 20]) if tie_prone else r.choice([4, 8, 12, 16, 40]))
    if k < 0.45:
        return ('seq', gen(r, d - 1, tie_prone), gen(r, d - 1, tie_prone))
    if k < 0.80:
        rel = r.random() < 0.6
        if tie_prone:
            t = r.choice([2, 4, 6, 8, 0, -2]) if rel else r.choice([2, 4, 6, 8, 10, 12, 0])
        else:
            t = r.choice([2, 6, 10, 14, 18, 30, 0, -2]) if rel else \
                r.choice([2, 6, 10, 14, 18, 30, 50, 0, -6])
        return ('block', r.random() < 0.4, rel, t, gen(r, d - 1, tie_prone),
                r.choice([0, 0, 0, 0, 1, 1, 2, 3]))
    if k < 0.93:
        cs = r.sample(['T', 'O', 'U'], r.randint(1, 2))
        return ('try', cs, gen(r, d - 1, tie_prone),
                gen(r, d - 1, tie_prone) if r.random() < 0.6 else ('skip',))
    return ('raise', r.choice(['O', 'T']))


def enum_shapes():
    """Exhaustive family: up to 3 blocks in every nesting/sibling shape x ignore x form of the
    outermost x deadline orders (inner<outer, outer<inner, equal, zero, past) x where
    TaskTimeout is caught (nowhere / around innermost / around middle) x body length
    before/after the deadlines."""
    D = [4, 8, 8, 0, -2]       # deadline pool (relative)
    out = []
    bodies = [('sleep', 2), ('sleep', 6), ('sleep', 20)]
    for b in bodies:
        for d1 in (4, 8, 0, -2):
            for ig1 in (False, True):
                for f1 in (0, 1):
                    one = ('block', ig1, True, d1, b, f1)
                    out.append(one)
                    out.append(('seq', one, ('sleep', 4)))
    for b in bodies:
        for d1, d2 in itertools.product((4, 8, 12, 0), (4, 8, 12, 0, -2)):
            for ig1, ig2 in itertools.product((False, True), repeat=2):
                for catch in (0, 1, 2):
                    for rel2 in (True, False):
                        inner = ('block', ig2, rel2, d2, b, 0)
                        if catch == 1:
                            inner = ('try', ['T'], inner, ('skip',))
                        elif catch == 2:
                            inner = ('try', ['T', 'U'], inner, ('sleep', 2))
                        body = ('seq', inner, ('sleep', 6))
                        out.append(('block', ig1, True, d1, body, 0))
    for b in (('sleep', 6), ('sleep', 30)):
        for d1, d2, d3 in itertools.product((4, 10, 16), repeat=3):
            for ig in itertools.product((False, True), repeat=3):
                for catch in (0, 1):
                    b3 = ('block', ig[2], True, d3, b, 0)
                    if catch:
                        b3 = ('try', ['T'], b3, ('skip',))
                    b2 = ('block', ig[1], True, d2, ('seq', b3, ('sleep', 4)), 0)
                    out.append(('block', ig[0], True, d1, ('seq', b2, ('sleep', 4)), 0))
                    # siblings
                    sib = ('seq', ('try', ['T'], ('block', ig[1], True, d2, b, 0), ('skip',)),
                           ('block', ig[2], True, d3, b, 0))
                    out.append(('block', ig[0], True, d1, sib, 0))
    return out


# ---------------------------------------------------------------- implementation side
class Impl:
    def __init__(self, repo):
        self.curio = fresh_import(repo, 'aiorpcx.curio')
        c = self.curio
        self.CancelledError = c.CancelledError

    def cls(self, e):
        c = self.curio
        if isinstance(e, c.TimeoutCancellationError):
            return 'X'
        if isinstance(e, c.CancelledError):
            return 'C'
        if isinstance(e, c.TaskTimeout):
            return 'T'
        if isinstance(e, c.UncaughtTimeoutError):
            return 'U'
        return 'O'

    async def ex(self, p, evs):
        c = self.curio
        t = p[0]
        loop = asyncio.get_event_loop()
        if t == 'skip':
            return
        if t == 'sleep':
            await c.sleep(p[1])
            return
        if t == 'raise':
            raise (c.TaskTimeout(0) if p[1] == 'T' else KeyError())
        if t == 'seq':
            await self.ex(p[1], evs)
            await self.ex(p[2], evs)
            return
        if t == 'try':
            try:
                await self.ex(p[2], evs)
            except BaseException as e:
                if self.cls(e) in p[1]:
                    await self.ex(p[3], evs)
                else:
                    raise
            return
        if t == 'block':
            ig, rel, tt, body, form = p[1:]
            if form in (0, 2):
                fn = (c.ignore_after if ig else c.timeout_after) if rel else \
                    (c.ignore_at if ig else c.timeout_at)
                cm = fn(tt)
                if form == 2:
                    await c.sleep(GAP)      # created now, entered later
                now = int(loop.time())
                d = now + tt if rel else tt
                try:
                    async with cm:
                        await self.ex(body, evs)
                except BaseException as e:
                    evs.append((d, self.cls(e), int(cm.expired), int(loop.time()), now))
                    raise
                else:
                    evs.append((d, 'ok', int(cm.expired), int(loop.time()), now))
            else:
                # coroutine form: expiry is visible only through timeout_result (ignore forms)
                if ig:
                    fn = c.ignore_after if rel else c.ignore_at
                    aw = fn(tt, self.ex, body, evs, timeout_result='TR')
                else:
                    fn = c.timeout_after if rel else c.timeout_at
                    aw = fn(tt, self.ex, body, evs)
                if form == 3:
                    try:
                        await c.sleep(GAP)      # the awaitable exists, it is awaited later
                    except BaseException:
                        aw.close()
                        raise
                now = int(loop.time())
                d = now + tt if rel else tt
                try:
                    if ig:
                        res = await aw
                        exp = 1 if res == 'TR' else 0
                    else:
                        await aw
                        exp = 0
                except BaseException as e:
                    evs.append((d, self.cls(e), '?', int(loop.time()), now))
                    raise
                else:
                    evs.append((d, 'ok', exp, int(loop.time()), now))

    def run(self, p, cancel=None, follow_on=True):
        """Run `p` as a task from time 0; optionally call task.cancel() at `cancel`.
        Returns a dict of observations."""
        obs = {}

        async def top():
            loop = asyncio.get_event_loop()
            evs = []
            task = asyncio.ensure_future(self.ex(p, evs))
            delivered = []
            if cancel is not None:
                def do_cancel():
                    delivered.append(not task.done())
                    task.cancel()
                loop.call_at(cancel, do_cancel)
            try:
                await task
                r = 'ok'
            except BaseException as e:
                r = self.cls(e)
            obs['res'] = r
            obs['t'] = int(loop.time())
            obs['dl'] = len(getattr(task, '_deadlines', []))
            obs['armed'] = int(any(not h.cancelled() and 'timeout_task' in repr(h)
                                   for h in loop._scheduled))
            obs['deliv'] = int(bool(delivered and delivered[0]))
            obs['task_cancelled'] = task.cancelled()
            obs['evs'] = evs
            # follow-on code: anything still armed for this task's deadlines would show up now
            stray = None
            if follow_on:
                async def follow():
                    await asyncio.sleep(FOLLOW_ON)
                ft = asyncio.ensure_future(follow())
                # deadlines belong to the *task*; re-use cannot happen, but a timer left behind
                # would call task.cancel() on a finished task (harmless) - what we look for is a
                # live handle, observed above, and any exception here
                try:
                    await ft
                except BaseException as e:      # noqa
                    stray = type(e).__name__
            obs['stray'] = stray
            obs['armed_after'] = int(any(not h.cancelled() and 'timeout_task' in repr(h)
                                         for h in loop._scheduled))
        try:
            vloop.run(top())
        except vloop.Deadlock:
            obs['res'] = 'Deadlock'
        except vloop.Livelock:
            obs['res'] = 'Livelock'
        return obs


def fmt_obs(o, with_expired_unknown=None):
    if o.get('res') in ('Deadlock', 'Livelock'):
        return o['res']
    evs = ' '.join(f'{d}:{r}:{x}:{t}' for (d, r, x, t, _n) in o['evs'])
    return f"{o['res']} t={o['t']} dl={o['dl']} armed={o['armed']} deliv={o['deliv']} | {evs}"


def align_model(model_line, o):
    """the coroutine timeout form cannot observe `expired`: blank the model's flag there"""
    if ' | ' not in model_line and not model_line.endswith(' |'):
        return model_line
    head, _, tail = model_line.partition(' |')
    mev = tail.split()
    if len(mev) != len(o.get('evs', [])):
        return model_line
    out = []
    for m, (d, r, x, t, _n) in zip(mev, o['evs']):
        parts = m.split(':')
        if x == '?' and len(parts) == 4:
            parts[2] = '?'
        out.append(':'.join(parts))
    return head + ' | ' + ' '.join(out)


def model_line(p, cancel, fixed=1):
    return f'{fixed} {"-" if cancel is None else cancel} {ser(p)}'
