"""Shared machinery for C11 / C12: random and enumerated timeout programs, compiled into real
coroutines over aiorpcx.curio on the virtual-time loop, and serialised for the Lean driver.

Program nodes (times are even integers; external cancels come at odd instants, so a cancel
never coincides with a deadline or a wake-up):
    ('skip',) ('sleep', n>=2) ('raise', 'O'|'T'|'C') ('seq', a, b)
    ('block', ignore, relative, t, body, form)     form: 0 context manager, 1 coroutine form,
                                                   2/3 the same, created GAP earlier
    ('try', [kinds], body, handler)                kinds subset of T (TaskTimeout), O, U,
                                                   C (plain CancelledError), X (TimeoutCancellationError)
    ('group', ((dur, react), ...), body[, 'any'])  TaskGroup(wait=all|any) whose members sleep
                                                   `dur` and need `react` to die when cancelled

Everything the ORACLES (harness/c11.py, c12.py) judge is a public observable: exception classes
leaving a block / the task, the public `.expired` flag, values returned, virtual times, and the
timers left on the harness's own loop (recorded by wrapping `loop.call_at` of the loop object the
harness created - harness state, not library state).  The two private reads below (`_deadlines`
for the `dl=` field) serve the model comparison only and fail soft (`dl=?`).
"""
import asyncio
import itertools

from harness import vloop
from tools.facts.common import fresh_import

FOLLOW_ON = 100000
GAP = 2
TR = 'timeout-result'


def ser(p, plain=False):
    t = p[0]
    if t == 'skip':
        return 'skip'
    if t == 'sleep':
        return f'sleep {p[1]}'
    if t == 'raise':
        return f'raise {p[1]}'
    if t == 'seq':
        return f'seq {ser(p[1], plain)} {ser(p[2], plain)}'
    if t == 'block':
        blk = f'block {int(p[1])} {int(p[2])} {p[3]} {ser(p[4], plain)}'
        # forms 2/3: the timeout object is created GAP time units before it is entered - for the
        # model that is simply a sleep before the block (the deadline counts from entry)
        return f'seq sleep {GAP} {blk}' if p[5] in (2, 3) and not plain else blk
    if t == 'try':
        return f'try {len(p[1])} {" ".join(p[1])} {ser(p[2], plain)} {ser(p[3], plain)}'
    if t == 'group':
        ms = ' '.join(f'{d} {r}' for d, r in p[1])
        kw = 'groupany' if len(p) > 3 and p[3] == 'any' else 'group'
        return f'{kw} {len(p[1])} {ms} {ser(p[2], plain)}'
    if t == 'groupx':
        return 'groupx'        # outside the model's language: judged by the oracle only
    raise ValueError(p)


def form4_blocks(p):
    """the blocks of `p` (every occurrence) whose context manager is made by another task"""
    t = p[0]
    if t == 'seq':
        yield from form4_blocks(p[1])
        yield from form4_blocks(p[2])
    elif t == 'try':
        yield from form4_blocks(p[2])
        yield from form4_blocks(p[3])
    elif t == 'group':
        yield from form4_blocks(p[2])
    elif t == 'block':
        if p[5] == 4:
            yield p
        yield from form4_blocks(p[4])


def ser_plain(p):
    return ser(p, plain=True)


_RAISE_NAMES = {'T': 'TaskTimeout', 'O': 'KeyError', 'C': 'CancelledError',
                'X': 'TimeoutCancellationError', 'U': 'UncaughtTimeoutError'}


def show(p):
    """human-readable"""
    t = p[0]
    if t in ('skip',):
        return 'pass'
    if t == 'sleep':
        return f'sleep({p[1]})'
    if t == 'raise':
        return f'raise {_RAISE_NAMES.get(p[1], p[1])}'
    if t == 'seq':
        return f'{show(p[1])}; {show(p[2])}'
    if t == 'block':
        name = ('ignore' if p[1] else 'timeout') + ('_after' if p[2] else '_at')
        form = {0: '', 1: ' [coroutine form]', 2: ' [created 2 earlier]',
                3: ' [coroutine form, created 2 earlier]',
                4: ' [context manager made by another task]'}[p[5]]
        return f'{name}({p[3]}){form}{{ {show(p[4])} }}'
    if t == 'try':
        return f'try{{ {show(p[2])} }} except {"|".join(p[1])} {{ {show(p[3])} }}'
    if t == 'group':
        ms = ', '.join(f'member(sleep {d}, dies {r} after cancel)' for d, r in p[1])
        pol = '(wait=any)' if len(p) > 3 and p[3] == 'any' else ''
        return f'TaskGroup{pol}[{ms}]{{ {show(p[2])} }}'
    if t == 'groupx':
        ms = ', '.join(
            ('daemon ' if m[2] else '') + 'member(' + ('handled timeout; ' if m[3] else '') +
            (show(m[4]) if m[4] is not None else f'sleep {m[0]}') + f', dies {m[1]} after cancel)'
            for m in p[3])
        tail = '; await g.join()' if p[2] == 'join' else ''
        return f'TaskGroup(wait={p[1]})[{ms}]{{ {show(p[4])}{tail} }}'


def subprogs(p):
    t = p[0]
    if t == 'seq':
        return [p[1], p[2]]
    if t == 'block':
        return [p[4]]
    if t == 'try':
        return [p[2], p[3]]
    if t == 'group':
        return [p[2]]
    if t == 'groupx':
        return [p[4]] + [m[4] for m in p[3] if m[4] is not None]
    return []


def any_node(p, pred):
    return pred(p) or any(any_node(q, pred) for q in subprogs(p))


def has_try(p):
    return any_node(p, lambda q: q[0] == 'try')


def has_group(p):
    return any_node(p, lambda q: q[0] in ('group', 'groupx'))


def total_react(p):
    """sum of the reaction times of all group members anywhere in `p`"""
    own = 0
    if p[0] == 'group':
        own = sum(m[1] for m in p[1])
    elif p[0] == 'groupx':
        own = sum(m[1] for m in p[3])
    return own + sum(total_react(q) for q in subprogs(p))


def to_json(p):
    return [to_json(x) if isinstance(x, (tuple, list)) else x for x in p]


def from_json(p):
    return tuple(from_json(x) if isinstance(x, list) else x for x in p)


def raises(p, kinds):
    return any_node(p, lambda q: q[0] == 'raise' and q[1] in kinds)


def nocatch(p):
    """the program neither catches nor raises the cancellation family itself (the side condition
    `NoCatch` of the whole-program theorems)"""
    return not any_node(p, lambda q: (q[0] == 'try' and ('C' in q[1] or 'X' in q[1])) or
                        (q[0] == 'raise' and q[1] in ('C', 'X')))


def depth(p):
    t = p[0]
    if t == 'block':
        return 1 + depth(p[4])
    return max([depth(q) for q in subprogs(p)], default=0)


def n_blocks(p):
    return (1 if p[0] == 'block' else 0) + sum(n_blocks(q) for q in subprogs(p))


def gen(r, d, tie_prone=False, cx=False):
    """cx: also generate handlers for CancelledError / TimeoutCancellationError and a hand-raised
    CancelledError (programs outside `NoCatch`: the re-arming semantics after a swallowed
    cancellation is compared with asyncio)"""
    k = r.random()
    if d <= 0 or k < 0.25:
        return ('sleep', r.choice([2, 4, 6, 8, 20]) if tie_prone else r.choice([4, 8, 12, 16, 40]))
    if k < 0.45:
        return ('seq', gen(r, d - 1, tie_prone, cx), gen(r, d - 1, tie_prone, cx))
    if k < 0.80:
        rel = r.random() < 0.6
        if tie_prone:
            t = r.choice([2, 4, 6, 8, 0, -2]) if rel else r.choice([2, 4, 6, 8, 10, 12, 0])
        else:
            t = r.choice([2, 6, 10, 14, 18, 30, 0, -2]) if rel else \
                r.choice([2, 6, 10, 14, 18, 30, 50, 0, -6])
        return ('block', r.random() < 0.4, rel, t, gen(r, d - 1, tie_prone, cx),
                r.choice([0, 0, 0, 0, 1, 1, 2, 3, 4]))
    if k < 0.93:
        pool = ['T', 'O', 'U', 'C', 'X', 'C'] if cx else ['T', 'O', 'U']
        cs = sorted(set(r.sample(pool, r.randint(1, 2))))
        return ('try', cs, gen(r, d - 1, tie_prone, cx),
                gen(r, d - 1, tie_prone, cx) if r.random() < 0.6 else ('skip',))
    return ('raise', r.choice(['O', 'T', 'C'] if cx else ['O', 'T']))


GU = 512        # time unit of the group programs


def suspends_first(p):
    """True: `p` suspends before it can raise; False: it raises first; None: it does neither"""
    t = p[0]
    if t == 'sleep':
        return True
    if t == 'raise':
        return False
    if t == 'seq':
        a = suspends_first(p[1])
        return a if a is not None else suspends_first(p[2])
    if t == 'try':
        return suspends_first(p[2])
    if t == 'block':
        return suspends_first(p[4])
    if t == 'group':
        a = suspends_first(p[2])
        return a if a is not None else (True if p[1] else None)
    return None


def gen_group(r, d, top=True, _ctr=None):
    """timeout programs with task groups in them.  Grid: everything the program itself does is a
    multiple of GU; member j (at most 4 per program) sleeps k*GU + 2**(2j+1) and dies
    k'*GU + 2**(2j+2) after being cancelled (or at once) - so no member ever finishes, by itself
    or cancelled, at the instant of a deadline or of another member; external cancels are odd."""
    if _ctr is None:
        _ctr = [0]
    k = r.random()
    if d <= 0 or k < 0.2:
        return ('sleep', GU * r.choice([1, 2, 3, 4, 10]))
    if k < 0.35:
        return ('seq', gen_group(r, d - 1, False, _ctr), gen_group(r, d - 1, False, _ctr))
    if k < 0.6 or (k < 0.95 and _ctr[0] >= 4):
        rel = r.random() < 0.7
        t = GU * (r.choice([1, 2, 3, 4, 7, 0, -1]) if rel else r.choice([1, 2, 3, 5, 8, 12, 0]))
        return ('block', r.random() < 0.4, rel, t, gen_group(r, d - 1, False, _ctr),
                r.choice([0, 0, 0, 1]))
    if k < 0.7:
        cs = sorted(set(r.sample(['T', 'O', 'U'], r.randint(1, 2))))
        return ('try', cs, gen_group(r, d - 1, False, _ctr),
                gen_group(r, d - 1, False, _ctr) if r.random() < 0.5 else ('skip',))
    if k < 0.95:
        ms = []
        for _ in range(r.randint(1, min(3, 4 - _ctr[0]))):
            j = _ctr[0]
            _ctr[0] += 1
            react = r.choice([0, 0, 1, 2])
            ms.append((GU * r.choice([0, 1, 2, 4, 10]) + 2 ** (2 * j + 1),
                       GU * react + 2 ** (2 * j + 2) if react else 0))
        body = gen_group(r, d - 1, False, _ctr) if r.random() < 0.8 else ('skip',)
        if suspends_first(body) is False:
            # a member cancelled before its very first step dies at once whatever its reaction
            # time (it never entered its own try block): let the members get going first
            body = ('seq', ('sleep', GU), body)
        if r.random() < 0.35:
            return ('group', tuple(ms), body, 'any')
        return ('group', tuple(ms), body)
    return ('raise', r.choice(['O', 'T']))


def enum_shapes():
    """Exhaustive family: up to 3 blocks in every nesting/sibling shape x ignore x form of the
    outermost x deadline orders (inner<outer, outer<inner, equal, zero, past) x where
    TaskTimeout is caught (nowhere / around innermost / around middle) x body length
    before/after the deadlines."""
    out = []
    bodies = [('sleep', 2), ('sleep', 6), ('sleep', 20)]
    for b in bodies + [('skip',)]:
        for d1 in (4, 8, 0, -2):
            for ig1 in (False, True):
                for f1 in (0, 1, 4):
                    one = ('block', ig1, True, d1, b, f1)
                    out.append(one)
                    out.append(('seq', one, ('sleep', 4)))
    for b in bodies:
        for d1, d2 in itertools.product((4, 8, 12, 0), (4, 8, 12, 0, -2)):
            for ig1, ig2 in itertools.product((False, True), repeat=2):
                for catch in (0, 1, 2):
                    for rel2 in (True, False):
                        inner = ('block', ig2, rel2, d2, b, 0)
                        if catch == 1:
                            inner = ('try', ['T'], inner, ('skip',))
                        elif catch == 2:
                            inner = ('try', ['T', 'U'], inner, ('sleep', 2))
                        body = ('seq', inner, ('sleep', 6))
                        out.append(('block', ig1, True, d1, body, 0))
                        if catch == 0 and rel2:
                            # both context managers made by another task than the one entering
                            out.append(('block', ig1, True, d1,
                                        ('seq', ('block', ig2, rel2, d2, b, 4), ('sleep', 6)), 4))
    for b in (('sleep', 6), ('sleep', 30)):
        for d1, d2, d3 in itertools.product((4, 10, 16), repeat=3):
            for ig in itertools.product((False, True), repeat=3):
                for catch in (0, 1):
                    b3 = ('block', ig[2], True, d3, b, 0)
                    if catch:
                        b3 = ('try', ['T'], b3, ('skip',))
                    b2 = ('block', ig[1], True, d2, ('seq', b3, ('sleep', 4)), 0)
                    out.append(('block', ig[0], True, d1, ('seq', b2, ('sleep', 4)), 0))
                    # siblings
                    sib = ('seq', ('try', ['T'], ('block', ig[1], True, d2, b, 0), ('skip',)),
                           ('block', ig[2], True, d3, b, 0))
                    out.append(('block', ig[0], True, d1, sib, 0))
    return out


# ---------------------------------------------------------------- implementation side
class Timers:
    """Every timer put on the harness's loop: who created it (which task was running) and what
    became of it.  Installed by wrapping `call_at` of the loop object the harness owns."""

    def __init__(self, loop):
        self.loop = loop
        self.recs = []
        orig = loop.call_at
        recs = self.recs

        def call_at(when, callback, *args, **kw):
            rec = {'when': when, 'fired': False}
            try:
                rec['task'] = asyncio.current_task(loop)
            except RuntimeError:
                rec['task'] = None

            def fire(*a):
                rec['fired'] = True
                return callback(*a)
            h = orig(when, fire, *args, **kw)
            rec['h'] = h
            recs.append(rec)
            return h
        loop.call_at = call_at

    def live(self, task, upto=None):
        """timers created while `task` was running that are neither cancelled nor spent"""
        recs = self.recs if upto is None else self.recs[:upto]
        return [r for r in recs if r['task'] is task and not r['fired'] and not r['h'].cancelled()]

    def mark(self):
        return len(self.recs)


class Impl:
    def __init__(self, repo):
        self.curio = fresh_import(repo, 'aiorpcx.curio')
        c = self.curio
        self.CancelledError = c.CancelledError

    def cls(self, e):
        c = self.curio
        if isinstance(e, c.TimeoutCancellationError):
            return 'X'
        if isinstance(e, c.CancelledError):
            return 'C'
        if isinstance(e, c.TaskTimeout):
            return 'T'
        if isinstance(e, c.UncaughtTimeoutError):
            return 'U'
        return 'O'

    def make_exc(self, k):
        c = self.curio
        return {'T': lambda: c.TaskTimeout(0), 'C': c.CancelledError,
                'X': c.TimeoutCancellationError, 'U': c.UncaughtTimeoutError}.get(k, KeyError)()

    async def ex(self, p, evs, stack=()):
        """run program `p`; returns its value (every construct has one, so that a return value
        lost or replaced on the way through the library is visible)"""
        c = self.curio
        t = p[0]
        loop = asyncio.get_event_loop()
        if t == 'skip':
            return 'v:skip'
        if t == 'sleep':
            await c.sleep(p[1])
            return f'v:sleep{p[1]}'
        if t == 'raise':
            raise self.make_exc(p[1])
        if t == 'seq':
            await self.ex(p[1], evs, stack)
            return await self.ex(p[2], evs, stack)
        if t == 'try':
            try:
                return await self.ex(p[2], evs, stack)
            except BaseException as e:
                if self.cls(e) in p[1]:
                    return await self.ex(p[3], evs, stack)
                raise
        if t in ('group', 'groupx'):
            return await self.ex_group(p, evs, stack)
        if t == 'block':
            ig, rel, tt, body, form = p[1:]
            rec = {'ig': bool(ig), 'form': form, 'node': p, 'parents': stack, 'val': 'ok',
                   'kind': 'block'}
            inner = stack + (rec,)
            if form in (0, 2, 4):
                fn = (c.ignore_after if ig else c.timeout_after) if rel else \
                    (c.ignore_at if ig else c.timeout_at)
                if form == 4:
                    # the context manager was made by ANOTHER task before the program started
                    # (`run`): the block belongs to the task that enters it, not to its maker
                    made = getattr(self, '_premade', {}).get(id(p))
                    cm = made.pop() if made else fn(tt)
                else:
                    cm = fn(tt)
                if form == 2:
                    await c.sleep(GAP)      # created now, entered later
                now = int(loop.time())
                rec['entered'] = now
                rec['d'] = now + tt if rel else tt
                done = []
                try:
                    async with cm:
                        val = await self.ex(body, evs, inner)
                        done.append(val)
                except BaseException as e:
                    rec.update(r=self.cls(e), x=int(bool(cm.expired)), t=int(loop.time()))
                    evs.append(rec)
                    raise
                rec.update(r='ok', x=int(bool(cm.expired)), t=int(loop.time()))
                evs.append(rec)
                return done[0] if done else TR
            # coroutine form: expiry is visible only through timeout_result (ignore forms)
            cell = []

            async def body_fn(cell):
                v = await self.ex(body, evs, inner)
                cell.append(v)
                return v
            if ig:
                fn = c.ignore_after if rel else c.ignore_at
                aw = fn(tt, body_fn, cell, timeout_result=TR)
            else:
                fn = c.timeout_after if rel else c.timeout_at
                aw = fn(tt, body_fn, cell)
            if form == 3:
                try:
                    await c.sleep(GAP)      # the awaitable exists, it is awaited later
                except BaseException:
                    aw.close()
                    raise
            now = int(loop.time())
            rec['entered'] = now
            rec['d'] = now + tt if rel else tt
            try:
                out = await aw
            except BaseException as e:
                rec.update(r=self.cls(e), x='?', t=int(loop.time()))
                evs.append(rec)
                raise
            if cell:
                # the body ran to its end: its value must come out, and nothing expired
                if out != cell[0]:
                    rec['val'] = 'body-value-changed'
                exp = 0
            else:
                # the body was cut short and the block ended quietly: that is an expiry; only the
                # ignore forms may do that, and they hand back the caller's timeout_result
                if out != TR:
                    rec['val'] = 'timeout-result-lost'
                exp = 1
            rec.update(r='ok', x=exp, t=int(loop.time()))
            evs.append(rec)
            return out

    async def ex_group(self, p, evs, stack):
        """('group', ((dur, react), ..), body): TaskGroup() as a context manager, members sleep
        `dur`; a cancelled member needs `react` more before it is dead.
        ('groupx', policy, mode, ((dur, react, daemon, had_timeout, sub), ..), body): any wait
        policy, daemons, members with an earlier handled timeout of their own, members that run
        a program (`sub`, e.g. another group: the member is the joiner of a subgroup); mode
        'join' calls g.join() explicitly after the body instead of leaving through __aexit__."""
        c = self.curio
        loop = asyncio.get_event_loop()
        if p[0] == 'group':
            policy, mode, body = (p[3] if len(p) > 3 else 'all'), 'cm', p[2]
            members = [(d, r, False, False, None) for d, r in p[1]]
        else:
            _, policy, mode, members, body = p
        wait = {'all': all, 'any': any, 'object': object}[policy]
        mrecs = [{'dur': m[0], 'react': m[1], 'daemon': bool(m[2]), 'cancel_seen': None,
                  'finished': None} for m in members]
        # groups are numbered in the order in which they are entered (the micro-step cancels of
        # `run` name a member as (group number, member number))
        gno = self._groups_entered
        self._groups_entered += 1
        rec = {'kind': 'group', 'node': p, 'parents': stack, 'entered': int(loop.time()),
               'members': mrecs, 'policy': policy, 'owner': asyncio.current_task(), 'gno': gno}
        tasks = []

        def hook_of(mno):
            h = self._hook
            return h[2] if h is not None and h[0] == gno and h[1] == mno else None

        async def member(mno, mrec, dur, react, had, sub):
            try:
                try:
                    if had:
                        # a timeout of the member's own that expired and was handled earlier
                        async with c.ignore_after(0):
                            await c.sleep(GU)
                    if sub is not None:
                        val = await self.ex(sub, evs, ())
                    else:
                        await c.sleep(dur)
                        val = dur
                    # the member has finished its work by itself; a micro-step cancel of the
                    # program's task is placed relative to this very completion
                    hook = hook_of(mno)
                    if hook == 'pre':
                        # ... before it: the member still has one step to go
                        self._fire()
                        await asyncio.sleep(0)
                    elif hook == 'last':
                        # ... in the member's last step
                        self._fire()
                    elif hook == 'soon':
                        # ... in the next loop iteration, ahead of the member's done callbacks
                        loop.call_soon(self._fire)
                    return val
                except c.CancelledError:
                    if react:
                        await c.sleep(react)
                    raise
            finally:
                mrec['finished'] = int(loop.time())

        def close(r):
            rec.update(r=r, t=int(loop.time()), left=sum(1 for m in tasks if not m.done()))
            rec['tasks'] = tasks
            evs.append(rec)

        async def spawn_all(g):
            for mno, (mrec, (dur, react, daemon, had, sub)) in enumerate(zip(mrecs, members)):
                t = await g.spawn(member(mno, mrec, dur, react, had, sub), daemon=bool(daemon))
                tasks.append(t)
                hook = hook_of(mno)
                if hook in ('done', 'done+1', 'done+2'):
                    # ... from a done callback of the member, registered after the group's own:
                    # in the same loop iteration as the group's bookkeeping of the completion,
                    # or one / two iterations later
                    def on_done(task, hops={'done': 0, 'done+1': 1, 'done+2': 2}[hook]):
                        if task.cancelled():
                            return
                        f = self._fire
                        for _ in range(hops):
                            f = (lambda g: (lambda: loop.call_soon(g)))(f)
                        f()
                    t.add_done_callback(on_done)
        try:
            if mode == 'join':
                g = c.TaskGroup(wait=wait)
                await spawn_all(g)
                try:
                    val = await self.ex(body, evs, stack)
                finally:
                    await g.join()
            else:
                async with c.TaskGroup(wait=wait) as g:
                    await spawn_all(g)
                    val = await self.ex(body, evs, stack)
        except BaseException as e:
            close(self.cls(e))
            raise
        close('ok')
        return val

    _hook = None
    _fire = None
    _groups_entered = 0

    def run(self, p, cancel=None, follow_on=True):
        """Run `p` as a task from time 0, followed IN THE SAME TASK by a long sleep (the
        follow-on code); optionally call task.cancel() (only while the program itself is still
        running) - `cancel` is a virtual instant, or ('m', g, m, hook): at loop-iteration
        granularity relative to the moment member m of the g-th group entered finishes by itself
        (hook: 'pre' | 'last' | 'soon' | 'done' | 'done+1' | 'done+2', see ex_group).
        Returns a dict of observations."""
        obs = {}
        nblocks = n_blocks(p)
        self._groups_entered = 0
        self._hook = cancel[1:] if isinstance(cancel, tuple) else None
        self._fire = lambda: None

        async def top():
            loop = asyncio.get_event_loop()
            timers = Timers(loop)

            cancel_log = {}
            seq = itertools.count(1)

            class LogTask(asyncio.Task):
                def cancel(self, msg=None):
                    # only requests made by code running in a task (a group cancelling its
                    # members): timer callbacks and the harness's own external cancel are not
                    if asyncio.current_task(loop) is not None:
                        cancel_log.setdefault(self, []).append((loop.time(), next(seq)))
                    return super().cancel(msg)
            loop.set_task_factory(lambda lp, coro, **kw: LogTask(coro, loop=lp, **kw))
            evs = []
            phase = {'done': False}
            delivered = []

            async def program():
                exc = None
                try:
                    obs['value'] = await self.ex(p, evs)
                    r = 'ok'
                except BaseException as e:
                    exc = e
                    r = self.cls(e)
                phase['done'] = True
                me = asyncio.current_task()
                obs['res'] = r
                obs['t'] = int(loop.time())
                mark = timers.mark()
                obs['armed'] = len(timers.live(me))
                # model comparison only, failing soft: the deadline stack kept on the task
                dl = getattr(me, '_deadlines', None)
                obs['dl'] = len(dl) if isinstance(dl, list) else (0 if nblocks == 0 else '?')
                obs['evs'] = evs
                obs['whens'] = sorted({int(x['when']) for x in timers.recs})
                obs['stray'] = None
                if follow_on:
                    # follow-on code of the same task: a timer left behind for one of the
                    # program's deadlines would cancel it
                    try:
                        await asyncio.sleep(FOLLOW_ON)
                    except BaseException as e2:
                        obs['stray'] = self.cls(e2)
                        obs['stray_t'] = int(loop.time())
                    obs['armed_after'] = len(timers.live(me, mark))
                else:
                    obs['armed_after'] = obs['armed']
                owner_rec = {}
                for e in evs:
                    if e['kind'] == 'group':
                        for mrec, m in zip(e['members'], e['tasks']):
                            owner_rec[m] = mrec
                for e in evs:
                    if e['kind'] == 'group':
                        # whose task ran this group: the program's own ('victim') or a member's
                        owner = e.pop('owner')
                        e['owner_member'] = owner_rec.get(owner)
                        e['owned_by_program'] = owner is me
                        for mrec, m in zip(e['members'], e.pop('tasks')):
                            # when somebody first called cancel() on the member (task class of
                            # the harness's own loop)
                            times = cancel_log.get(m, [])
                            mrec['cancel_seen'] = int(times[0][0]) if times else None
                            mrec['cancel_seq'] = times[0][1] if times else None
                            mrec['done'] = m.done()
                            mrec['cancelled'] = m.done() and m.cancelled()
                            m.cancel()
                if exc is not None:
                    raise exc

            # form 4: every such block's context manager is made now, by a task of its own that
            # is over before the program task starts (no virtual time passes)
            self._premade = {}
            todo = [b for b in form4_blocks(p)]
            if todo:
                async def maker():
                    for b in todo:
                        fn = (c.ignore_after if b[1] else c.timeout_after) if b[2] else \
                            (c.ignore_at if b[1] else c.timeout_at)
                        self._premade.setdefault(id(b), []).append(fn(b[3]))
                c = self.curio
                await asyncio.ensure_future(maker())
            task = asyncio.ensure_future(program())
            if cancel is not None:
                def do_cancel():
                    if delivered:
                        return
                    delivered.append(not phase['done'])
                    obs['cancel_t'] = int(loop.time())
                    if not phase['done']:
                        obs['cancel_seq'] = next(seq)
                        task.cancel()
                if isinstance(cancel, tuple):
                    self._fire = do_cancel
                else:
                    loop.call_at(cancel, do_cancel)
            try:
                await task
            except BaseException:
                pass
            obs['deliv'] = int(bool(delivered and delivered[0]))
            obs['task_cancelled'] = task.cancelled()
        try:
            vloop.run(top())
        except vloop.Deadlock:
            obs['res'] = 'Deadlock'
        except vloop.Livelock:
            obs['res'] = 'Livelock'
        return obs


def fmt_ev(e):
    if e['kind'] == 'group':
        return f"g:{e['r']}:{e['left']}:{e['t']}"
    return f"{e['d']}:{e['r']}:{e['x']}:{e['t']}"


def fmt_obs(o):
    if o.get('res') in ('Deadlock', 'Livelock'):
        return o['res']
    evs = ' '.join(fmt_ev(e) for e in o['evs'])
    return f"{o['res']} t={o['t']} dl={o['dl']} armed={min(o['armed'], 1)} deliv={o['deliv']} | {evs}"


def align_model(model_line, o):
    """what the implementation side cannot observe is blanked in the model's line: `expired` of
    the coroutine timeout form, and `dl=` when the task keeps its deadlines somewhere else"""
    if o.get('res') in ('Deadlock', 'Livelock'):
        return model_line
    if ' | ' not in model_line and not model_line.endswith(' |'):
        return model_line
    head, _, tail = model_line.partition(' |')
    if o.get('dl') == '?':
        head = ' '.join('dl=?' if w.startswith('dl=') else w for w in head.split(' '))
    mev = tail.split()
    if len(mev) != len(o.get('evs', [])):
        return head + ' |' + tail
    out = []
    for m, e in zip(mev, o['evs']):
        parts = m.split(':')
        if e['kind'] == 'block' and e['x'] == '?' and len(parts) == 4:
            parts[2] = '?'
        out.append(':'.join(parts))
    return head + ' | ' + ' '.join(out)


def model_line(p, cancel, fixed=1):
    return f'{fixed} {"-" if cancel is None else cancel} {ser(p)}'
