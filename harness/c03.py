"""C03: any handler outcome yields one well-formed reply; the session survives.

A real serving RPCSession on the fake transport and the virtual loop.  A case is a session
configuration plus a list of requests / notifications / batch members that all arrive at
virtual time 0, each with a scripted handler: it runs for `dur` virtual seconds and then behaves
as its outcome.  The completion order therefore follows from the durations, the concurrency
limit (requests beyond `conc` wait for a slot) and the cost throttle (every handler starts
`throttle` seconds late); whatever has not finished when the processing timeout (P = 30 s after
arrival) expires overruns - in its handler, in the throttle sleep or still queued for a slot.

Observed (public observables only): the decoded replies per id on the wire, session.errors and
session.cost after every instant at which something happened, whether the connection was closed,
the disconnect hook, a probe request at the end (still serving?), and the times at which the
scripted handlers themselves started / reached their outcome.

Judged by the oracle written from the property text, and compared with the Lean model
(`drv_c03`: K-slot schedule + decision ladder + completion fold).
"""
import asyncio
import itertools
import json
import logging
import os
from multiprocessing import Pool

from harness.base import Results, corpus_lines
from harness.rig import Rig

RULE = ('case = (session configuration: protocol 2.0/1.0/loose, server/client kind, cost hard '
        'limit 0 or not, concurrency limit K, throttle sleep S, slow peer (send buffer drains '
        'late / writing paused around the processing deadline)) x (items: requests / '
        'notifications / members of one batch, each with a handler duration and an outcome from '
        '{value, unencodable value (3 ways), returned RPCError object, RPCError(code,msg,cost), '
        'ProtocolError, other exception (5 classes), overrun of processing_timeout (in the '
        'handler / in the throttle sleep / queued for a slot), ReplyAndDisconnect(value|error|'
        'unencodable) at any position of the completion order, limiter refusal, and - outside '
        'the property quantifier, model comparison only - ReplyAndDisconnect(), handler raising '
        'ExcessiveSessionCostError / TaskTimeout / CancelledError / TimeoutCancellationError}); '
        'all arrive at time 0, then a probe request. exhaustive: every outcome x {request, '
        'notification, batch member} alone under every configuration, every ordered pair of '
        'outcome classes in both completion orders, queueing / throttle / paused-writer '
        'families; seeded random vectors of up to 6 items. non-trivial = at least 2 items of '
        'which at least one fails; distinct = distinct cases')

P = 30                       # processing_timeout of the scripted sessions (virtual seconds)
SOFT, HARD = 2 ** 30, 2 ** 31            # cost limits no case reaches by itself
BIG = 3 * 2 ** 30            # cost bump that drives the limiter's target to 0 (outcome 'x')
T_SOFT, T_RANGE = 1024, 2 ** 30          # throttle configuration: sleep = cost - T_SOFT seconds
MSG = {1: 'alpha', 2: 'beta', 3: 'gamma é', 7: 'seven', 9: ''}
MSG_IDS = {v: k for k, v in MSG.items()}
# results that are falsy in Python: value ids 900.. (a reply must not depend on truthiness)
FALSY = [None, 0, '', [], False, {}, 0.0]

# outcome classes (first element of an outcome tuple)
DISC = ('dv', 'de', 'du')                # ReplyAndDisconnect(value | error | unencodable)
OUTSIDE = ('d0', 'tt', 'b', 'x')         # not a handler outcome the property quantifies over
OUTCOMES = ['v', 'u', 'e', 'r', 'p', 'o', 't', 'dv', 'de', 'du', 'x', 'xe', 'd0', 'tt', 'b']
N_OTHER = 5                              # size of the "other exception" family


def unencodable(n):
    """values json.dumps cannot encode, failing in three different ways: TypeError (a set),
    ValueError (circular reference), RecursionError (nesting deeper than the interpreter's
    recursion limit)"""
    k = n % 3
    if k == 0:
        return {1, 2, n}
    if k == 1:
        a = [n]
        a.append(a)
        return a
    deep = cur = []
    for _ in range(3000):
        nxt = []
        cur.append(nxt)
        cur = nxt
    return deep


DEFAULT_CFG = {'proto': '2.0', 'kind': 'server', 'hard0': False, 'conc': 20, 'throttle': 0,
               'drain': None, 'pause': None, 'transport': 'rs'}


def norm_cfg(cfg):
    out = dict(DEFAULT_CFG)
    out.update(cfg or {})
    return out


def norm_case(case):
    """accepts the old corpus format {'items': [[kind, outcome]], 'order': [...]} (completion
    order given explicitly) and the current one {'cfg': {...}, 'items': [[kind, outcome, dur]]}"""
    if isinstance(case.get('case'), dict):
        case = case['case']
    items = []
    if 'order' in case:
        pos = {idx: p for p, idx in enumerate(case['order'])}
        for i, (k, o) in enumerate(case['items']):
            o = tuple(o)
            if o == ('o',):
                o = ('o', 0)
            items.append((k, o, 0 if o[0] == 'x' else 1 + pos.get(i, i)))
    else:
        items = [(k, tuple(o), d) for k, o, d in case['items']]
    arr = list(case.get('arr') or [0] * len(items))
    return {'cfg': norm_cfg(case.get('cfg')), 'items': items, 'arr': arr}


def case_json(case):
    cfg = {k: v for k, v in case['cfg'].items() if DEFAULT_CFG.get(k) != v}
    out = {'cfg': cfg, 'items': [[k, list(o), d] for k, o, d in case['items']]}
    if any(case['arr']):
        out['arr'] = list(case['arr'])
    return out


def make_session_cls(mods, cfg):
    sess, jr, cu = mods['session'], mods['jsonrpc'], mods['curio']
    proto_cls = {'2.0': jr.JSONRPCv2, '1.0': jr.JSONRPCv1, 'loose': jr.JSONRPCLoose}[cfg['proto']]

    class BadStr(Exception):
        def __str__(self):
            raise RuntimeError('str() of this exception fails')
        __repr__ = __str__

    class S(sess.RPCSession):
        processing_timeout = float(P)
        cost_decay_per_sec = 0.0
        initial_concurrent = cfg['conc']
        if cfg['throttle']:
            cost_soft_limit = T_SOFT
            cost_hard_limit = T_SOFT + T_RANGE
            cost_sleep = float(T_RANGE)
        else:
            cost_soft_limit = SOFT
            cost_hard_limit = 0 if cfg['hard0'] else HARD

        def __init__(self, *a, **k):
            super().__init__(*a, **k)
            self.script = {}
            self.hlog = {}            # method -> [start time, time the outcome was reached]
            self.hook_calls = 0

        def default_connection(self):
            return jr.JSONRPCConnection(proto_cls)

        def on_disconnect_due_to_excessive_session_cost(self):
            self.hook_calls += 1

        async def handle_request(self, request):
            key = request.method
            o, dur = self.script[key]
            now = asyncio.get_event_loop().time
            rec = self.hlog[key] = [now(), None]
            if dur:
                await cu.sleep(dur)
            kind = o[0]
            if kind == 't':
                await cu.sleep(P + 10 ** 6)
                return 'late'
            rec[1] = now()
            if kind == 'v':
                return {'ok': o[1]} if o[1] < 900 else FALSY[o[1] - 900]
            if kind == 'u':
                return unencodable(o[1])
            if kind == 'e':
                return jr.RPCError(o[1], MSG[o[2]], cost=float(o[3]))
            if kind == 'r':
                raise jr.RPCError(o[1], MSG[o[2]], cost=float(o[3]))
            if kind == 'p':
                raise jr.ProtocolError(o[1], MSG[o[2]])
            if kind == 'o':
                n = o[1] % N_OTHER
                if n == 0:
                    raise ValueError('boom')
                if n == 1:
                    raise asyncio.TimeoutError()
                if n == 2:
                    raise KeyError('missing')
                if n == 3:
                    raise BadStr()
                # the handler's own, inner timeout expires and is not caught
                async with cu.timeout_after(0.0):
                    await cu.sleep(1)
                raise AssertionError('inner timeout did not fire')
            if kind == 'dv':
                raise sess.ReplyAndDisconnect({'ok': o[1]})
            if kind == 'du':
                raise sess.ReplyAndDisconnect(unencodable(o[1]))
            if kind == 'de':
                raise sess.ReplyAndDisconnect(jr.RPCError(o[1], MSG[o[2]], cost=float(o[3])))
            if kind == 'd0':
                raise sess.ReplyAndDisconnect()
            if kind == 'xe':
                raise sess.ExcessiveSessionCostError()
            if kind == 'tt':
                raise cu.TaskTimeout(1.0)
            if kind == 'b':
                if o[1] % 2 == 0:
                    raise asyncio.CancelledError()
                raise cu.TimeoutCancellationError(1.0)
            raise AssertionError(o)
    return S


def wire_request(proto, method, req_id):
    """the peer's request / notification (req_id None) in the session's protocol version"""
    if proto == '2.0':
        msg = {'jsonrpc': '2.0', 'method': method, 'params': []}
        if req_id is not None:
            msg['id'] = req_id
    elif proto == '1.0':
        msg = {'method': method, 'params': [], 'id': req_id}
    else:
        msg = {'method': method, 'params': []}
        if req_id is not None:
            msg['id'] = req_id
    return msg


def arrival_order(items):
    """singles in list order; the batch (all 'B'/'M' items) arrives as one message at the
    position of its first member"""
    out, done = [], False
    for i, (k, _o, _d) in enumerate(items):
        if k in ('B', 'M'):
            if not done:
                out += [j for j, it in enumerate(items) if it[0] in ('B', 'M')]
                done = True
        else:
            out.append(i)
    return out


def aborted_while_connected(tr):
    """the transport was aborted while the connection still existed (an abort() after the
    connection is lost changes nothing for the peer)"""
    for rec in tr.log:
        if rec[1] == 'connection_lost':
            return False
        if rec[1] == 'abort':
            return True
    return False


def run_case(repo, case):
    logging.disable(logging.CRITICAL)
    cfg, items = case['cfg'], case['items']
    proto = cfg['proto']
    rig = Rig(repo, lambda mods: make_session_cls(mods, cfg), transport=cfg['transport'],
              kind=cfg['kind'])
    try:
        s, tr = rig.session, rig.tr
        if cfg['drain']:
            tr.drain_delay = cfg['drain']
        loopexc = []
        rig.loop.set_exception_handler(lambda loop, ctx: loopexc.append(
            type(ctx.get('exception')).__name__ if ctx.get('exception') else ctx.get('message')))
        if cfg['throttle']:
            s.bump_cost(T_SOFT + cfg['throttle'])
        names = [f'm{i}' for i in range(len(items))]
        for n, (k, o, d) in zip(names, items):
            s.script[n] = (o, d)
        bw = lambda: (s.recv_size + s.send_size) * s.bw_cost_per_byte
        cost0, err0 = s.cost, s.errors
        snaps = []

        def snap():
            rec = (rig.now, s.errors - err0, s.cost - cost0 - bw(), tr.is_closing(), s.hook_calls)
            if not snaps or snaps[-1][1:] != rec[1:]:
                snaps.append(rec)
        # ---- arrivals (at their instants; usually all at 0), pause / resume of the peer's reading
        arr = case['arr']
        marks = []

        def feeder(i):
            k, o, d = items[i]

            def feed_batch():
                batch = [wire_request(proto, names[j], j if items[j][0] == 'B' else None)
                         for j in range(len(items)) if items[j][0] in ('B', 'M')]
                rig.feed(json.dumps(batch).encode() + b'\n')

            def feed_single():
                if o[0] == 'x':
                    # the limiter refuses entry: the session's cost is past its hard limit
                    # while this request arrives
                    s.bump_cost(BIG)
                    rig.feed_json(wire_request(proto, names[i], None if k == 'N' else i))
                    s.bump_cost(-BIG)
                else:
                    rig.feed_json(wire_request(proto, names[i], None if k == 'N' else i))
            return feed_batch if k in ('B', 'M') else feed_single
        fed_batch = False
        for i, (k, o, d) in enumerate(items):
            if k in ('B', 'M'):
                if fed_batch:
                    continue
                fed_batch = True
            marks.append((arr[i], feeder(i)))
        horizon = max(arr, default=0) + P + 8 + (cfg['drain'] or 0)
        if cfg['pause']:
            marks += [(cfg['pause'][0], tr.env_pause), (cfg['pause'][1], tr.env_resume)]
            horizon = max(horizon, cfg['pause'][1] + 8)
        marks.sort(key=lambda m: m[0])

        def run_marks():
            while marks and marks[0][0] <= rig.now + 1e-9:
                marks.pop(0)[1]()
                rig.idle()
        run_marks()
        snap()
        # ---- let virtual time pass, instant by instant
        for _ in range(10000):
            nt = rig.next_timer()
            cand = [t for t in ([nt] if nt is not None else []) + [m[0] for m in marks[:1]]
                    if t <= horizon]
            if not cand:
                break
            rig.advance_to(max(min(cand), rig.now))
            run_marks()
            snap()
        rig.advance_to(max(horizon, rig.now))
        snap()
        closed = tr.is_closing()
        singles, batches, dup, malformed = {}, [], [], []
        for msg in rig.written_lines():
            if isinstance(msg, list):
                batches.append(msg)
                members = msg
            else:
                members = [msg]
            for m in members:
                if not isinstance(m, dict) or 'id' not in m or isinstance(m['id'], (list, dict)):
                    malformed.append(m)
                    continue
                if m['id'] in singles:
                    dup.append(m['id'])
                singles[m['id']] = m
        # ---- probe: is the session still serving?
        probe = None
        if not closed:
            if cfg['throttle']:
                s.bump_cost(-s.cost)        # leave the throttled range again
            s.script['probe'] = (('v', 424), 0)
            mark = len(tr.out)
            rig.feed_json(wire_request(proto, 'probe', 777777))
            rig.advance(1 + (cfg['drain'] or 0))
            got = [m for m in rig.written_lines(mark) if isinstance(m, dict) and m.get('id') == 777777]
            probe = bool(got) and got[0].get('result') == {'ok': 424}
        pm = getattr(rig.proto, '_process_messages_task', None)
        return {'replies': singles, 'batches': batches, 'dup': dup, 'malformed': malformed,
                'snaps': snaps, 'closed': closed, 'probe': probe, 'hook': s.hook_calls,
                'hlog': {int(k[1:]): v for k, v in s.hlog.items() if k != 'probe'},
                'loopexc': loopexc, 'pm_task_done': pm.done() if pm is not None else None,
                'aborted': aborted_while_connected(tr),
                'discarded': len(tr.discarded)}
    finally:
        rig.close()


# ---------------------------------------------------------------- model line + expectations
def ser_outcome(o):
    k = o[0]
    if k in ('v', 'u', 'dv', 'du', 'o', 'b'):
        return f'{k}{o[1]}'
    if k in ('r', 'de', 'e'):
        return f'{k}{o[1]}:{o[2]}:{o[3]}'
    if k == 'p':
        return f'p{o[1]}:{o[2]}'
    return k


def model_line(cfg, case):
    c, items = case['cfg'], case['items']
    its = [f'{items[i][0]} {i} {ser_outcome(items[i][1])} {items[i][2]} {case["arr"][i]}'
           for i in arrival_order(items)]
    return (f'repaired {cfg["internal"]} {cfg["busy"]} {cfg["excessive"]} {cfg["base"]} ; '
            f'{c["conc"]} {P} {c["throttle"]} {int(c["drain"] or 0)} ; ' + ' ; '.join(its))


def parse_model(line):
    f = dict(tok.split('=', 1) for tok in line.split(' '))

    def reps(s):
        out = {}
        for r in s.split(','):
            if r:
                i, rest = r.split(':', 1)
                out[int(i)] = rest
        return out
    return {'alive': f['alive'] == '1', 'close': f['close'] == '1', 'errors': int(f['errors']),
            'cost': int(f['cost']), 'hook': int(f['hook']), 'replies': reps(f['replies']),
            'batch': None if f['batch'] == 'none' else reps(f['batch']),
            'lost': [int(x) for x in f['lost'].split(',') if x],
            'cut': None if f['cut'] == 'none' else int(f['cut']),
            'abort': None if f['abort'] == 'none' else int(f['abort']),
            'times': {int(a): int(b) for a, b in (x.split('@') for x in f['times'].split(',') if x)}}


def canon_reply(m):
    """implementation reply -> the model's notation (message texts of the library's own errors
    are not compared: only their codes)"""
    e = m.get('error')
    if e is None and 'result' in m:
        r = m['result']
        if isinstance(r, dict) and set(r) == {'ok'}:
            return f'R{r["ok"]}'
        for n, val in enumerate(FALSY):
            if type(r) is type(val) and r == val:
                return f'R{900 + n}'
        return f'R?{r!r}'
    if isinstance(e, dict):
        return f'E{e.get("code")}:{MSG_IDS.get(e.get("message"), "lib")}'
    return f'?{m!r}'


def canon_model_reply(s):
    if s.startswith('E'):
        code, msg = s[1:].rsplit(':', 1)
        return f'E{code}:{msg if int(msg) < 1000000 else "lib"}'
    return s


def well_formed(proto, m):
    """an independent reading of the response formats (JSON-RPC 2.0 section 5 / 1.0 section 1.2)"""
    if not isinstance(m, dict) or 'id' not in m:
        return False
    e = m.get('error')
    err_ok = isinstance(e, dict) and type(e.get('code')) is int and isinstance(e.get('message'), str)
    if proto == '1.0':
        if set(m) != {'result', 'error', 'id'}:
            return False
        return m['error'] is None or (m['result'] is None and err_ok)
    if m.get('jsonrpc') != '2.0' or not set(m) <= {'jsonrpc', 'result', 'error', 'id'}:
        return False
    if ('result' in m) == ('error' in m):
        return False
    return 'result' in m or err_ok


def text_replies(cfg, o, overran):
    """what the property text allows as the reply to a request whose handler did `o`"""
    if overran:
        return {f'E{cfg["busy"]}:lib'}
    k = o[0]
    if k in ('v', 'dv'):
        return {f'R{o[1]}'}
    if k in ('r', 'p', 'de'):
        return {f'E{o[1]}:{o[2]}'}
    if k in ('u', 'du', 'o', 'xe'):
        return {f'E{cfg["internal"]}:lib'}
    if k == 'e':
        # a returned RPCError object is not among the behaviours the text lists: the library
        # answers with that error; reading it as "a value that cannot be encoded" is allowed too
        return {f'E{o[1]}:{o[2]}', f'E{cfg["internal"]}:lib'}
    return None


def oracle(cfg, case, obs):
    """the property, clause by clause, on the implementation's observations (the times are
    those the scripted handlers recorded themselves)"""
    bad = []
    c, items = case['cfg'], case['items']
    proto = c['proto']
    fin = {}                # item -> time its handler reached its outcome (None: never did)
    for i, (k, o, d) in enumerate(items):
        rec = obs['hlog'].get(i)
        fin[i] = rec[1] if rec else None
        if o[0] == 'x':
            fin[i] = float(case['arr'][i])    # refused on arrival
    # the first instant at which an item completed after which the text promises nothing more:
    # a reply-and-disconnect, or a behaviour outside the property's quantifier
    cuts = [(fin[i], i) for i, (k, o, d) in enumerate(items)
            if fin[i] is not None and (o[0] in DISC or o[0] in OUTSIDE or o[0] == 'xe')]
    cut_t, cutter = min(cuts) if cuts else (None, None)
    # replies held back by a paused writer (the peer is not reading) when something cuts the
    # connection are not promised: the close overtakes them
    hold_t = None
    if c['pause'] and any(c['pause'][0] <= t <= c['pause'][1] for t, _i in cuts):
        hold_t = float(c['pause'][0])

    # a behaviour outside the quantifier ends message processing and the connection is aborted:
    # what a slow peer had not yet taken out of the send buffer is discarded with it
    outs = [t for t, i in cuts if items[i][1][0] in OUTSIDE]
    out_t = min(outs) if outs else None
    when = {i: (fin[i] if fin[i] is not None else float(case['arr'][i] + P)) for i in range(len(items))}
    tb = max([when[i] for i, it in enumerate(items) if it[0] == 'B'], default=0.0)

    def live(i):
        """the text speaks about item i: it completed (or overran) before anything cut"""
        t = when[i]
        if hold_t is not None and t >= hold_t:
            return False
        if out_t is not None and c['drain'] and \
                (max(t, tb) if items[i][0] == 'B' else t) + c['drain'] >= out_t:
            return False
        if cut_t is None or i == cutter:
            return True
        return t < cut_t
    batch_members = [i for i, it in enumerate(items) if it[0] == 'B']
    # the batch response is due when every member is one the text speaks about
    batch_live = all(live(i) and it[1][0] not in OUTSIDE
                     for i, it in enumerate(items) if it[0] in ('B', 'M'))
    failed = 0
    for i, (k, o, d) in enumerate(items):
        rep = obs['replies'].get(i)
        # not done P seconds after its arrival: it overran, whatever it did afterwards
        overran = fin[i] is None or fin[i] > case['arr'][i] + P + 1e-6
        if not live(i):
            continue
        if o[0] in OUTSIDE:
            continue
        if overran or o[0] not in ('v', 'dv'):
            if not (k in ('N', 'M') and o[0] in ('u', 'du') and not overran):
                failed += 1
        if k in ('N', 'M') or (k == 'B' and not batch_live):
            continue
        allowed = text_replies(cfg, o, overran)
        if rep is None:
            key = 'c03:no-reply'
            if o[0] in ('u', 'du') and not overran:
                key = 'c03:unencodable-result-no-reply'
            if o[0] == 'xe':
                key = 'c03:handler-raised-excessive-cost-error'
            what = 'overran the processing timeout' if overran else f'outcome {o} at t={fin[i]}'
            bad.append((key, f'item {i} ({what}) was never answered'))
        else:
            got = canon_reply(rep)
            if got not in allowed:
                key = 'c03:wrong-reply'
                if o[0] == 'xe':
                    key = 'c03:handler-raised-excessive-cost-error'
                what = 'overran the processing timeout' if overran else f'outcome {o}'
                bad.append((key, f'item {i} {what}: replied {got}, the property allows {sorted(allowed)}'))
            if not well_formed(proto, rep):
                bad.append(('c03:ill-formed-reply', f'item {i}: {rep}'))
    if obs['dup']:
        bad.append(('c03:answered-twice', f'ids {obs["dup"]} answered more than once'))
    if obs['malformed']:
        bad.append(('c03:ill-formed-reply', str(obs['malformed'])[:200]))
    # a response that answers no request at all (a notification has no id to answer to)
    asked = {i for i, it in enumerate(items) if it[0] in ('R', 'B')} | {777777}
    stray = [r for j, r in obs['replies'].items() if j not in asked]
    if stray and not (cutter is not None and items[cutter][1][0] in OUTSIDE):
        bad.append(('c03:notification-answered', f'responses that answer no request: {stray}'[:300]))
    # ---- survival / disconnection
    if cutter is None:
        if obs['probe'] is not True:
            key = 'c03:session-dead'
            if any(o[0] == 'u' for _k, o, _d in items):
                key = 'c03:unencodable-result-kills-session'
            bad.append((key, f'after the items the session no longer answers a valid request '
                             f'(closed={obs["closed"]}, message task done={obs["pm_task_done"]}, '
                             f'loop exceptions {obs["loopexc"]})'))
    elif items[cutter][1][0] in DISC:
        if not obs['closed']:
            bad.append(('c03:disconnect-not-closed', 'a reply-and-disconnect did not close the connection'))
    elif items[cutter][1][0] == 'xe' and obs['closed']:
        bad.append(('c03:handler-raised-excessive-cost-error',
                    f'item {cutter}: the handler raised ExcessiveSessionCostError (an Exception '
                    f'like any other); the connection was closed'))
    # ---- each failed request raises the error count and the cost
    if cutter is not None:
        after = [sn for sn in obs['snaps'] if sn[0] >= cut_t and sn[3]]
        sn = after[0] if after else obs['snaps'][-1]
    else:
        sn = obs['snaps'][-1]
    if cutter is None or items[cutter][1][0] in DISC:
        if sn[1] < failed:
            bad.append(('c03:error-count', f'{failed} items failed but session.errors rose by {sn[1]}'))
        if failed and not sn[2] > 0.5:
            bad.append(('c03:error-cost', f'{failed} items failed but session.cost (bandwidth '
                                          f'charges apart) rose by {sn[2]:.3f}'))
    return bad


# ---------------------------------------------------------------- case generation
def concrete(kind, n):
    if kind == 'vf':
        return ('v', 900 + n % len(FALSY))
    return {'v': ('v', n), 'u': ('u', n), 'e': ('e', 40 + n, 1 + n % 3, 5 * (n % 3)),
            'r': ('r', 5 + n, 1 + n % 3, 10 * (n % 4)),
            'p': ('p', -32602, 2), 'o': ('o', n), 't': ('t',), 'dv': ('dv', n),
            'de': ('de', 17, 7, 25), 'du': ('du', n), 'x': ('x',), 'xe': ('xe',),
            'd0': ('d0',), 'tt': ('tt',), 'b': ('b', n)}[kind]


def mk(items, arr=None, **cfg):
    return {'cfg': norm_cfg(cfg), 'items': items, 'arr': list(arr) if arr else [0] * len(items)}


CONFIGS = [dict(), dict(transport='us'), dict(proto='1.0'), dict(proto='loose'),
           dict(kind='client'), dict(hard0=True), dict(kind='client', proto='1.0', transport='us')]


def config_ok(cfg, items):
    cfg = norm_cfg(cfg)
    for k, o, d in items:
        if k in ('B', 'M') and cfg['proto'] == '1.0':
            return False
        if o[0] == 'x' and (cfg['kind'] == 'client' or cfg['hard0'] or cfg['throttle'] or k != 'R'
                            or cfg['conc'] < len(items)):
            return False
    return True


def single_cases():
    cases = []
    for cfg in CONFIGS:
        for kind in ('R', 'N', 'B', 'M'):
            for o in OUTCOMES:
                ns = [1]
                if o in ('u', 'du'):
                    ns = [0, 1, 2]
                if o == 'o':
                    ns = list(range(N_OTHER))
                if o == 'b':
                    ns = [0, 1]
                if o in ('v', 'dv'):
                    ns = [1] + [900 + j for j in range(len(FALSY))]
                for n in ns:
                    items = [(kind, concrete(o, n), 0 if o == 'x' else 1)]
                    if config_ok(cfg, items):
                        cases.append(mk(items, **cfg))
    return cases


def pair_cases():
    cases = []
    kinds = ('R', 'N', 'B')
    for ci, ((k1, o1), (k2, o2)) in enumerate(itertools.product(itertools.product(kinds, OUTCOMES), repeat=2)):
        if 'x' in (o1, o2) and (o2 != 'x' or o1 == 'x'):
            continue        # a limiter refusal acts on arrival: last to arrive, first to complete
        for d1, d2 in ((1, 2), (2, 1)):
            if o2 == 'x':
                d2 = 0
            items = [(k1, concrete(o1, 1), d1), (k2, concrete(o2, 2), d2)]
            cfg = dict(transport='rs' if ci % 2 == 0 else 'us')
            # a slow peer (the reply sits in the send buffer for 5 virtual seconds) when the
            # last to complete replies and disconnects: the reply must still get through
            last = items[0] if d1 > d2 else items[1]
            if last[1][0] in ('dv', 'de') and 't' not in (o1, o2):
                cfg['drain'] = 5.0
            if config_ok(cfg, items):
                cases.append(mk(items, **cfg))
    return cases


QUEUE_OUTS = ['v', 'r', 'o', 't', 'dv', 'u']


def queue_cases(full):
    """fewer slots than requests: the later ones wait for a slot, and what they wait for may
    never end before their own processing timeout does"""
    cases = []
    durs = (7, 13, 22)
    outs = QUEUE_OUTS if full else ['v', 'r', 't', 'dv']
    # K = 1, two and three requests
    for (oa, da), (ob, db) in itertools.product(itertools.product(outs, durs), repeat=2):
        cases.append(mk([('R', concrete(oa, 1), da), ('R', concrete(ob, 2), db)], conc=1))
    for oa, ob, oc in itertools.product(outs, repeat=3):
        for da, db, dc in ((7, 13, 4), (13, 22, 3), (22, 3, 3), (3, 4, 22)) if full else ((7, 13, 4), (22, 3, 3)):
            cases.append(mk([('R', concrete(oa, 1), da), ('N' if oc == 'r' else 'R', concrete(ob, 2), db),
                             ('R', concrete(oc, 3), dc)], conc=1))
    # K = 2, three and four requests, a batch among them
    for oa, ob, oc in itertools.product(outs, repeat=3):
        for da, db, dc in ((7, 13, 21), (22, 9, 4), (5, 28, 26)):
            cases.append(mk([('R', concrete(oa, 1), da), ('R', concrete(ob, 2), db),
                             ('R', concrete(oc, 3), dc)], conc=2, transport='us'))
            cases.append(mk([('B', concrete(oa, 1), da), ('B', concrete(ob, 2), db),
                             ('B', concrete(oc, 3), dc)], conc=2))
    return [c for c in cases if no_ties(c)]


def throttle_cases(full):
    """the session's cost is in the soft range: every handler starts S seconds late; with
    S >= P the timeout expires during that sleep"""
    cases = []
    outs = ['v', 'r', 'o', 'u', 'dv', 'p'] if full else ['v', 'r', 'o']
    for S in (9, 26, 40):
        for k in ('R', 'N', 'B'):
            for o in outs:
                for d in (3, 12, 25):
                    cases.append(mk([(k, concrete(o, 1), d)], throttle=S))
        for oa, ob in itertools.product(outs, repeat=2):
            cases.append(mk([('R', concrete(oa, 1), 3), ('R', concrete(ob, 2), 12)], throttle=S))
            cases.append(mk([('R', concrete(oa, 1), 25), ('B', concrete(ob, 2), 2)], throttle=S, transport='us'))
    return [c for c in cases if no_ties(c)]


def pause_cases(full):
    """the peer stops reading (pause_writing) before a handler finishes close to the processing
    deadline and resumes after it: the reply is written late, but it is still the one reply"""
    cases = []
    outs = ['v', 'r', 'u', 'o', 'p', 'dv', 'de'] if full else ['v', 'r', 'u', 'dv']
    for tr in ('rs', 'us'):
        for o in outs:
            for d, pause in ((25, [20, 36]), (28, [27, 31]), (12, [5, 20]), (29, [0, 33])):
                cases.append(mk([('R', concrete(o, 1), d)], pause=pause, transport=tr))
                cases.append(mk([('B', concrete('v', 1), 3), ('B', concrete(o, 2), d)], pause=pause, transport=tr))
                cases.append(mk([('R', concrete(o, 1), d), ('R', concrete('v', 2), d - 2), ('N', concrete('r', 3), 4)],
                                pause=pause, transport=tr))
    return cases


def simulate(case):
    """the K-slot schedule (the generator's copy, used to avoid ties only): completion instant
    of every item"""
    c, items, arr = case['cfg'], case['items'], case['arr']
    free = [0] * c['conc']
    out = {}
    for i in arrival_order(items):
        k, o, d = items[i]
        dl = arr[i] + P
        a = max(free[0], arr[i])
        if a >= dl:
            out[i] = dl
            continue
        if o[0] == 'x':
            rel = a
        else:
            f = a + c['throttle'] + d
            rel = dl if (o[0] == 't' or f >= dl) else f
            if f == dl and o[0] != 't':
                out['tie'] = True       # the handler would finish at the very instant of its deadline
        out[i] = rel
        free = sorted(free[1:] + [rel])
    return out


def no_ties(case):
    """no two things at one instant, overruns of requests that arrived together apart"""
    sim = simulate(case)
    if sim.pop('tie', False):
        return False
    arr = case['arr']
    done = [t for i, t in sim.items() if t < arr[i] + P]
    over = {t for i, t in sim.items() if t >= arr[i] + P}
    later = {a for a in arr if a > 0}
    order = [arr[i] for i in arrival_order(case['items'])]
    drain = case['cfg']['drain']
    if drain and {t + drain for t in sim.values()} & set(sim.values()):
        return False        # something completes at the very instant a buffered write drains
    return (len(done) == len(set(done)) and not (set(done) & over) and not (later & (set(done) | over))
            and order == sorted(order))


def stagger_cases(full):
    """requests that arrive one after the other: each has its own processing deadline"""
    cases = []
    outs = ['v', 'r', 'o', 't', 'dv', 'u'] if full else ['v', 'r', 't', 'dv']
    for oa, ob, oc in itertools.product(outs, repeat=3):
        for (da, db, dc), arr in (((22, 5, 9), (0, 10, 12)), ((7, 26, 3), (0, 2, 19)), ((28, 27, 4), (0, 1, 6))):
            for conc in (1, 2, 20):
                cases.append(mk([('R', concrete(oa, 1), da), ('R', concrete(ob, 2), db),
                                 ('N' if oc == 'o' else 'R', concrete(oc, 3), dc)], arr=arr, conc=conc,
                                transport='us' if conc == 2 else 'rs'))
    return [c for c in cases if no_ties(c)]


RANDOM_OUTS = ['v', 'v', 'v', 'u', 'e', 'r', 'r', 'p', 'o', 'o', 't', 'dv', 'de', 'du', 'xe', 'd0', 'tt', 'b']


def random_case(r):
    for _ in range(100):
        n = r.randint(2, 6)
        cfg = dict(r.choice(CONFIGS))
        mode = r.random()
        if mode < 0.25:
            cfg['conc'] = r.choice([1, 2, 3])
        elif mode < 0.4 and cfg.get('kind') != 'client' and not cfg.get('hard0'):
            cfg['throttle'] = r.choice([4, 11, 27, 33])
        items = []
        pool = RANDOM_OUTS if r.random() < 0.5 else RANDOM_OUTS[:11]
        for i in range(n):
            k = r.choice(['R', 'R', 'R', 'N', 'B', 'B', 'M'])
            o = r.choice(pool)
            oc = concrete(o, i)
            if o == 'v' and r.random() < 0.3:
                oc = concrete('vf', r.randrange(len(FALSY)))
            items.append((k, oc, r.randint(1, 29 if 'conc' in cfg or 'throttle' in cfg else 12)))
        if r.random() < 0.08 and 'conc' not in cfg and 'throttle' not in cfg:
            items.append(('R', ('x',), 0))
        arr = None
        if r.random() < 0.3 and not cfg.get('throttle') and not any(o[0] == 'x' for _k, o, _d in items):
            # one after the other (the members of the batch together)
            t, arr, tb = 0, [], None
            for k, _o, _d in items:
                if k in ('B', 'M'):
                    if tb is None:
                        t += r.randint(0, 7)
                        tb = t
                    arr.append(tb)
                else:
                    t += r.randint(0, 7)
                    arr.append(t)
            if tb is not None:
                # the batch arrives at the position of its first member: nothing arrives earlier
                # after it in list order
                first = next(i for i, it in enumerate(items) if it[0] in ('B', 'M'))
                arr = [a if (i <= first or items[i][0] in ('B', 'M')) else max(a, tb) for i, a in enumerate(arr)]
        case = mk(items, arr=arr, **cfg)
        if r.random() < 0.15 and not cfg.get('throttle') and not any(o[0] in OUTSIDE for _k, o, _d in items):
            t0 = r.randint(0, 28)
            case['cfg']['pause'] = [t0, t0 + r.randint(1, 14)]
        elif r.random() < 0.2:
            case['cfg']['drain'] = 5.0
        if config_ok(case['cfg'], items) and no_ties(case):
            return case
    return mk([('R', ('v', 1), 1)])


# ---------------------------------------------------------------- running and comparing
def _work(args):
    repo, cases = args
    return [run_case(repo, case) for case in cases]


def run_all(ctx, cases):
    if len(cases) < 300:
        return _work((ctx.repo, cases))
    nproc = min(16, os.cpu_count() or 1)
    size = max(40, len(cases) // (nproc * 3))
    jobs = [(ctx.repo, cases[i:i + size]) for i in range(0, len(cases), size)]
    with Pool(nproc) as pool:
        return [x for part in pool.map(_work, jobs) for x in part]


def compare(case, obs, m):
    """implementation against the model's prediction; returns (impl, model) texts when they
    differ"""
    items = case['items']
    paused = case['cfg']['pause'] is not None
    got = {j: canon_reply(r) for j, r in obs['replies'].items() if isinstance(j, int) and j < len(items)}
    want = {j: canon_model_reply(r) for j, r in m['replies'].items()}
    if m['batch'] is not None:
        want.update({j: canon_model_reply(r) for j, r in m['batch'].items()})
    if paused and m['cut'] is not None:
        # a paused writer delays the close as well: what completes between the cutting item and
        # the resumption may or may not be written - compare the items before the cut only
        # (a batch member is written with the batch response, when its last request member completes)
        tb = max([t for j, t in m['times'].items() if items[j][0] == 'B'], default=0)
        when = {j: (max(t, tb) if items[j][0] == 'B' else t) for j, t in m['times'].items()}
        keep = {j for j, t in when.items() if t < m['cut'] and t < case['cfg']['pause'][0]}
        got = {j: r for j, r in got.items() if j in keep}
        want = {j: r for j, r in want.items() if j in keep}
    if got != want:
        return str(sorted(got.items())), str(sorted(want.items()))
    nb = len(obs['batches'])
    if nb != (1 if m['batch'] else 0) and not (paused and m['cut'] is not None):
        return f'{nb} batch responses', f'batch={m["batch"]}'
    if m['cut'] is not None and m['alive'] and not paused:
        after = [sn for sn in obs['snaps'] if sn[0] >= m['cut']]
        sn = after[0] if after else obs['snaps'][-1]
    else:
        sn = obs['snaps'][-1]
    if not (paused and m['cut'] is not None):
        if sn[1] != m['errors'] or abs(sn[2] - m['cost']) > 0.5:
            return f'errors={sn[1]} cost={sn[2]:.2f} at t={sn[0]}', f'errors={m["errors"]} cost={m["cost"]}'
    if obs['closed'] != m['close']:
        return f'closed={obs["closed"]}', f'close={m["close"]}'
    if obs['aborted'] != (m['abort'] is not None) and not paused:
        return f'aborted={obs["aborted"]}', f'abort={m["abort"]}'
    if (obs['probe'] is True) != (m['alive'] and not m['close']):
        return f'probe={obs["probe"]}', f'alive={m["alive"]} close={m["close"]}'
    if sn[4] != m['hook'] and not (paused and m['cut'] is not None):
        return f'hook={sn[4]}', f'hook={m["hook"]}'
    # the schedule: the instants at which the handlers reached their outcomes
    for j, t in m['times'].items():
        rec = obs['hlog'].get(j)
        ft = rec[1] if rec else None
        if j in m['lost'] or items[j][1][0] == 'x':
            continue
        if (t < case['arr'][j] + P) != (ft is not None) or (ft is not None and abs(ft - t) > 1e-6):
            return f'handler {j} reached its outcome at {ft}', f'completion time {t}'
    return None


def evaluate(ctx, cases, res):
    cfg = ctx.facts.get('cfg') or {'internal': -32603, 'busy': -102, 'excessive': -101, 'base': 100}
    allobs = run_all(ctx, cases)
    model = ctx.model([model_line(cfg, case) for case in cases])
    for i, (case, obs) in enumerate(zip(cases, allobs)):
        cj = case_json(case)
        for key, why in oracle(cfg, case, obs):
            res.violation(key, cj, why)
        if model is not None:
            if model[i] == 'bad-op':
                res.disagreement(cj, 'ran', 'the model driver rejected the case')
            else:
                diff = compare(case, obs, parse_model(model[i]))
                if diff:
                    res.disagreement(cj, diff[0], diff[1])
        items = case['items']
        for k, o, d in items:
            res.count('outcome_' + o[0])
            res.count('kind_' + k)
        for key in ('proto', 'kind'):
            res.count(f'{key}_{case["cfg"][key]}')
        for i2, (k, o, d) in enumerate(items):
            # measured: requests answered 'server busy', by where their time went
            rep = obs['replies'].get(i2)
            if rep is not None and canon_reply(rep).startswith(f'E{cfg["busy"]}:') and o[0] != 'tt':
                rec = obs['hlog'].get(i2)
                res.count('busy_reply_handler_never_started' if rec is None else 'busy_reply_in_handler')
        if case['cfg']['pause']:
            res.count('paused_writer_cases')
        if len(items) >= 2 and any(o[0] not in ('v', 'dv') for _k, o, _d in items):
            res.nontrivial(json.dumps(cj, sort_keys=True))
        if i < 3:
            res.sample({'case': cj, 'replies': {str(k): v for k, v in obs['replies'].items()},
                        'errors': obs['snaps'][-1][1], 'probe': obs['probe']})
    res['evaluations'] += len(cases)


def parse_corpus(ln):
    return norm_case(json.loads(ln))


def unexpected(ctx, res):
    """something failed that is not a listed known finding: stop enlarging the scopes"""
    try:
        with open(os.path.join(ctx.verif, 'known_findings.json')) as f:
            known = {k['key'] for k in json.load(f).get('known', []) if k['property'] == 'C03'}
    except (OSError, ValueError):
        known = set()
    return bool(res.n_disagreements) or any(v['key'] not in known for v in res['violations'])


def explore(ctx, res, deep):
    fams = [('singles', single_cases()), ('pairs', pair_cases()),
            ('queueing', queue_cases(deep)), ('throttle', throttle_cases(deep)),
            ('paused_writer', pause_cases(deep)), ('staggered', stagger_cases(deep))]
    for name, cases in fams:
        if unexpected(ctx, res) and name != 'singles':
            return
        if res['scopes'].get(name) == len(cases):
            continue            # the deep family is the quick one: already done
        evaluate(ctx, cases, res)
        res['scopes'][name] = len(cases)
    if not unexpected(ctx, res):
        n = (200000 if ctx.tier == 'thorough' else 8000) if deep else 4000
        evaluate(ctx, [random_case(ctx.rng) for _ in range(n)], res)
        res['scopes']['generated'] = res['scopes'].get('generated', 0) + n


def run(ctx):
    res = Results()
    corp = [parse_corpus(ln) for ln in corpus_lines(ctx.verif, 'C03')]
    if corp:
        evaluate(ctx, corp, res)
    res['scopes']['corpus'] = len(corp)
    explore(ctx, res, ctx.deep)
    return res.finish(RULE, exhaustive=ctx.deep)


def replay(ctx, case):
    res = Results()
    if 'items' not in case and not isinstance(case.get('case'), dict):
        # a replay file written for a model / implementation disagreement only
        recs = (case.get('violations') or []) + (case.get('disagreements') or [])
        recs = [r for r in recs if isinstance(r.get('case'), dict)]
        if not recs:
            return res.finish('nothing to replay: the file names no case')
        case = recs[0]['case']
    evaluate(ctx, [norm_case(case)], res)
    return res.finish('replay of one recorded case')
