"""C03: any handler outcome yields one well-formed reply; the session survives.

A real serving RPCSession on the fake transport and the virtual loop; handlers are scripted per
request (they wait on a gate, then behave as the chosen outcome); requests, notifications and
batch members are in flight concurrently and complete in a chosen order.  Observed: the decoded
replies per id, session.errors, the error part of session.cost, whether the connection was
closed, and a probe request at the end (still serving?).  Compared with the Lean decision model
(`drv_c03`) and judged by the oracle written from the property text.
"""
import itertools
import logging
import json
import os
from multiprocessing import Pool

from harness.base import Results, corpus_lines
from harness.rig import Rig

RULE = ('case = (items, completion order): items are requests / notifications / members of one '
        'batch, each with a handler outcome from {value, unencodable value, RPCError(code,msg,'
        'cost), ProtocolError, other exception, overrun of processing_timeout, ReplyAndDisconnect'
        '(value|error|unencodable), limiter refusal}; all in flight together, completed in the '
        'given order; then a probe request. exhaustive: every outcome x {request, notification, '
        'batch member} alone and every ordered pair of outcomes; seeded random vectors of up to '
        '6 items with random completion orders. non-trivial = at least 2 items of which at '
        'least one fails; distinct = distinct (items, order)')

MSG = {1: 'alpha', 2: 'beta', 3: 'gamma é', 7: 'seven', 9: ''}
OUTCOMES = ['v', 'u', 'r', 'p', 'o', 't', 'dv', 'de', 'du', 'x']


def unencodable(n):
    """values json.dumps cannot encode, failing in three different ways: TypeError (a set),
    ValueError (circular reference), RecursionError (nesting deeper than the interpreter's
    recursion limit)"""
    k = n % 3
    if k == 0:
        return {1, 2, n}
    if k == 1:
        a = [n]
        a.append(a)
        return a
    deep = cur = []
    for _ in range(3000):
        nxt = []
        cur.append(nxt)
        cur = nxt
    return deep


def make_session_cls(mods):
    sess, jr = mods['session'], mods['jsonrpc']

    class S(sess.RPCSession):
        processing_timeout = 30.0
        cost_decay_per_sec = 0.0
        cost_soft_limit = 10 ** 9
        cost_hard_limit = 2 * 10 ** 9

        def __init__(self, *a, **k):
            super().__init__(*a, **k)
            self.script = {}
            self.gates = {}
            self.hook_calls = 0
            self.started = []

        def on_disconnect_due_to_excessive_session_cost(self):
            self.hook_calls += 1

        async def handle_request(self, request):
            key = request.method
            self.started.append(key)
            o = self.script[key]
            await self.gates[key]
            kind = o[0]
            if kind == 'v':
                return {'ok': o[1]}
            if kind == 'u':
                return unencodable(o[1])
            if kind == 'r':
                raise jr.RPCError(o[1], MSG[o[2]], cost=float(o[3]))
            if kind == 'p':
                raise jr.ProtocolError(o[1], MSG[o[2]])
            if kind == 'o':
                raise ValueError('boom')
            if kind == 't':
                await mods['curio'].sleep(self.processing_timeout + 1000)
                return 'late'
            if kind == 'dv':
                raise sess.ReplyAndDisconnect({'ok': o[1]})
            if kind == 'du':
                raise sess.ReplyAndDisconnect(unencodable(o[1]))
            if kind == 'de':
                raise sess.ReplyAndDisconnect(jr.RPCError(o[1], MSG[o[2]], cost=float(o[3])))
            raise AssertionError(o)
    return S


def run_case(repo, items, order, transport="rs"):
    logging.disable(logging.CRITICAL)
    # a slow peer (the reply sits in the send buffer for 5 virtual seconds) whenever the case
    # ends with a reply-and-disconnect: the reply must still get through before the close
    slow_peer = bool(order) and items[order[-1]][1][0] in ('dv', 'de') and \
        not any(o[0] == 't' for _k, o in items)
    """items: list of (kind 'R'|'N'|'B', outcome tuple); 'B' items form one batch.
    order: permutation of range(len(items)) = completion order."""
    rig = Rig(repo, make_session_cls, transport=transport)
    try:
        s = rig.session
        if slow_peer:
            rig.tr.drain_delay = 5.0
        obs = {'exc': None}
        loopexc = []
        rig.loop.set_exception_handler(lambda loop, ctx: loopexc.append(
            type(ctx.get('exception')).__name__ if ctx.get('exception') else ctx.get('message')))
        names = [f'm{i}' for i in range(len(items))]
        for n, (k, o) in zip(names, items):
            s.script[n] = o
            s.gates[n] = rig.loop.create_future()
        cost0, err0 = s.cost, s.errors
        # feed: singles first to last, batch members as one batch message
        batch = []
        for i, (n, (k, o)) in enumerate(zip(names, items)):
            msg = {'jsonrpc': '2.0', 'method': n, 'params': []}
            if k != 'N':
                msg['id'] = i
            if o[0] == 'x':
                # the limiter refuses entry: target 0 while this request is admitted
                s._incoming_concurrency.set_target(0)
            if k == 'B':
                batch.append(msg)
            else:
                rig.feed_json(msg)
            if o[0] == 'x' and k != 'B':
                s._incoming_concurrency.set_target(20)
        if batch:
            rig.feed(json.dumps(batch).encode() + b'\n')
            s._incoming_concurrency.set_target(20)
        bw0 = s.cost            # cost after the traffic was charged (errors of 'x' included)
        for idx in order:
            n = names[idx]
            g = s.gates[n]
            if not g.done():
                g.set_result(None)
            rig.idle()
            if items[idx][1][0] == 't':
                rig.advance(s.processing_timeout + 5)
        rig.idle()
        if slow_peer:
            rig.advance(12)
        closed_before_probe = rig.tr.is_closing()
        replies = {}
        dup = []
        for msg in rig.written_lines():
            members = msg if isinstance(msg, list) else [msg]
            for m in members:
                if not isinstance(m, dict) or 'id' not in m:
                    replies.setdefault('malformed', []).append(m)
                    continue
                if m['id'] in replies:
                    dup.append(m['id'])
                replies[m['id']] = m
        # probe: is the session still serving?
        probe = None
        if not closed_before_probe:
            s.script['probe'] = ('v', 4242)
            s.gates['probe'] = rig.loop.create_future()
            s.gates['probe'].set_result(None)
            mark = len(rig.tr.out)
            rig.feed_json({'jsonrpc': '2.0', 'method': 'probe', 'params': [], 'id': 777777})
            got = [m for m in rig.written_lines(mark) if isinstance(m, dict) and m.get('id') == 777777]
            probe = bool(got) and got[0].get('result') == {'ok': 4242}
        obs.update(replies=replies, dup=dup, errors=s.errors - err0, cost=s.cost - cost0,
                   closed=closed_before_probe, probe=probe, hook=s.hook_calls, loopexc=loopexc,
                   pm_task_done=rig.proto._process_messages_task.done())
        return obs
    finally:
        rig.close()


# ---------------------------------------------------------------- model line + expectations
def ser_outcome(o):
    k = o[0]
    if k in ('v', 'u', 'dv', 'du'):
        return f'{k}{o[1]}'
    if k in ('r', 'de'):
        return f'{k}{o[1]}:{o[2]}:{o[3]}'
    if k == 'p':
        return f'p{o[1]}:{o[2]}'
    return k


def model_line(cfg, items, order):
    its = []
    for idx in order:
        k, o = items[idx]
        its.append(f'{"N" if k == "N" else "R"} {idx} {ser_outcome(o)}')
    return f'repaired {cfg["internal"]} {cfg["busy"]} {cfg["excessive"]} {cfg["base"]} ; ' + ' ; '.join(its)


def parse_model(line):
    f = dict(tok.split('=', 1) for tok in line.split(' '))
    reps = {}
    for r in f['replies'].split(','):
        if not r:
            continue
        i, rest = r.split(':', 1)
        reps[int(i)] = rest
    return {'alive': f['alive'] == '1', 'close': f['close'] == '1', 'errors': int(f['errors']),
            'cost': int(f['cost']), 'replies': reps,
            'lost': [int(x) for x in f['lost'].split(',') if x]}


MSG_IDS = {v: k for k, v in MSG.items()}


def canon_reply(m):
    """implementation reply -> the model's notation (message texts of the library's own errors
    are not compared: only their codes)"""
    if 'result' in m and m.get('error') is None:
        r = m['result']
        if isinstance(r, dict) and set(r) == {'ok'}:
            return f'R{r["ok"]}'
        return f'R?{r!r}'
    e = m.get('error')
    if isinstance(e, dict):
        return f'E{e.get("code")}:{MSG_IDS.get(e.get("message"), "lib")}'
    return f'?{m!r}'


def canon_model_reply(s):
    if s.startswith('E'):
        code, msg = s[1:].rsplit(':', 1)
        return f'E{code}:{msg if int(msg) < 1000000 else "lib"}'
    return s


def oracle(cfg, items, order, obs):
    """the property, clause by clause, on the implementation's observations"""
    bad = []
    disconnecting = [i for i in order if items[i][1][0] in ('dv', 'de', 'du', 'x')]
    first_disc = order.index(disconnecting[0]) if disconnecting else None
    failed = 0
    extra = 0.0
    for pos, idx in enumerate(order):
        k, o = items[idx]
        after_disc = first_disc is not None and pos > first_disc
        rep = obs['replies'].get(idx)
        kind = o[0]
        if k == 'N':
            if rep is not None:
                bad.append(('c03:notification-answered', f'item {idx} {o}: a notification got {rep}'))
        elif not after_disc and k != 'B' or (k == 'B' and first_disc is None):
            if rep is None:
                key = 'c03:no-reply'
                if kind in ('u', 'du'):
                    key = 'c03:unencodable-result-no-reply'
                bad.append((key, f'item {idx} (outcome {o}) was never answered'))
            else:
                c = canon_reply(rep)
                want = {
                    'v': lambda: f'R{o[1]}', 'dv': lambda: f'R{o[1]}',
                    'u': lambda: f'E{cfg["internal"]}:lib', 'du': lambda: f'E{cfg["internal"]}:lib',
                    'r': lambda: f'E{o[1]}:{o[2]}', 'de': lambda: f'E{o[1]}:{o[2]}',
                    'p': lambda: f'E{o[1]}:{o[2]}',
                    'o': lambda: f'E{cfg["internal"]}:lib', 't': lambda: f'E{cfg["busy"]}:lib',
                    'x': lambda: f'E{cfg["excessive"]}:lib',
                }[kind]()
                if c != want:
                    bad.append(('c03:wrong-reply', f'item {idx} outcome {o}: replied {c}, expected {want}'))
                if 'jsonrpc' not in rep or ('result' in rep) == ('error' in rep):
                    bad.append(('c03:ill-formed-reply', f'item {idx}: {rep}'))
        if not after_disc and kind not in ('v', 'dv') and not (k == 'N' and kind in ('u', 'du')):
            failed += 1
            if kind in ('r', 'de'):
                extra += o[3]
    if obs['dup']:
        bad.append(('c03:answered-twice', f'ids {obs["dup"]} answered more than once'))
    if 'malformed' in obs['replies']:
        bad.append(('c03:ill-formed-reply', str(obs['replies']['malformed'])[:200]))
    if first_disc is None:
        if obs['probe'] is not True:
            key = 'c03:session-dead'
            if any(items[i][1][0] in ('u',) for i in order):
                key = 'c03:unencodable-result-kills-session'
            bad.append((key, f'after the items the session no longer answers a valid request '
                             f'(closed={obs["closed"]}, message task done={obs["pm_task_done"]}, '
                             f'loop exceptions {obs["loopexc"]})'))
        if obs['errors'] != failed:
            bad.append(('c03:error-count', f'{failed} items failed but session.errors rose by {obs["errors"]}'))
        want_cost = failed * cfg['base'] + extra
        if abs(obs['cost'] - want_cost) > 1.0:
            bad.append(('c03:error-cost', f'failed items should have cost {want_cost}, session.cost rose by {obs["cost"]:.3f}'))
    else:
        if not obs['closed']:
            bad.append(('c03:disconnect-not-closed', 'a disconnecting outcome did not close the connection'))
    return bad


def concrete(kind, n):
    return {'v': ('v', n), 'u': ('u', n), 'r': ('r', 5 + n, 1 + n % 3, 10 * (n % 4)),
            'p': ('p', -32602, 2), 'o': ('o',), 't': ('t',), 'dv': ('dv', n),
            'de': ('de', 17, 7, 25), 'du': ('du', n), 'x': ('x',)}[kind]


def exhaustive_cases(pairs=True):
    cases = []
    for kind in ('R', 'N', 'B'):
        for o in OUTCOMES:
            if kind == 'B' and o == 'x':
                continue
            cases.append(([(kind, concrete(o, 1))], [0]))
            if o in ('u', 'du'):
                cases.append(([(kind, concrete(o, 0))], [0]))
                cases.append(([(kind, concrete(o, 2))], [0]))
    if pairs:
        for (k1, o1), (k2, o2) in itertools.product(
                itertools.product(('R', 'N', 'B'), OUTCOMES), repeat=2):
            if 'x' in (o1, o2) and 'B' in (k1, k2):
                continue
            if 'x' in (o1, o2):
                continue    # a limiter refusal acts on arrival, not on completion: singles only
            items = [(k1, concrete(o1, 1)), (k2, concrete(o2, 2))]
            for order in ([0, 1], [1, 0]):
                # a disconnecting outcome only as the last to complete
                if items[order[0]][1][0] in ('dv', 'de', 'du'):
                    continue
                # an overrun is by definition the slowest: everything admitted with it and
                # still running when it times out would have overrun as well
                if items[order[0]][1][0] == 't' and items[order[1]][1][0] != 't':
                    continue
                if 't' in (o1, o2) and items[order[1]][1][0] in ('dv', 'de', 'du'):
                    continue
                cases.append((items, order))
    return cases


def random_case(r):
    n = r.randint(2, 6)
    items = []
    for i in range(n):
        k = r.choice(['R', 'R', 'N', 'B'])
        o = r.choice(['v', 'v', 'u', 'r', 'r', 'p', 'o', 't'])
        items.append((k, concrete(o, i)))
    order = list(range(n))
    r.shuffle(order)
    # overruns are the slowest items: they complete last
    order = [i for i in order if items[i][1][0] != 't'] + [i for i in order if items[i][1][0] == 't']
    if r.random() < 0.25 and not any(o[0] == 't' for _k, o in items):
        last = order[-1]
        k = items[last][0]
        items[last] = (k, concrete(r.choice(['dv', 'de', 'du']), last))
    return items, order


def _work(args):
    repo, cases = args
    out = []
    for i, (items, order) in enumerate(cases):
        out.append(run_case(repo, items, order, transport='rs' if i % 2 == 0 else 'us'))
    return out


def run_all(ctx, cases):
    if len(cases) < 300:
        return _work((ctx.repo, cases))
    nproc = min(16, os.cpu_count() or 1)
    size = max(40, len(cases) // (nproc * 3))
    jobs = [(ctx.repo, cases[i:i + size]) for i in range(0, len(cases), size)]
    with Pool(nproc) as pool:
        return [x for part in pool.map(_work, jobs) for x in part]


def evaluate(ctx, cases, res):
    cfg = ctx.facts.get('cfg') or {'internal': -32603, 'busy': -102, 'excessive': -101, 'base': 100}
    allobs = run_all(ctx, cases)
    model = ctx.model([model_line(cfg, items, order) for items, order in cases])
    for i, ((items, order), obs) in enumerate(zip(cases, allobs)):
        case = {'items': [[k, list(o)] for k, o in items], 'order': order}
        for key, why in oracle(cfg, items, order, obs):
            res.violation(key, case, why)
        disc = any(items[j][1][0] in ('dv', 'de', 'du', 'x') for j in order)
        if model is not None:
            m = parse_model(model[i])
            got = {j: canon_reply(r) for j, r in obs['replies'].items() if isinstance(j, int)}
            want = {j: canon_model_reply(r) for j, r in m['replies'].items()}
            # a batch that contains a disconnecting member may be cut short by the close
            if got != want and not (disc and any(k == 'B' for k, _ in items)):
                res.disagreement(case, str(sorted(got.items())), str(sorted(want.items())))
            elif not disc and (obs['errors'] != m['errors'] or abs(obs['cost'] - m['cost']) > 1.0
                               or (obs['probe'] is True) != m['alive']):
                res.disagreement(case, f'errors={obs["errors"]} cost={obs["cost"]:.2f} probe={obs["probe"]}',
                                 f'errors={m["errors"]} cost={m["cost"]} alive={m["alive"]}')
            elif disc and obs['closed'] != m['close']:
                res.disagreement(case, f'closed={obs["closed"]}', f'close={m["close"]}')
        for k, o in items:
            res.count('outcome_' + o[0])
            res.count('kind_' + k)
        if len(items) >= 2 and any(o[0] not in ('v', 'dv') for _k, o in items):
            res.nontrivial(json.dumps(case))
        if i < 3:
            res.sample({'case': case, 'replies': {str(k): v for k, v in obs['replies'].items()},
                        'errors': obs['errors'], 'probe': obs['probe']})
    res['evaluations'] += len(cases)


def parse_corpus(ln):
    d = json.loads(ln)
    return [(k, tuple(o)) for k, o in d['items']], d['order']


def run(ctx):
    res = Results()
    corp = [parse_corpus(ln) for ln in corpus_lines(ctx.verif, 'C03')]
    if corp:
        evaluate(ctx, corp, res)
    res['scopes']['corpus'] = len(corp)
    ex = exhaustive_cases(pairs=True)
    if not ctx.deep:
        singles = [c for c in ex if len(c[0]) == 1]
        pairs = [c for c in ex if len(c[0]) == 2]
        ex = singles + pairs
    evaluate(ctx, ex, res)
    res['scopes']['exhaustive_singles_and_pairs'] = len(ex)
    n = (60000 if ctx.tier == 'thorough' else 8000) if ctx.deep else 1500
    evaluate(ctx, [random_case(ctx.rng) for _ in range(n)], res)
    res['scopes']['generated'] = n
    return res.finish(RULE, exhaustive=ctx.deep)


def replay(ctx, case):
    if isinstance(case.get('case'), dict):
        case = case['case']
    res = Results()
    evaluate(ctx, [([(k, tuple(o)) for k, o in case['items']], case['order'])], res)
    return res.finish('replay of one recorded case')
