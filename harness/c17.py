"""C17 correspondence + search: the real `SOCKSProxy._handshake` (on a fake loop object that
provides `sock_recv` / `sock_sendall`), the real protocol objects driven by hand, and the real
`_detect_proxy` (fake `asyncio` / `socket` names inside `aiorpcx.socks`) vs the Lean model
(`drv_c17`); and the property oracle on every implementation trace.

The oracle is written from the property text and the reply formats of the SOCKS4 protocol note,
RFC 1928 and RFC 1929; it never looks at the model."""
import os
from multiprocessing import Pool

from harness.base import Results
from harness import socks_common as sc

V4 = ('4', bytes([1, 2, 3, 4]))
V6 = ('6', bytes(range(16)))
NAME = ('n', 'example.com')
CFGS = {
    '4': ('4', V4, 80, None),
    '4u': ('4', V4, 8080, ('user', 'x')),
    '4a': ('4a', NAME, 80, ('u', 'p')),
    '5n': ('5', NAME, 443, None),
    '5a': ('5', V6, 443, ('user', 'pass')),
}


Livelock = sc.Livelock


# ------------------------------------------------------------------ reply grammar (spec)
def classify(cfg, s):
    """-> (set of acceptable outcomes, handshake length or None).
    Outcomes: 'ok', 'SOCKSFailure', 'SOCKSProtocolError'."""
    PE, FA = {'SOCKSProtocolError'}, {'SOCKSFailure'}
    proto, _h, _p, auth = CFGS[cfg]
    if proto != '5':
        # SOCKS4 reply: VN(=0) CD DSTPORT(2) DSTIP(4); CD 90 = request granted
        if len(s) < 8:
            return PE, None
        if s[0] != 0:
            return PE, None
        return ({'ok'}, 8) if s[1] == 90 else (FA, None)
    offered = (0, 2) if auth is not None else (0,)
    # RFC 1928 s3: VER METHOD
    if len(s) < 2 or s[0] != 5:
        return PE, None
    if s[1] not in offered:
        return FA, None          # X'FF' or a method that was never offered: nothing acceptable
    pos = 2
    if s[1] == 2:
        # RFC 1929 s2: VER(=1) STATUS, 0 = success
        if len(s) < 4 or s[2] != 1:
            return PE, None
        if s[3] != 0:
            return FA, None
        pos = 4
    # RFC 1928 s6: VER REP RSV ATYP BND.ADDR BND.PORT
    r = s[pos:]
    if len(r) < 4:
        return PE, None
    if r[0] != 5 or r[2] != 0 or r[3] not in (1, 3, 4):
        return PE, None
    if r[3] == 1:
        total = 4 + 4 + 2
    elif r[3] == 4:
        total = 4 + 16 + 2
    else:
        total = None if len(r) < 5 else 4 + 1 + r[4] + 2
    complete = total is not None and len(r) >= total
    if r[1] != 0:
        # a refusal; if the stream ends inside it, "refusal" and "early end of stream" both apply
        return (FA if complete else FA | PE), None
    if not complete:
        return PE, None
    return {'ok'}, pos + total


# ------------------------------------------------------------------ implementation side
class FakeLoop:
    """`loop` argument of `_handshake`.  The reply stream arrives in `segments`; `sock_recv(n)`
    returns what is available of the current segment, at most n bytes; b'' at end of stream."""

    def __init__(self, stream, segments):
        self.stream = bytes(stream)
        self.bounds = []
        pos = 0
        for ln in segments:
            pos += ln
            self.bounds.append(pos)
        self.pos = 0
        self.recvs = []
        self.sent = []

    async def sock_recv(self, sock, n):
        if not isinstance(n, int) or n < 0:
            raise ValueError('negative buffersize in recv')
        if self.pos >= len(self.stream) or n == 0:
            self.recvs.append((n, 0))
            return b''
        end = len(self.stream)
        for b in self.bounds:
            if b > self.pos:
                end = min(end, b)
                break
        k = min(n, end - self.pos)
        data = self.stream[self.pos:self.pos + k]
        self.pos += k
        self.recvs.append((n, k))
        return data

    async def sock_sendall(self, sock, data):
        self.sent.append(bytes(data))


class Watch:
    """what `_handshake` is given as `client`: the real object plus a call budget"""

    def __init__(self, client, limit):
        self._c = client
        self._left = limit

    def next_message(self):
        self._left -= 1
        if self._left < 0:
            raise Livelock()
        return self._c.next_message()

    def receive_data(self, data):
        return self._c.receive_data(data)


def drive(coro):
    """run a coroutine whose awaits never suspend"""
    try:
        coro.send(None)
    except StopIteration as e:
        return e.value
    coro.close()
    raise RuntimeError('coroutine suspended on a fake loop')


def impl_handshake(mods, cfg, stream, segments):
    loop = FakeLoop(stream, segments)
    try:
        client = sc.make_client(mods, CFGS[cfg])
    except Exception as e:      # observed: a valid configuration was refused
        return 'constructor-' + sc.exc_name(e), loop
    proxy = mods.socks.SOCKSProxy(mods.util.NetAddress('localhost', 1080), type(client), None)
    try:
        r = drive(proxy._handshake(Watch(client, 4 * len(stream) + 40), object(), loop))
        outcome = 'ok' if r is None else f'returned-{type(r).__name__}'
    except Livelock:
        outcome = 'Livelock'
    except Exception as e:      # observed
        outcome = sc.exc_name(e)
    return outcome, loop


def fmt_run(outcome, loop):
    unread = loop.stream[loop.pos:]
    recvs = ','.join(f'{k}:{n}' for k, n in loop.recvs) or '_'
    sent = ';'.join((m.hex() or '-') for m in loop.sent) or '_'
    return f'{outcome} {unread.hex() or "-"} {recvs} {sent}'


def hs_line(cfg, stream, loop):
    sizes = ','.join(str(n) for _k, n in loop.recvs if n > 0) or '_'
    return f'hs {sc.enc_case(CFGS[cfg])} {bytes(stream).hex() or "-"} {sizes}/1'


def oracle_hs(cfg, stream, outcome, loop):
    """None if the property holds on this trace, else (key, why)."""
    allowed, H = classify(cfg, stream)
    if outcome not in ('ok', 'SOCKSFailure', 'SOCKSProtocolError'):
        return 'c17:other-exception', f'{outcome} escaped the handshake'
    if outcome not in allowed:
        return (f'c17:outcome-{outcome}-expected-{"/".join(sorted(allowed))}',
                f'replies call for {sorted(allowed)}, handshake gave {outcome}')
    if outcome == 'ok':
        got = 0
        for k, n in loop.recvs:
            if k < 1 or k > H - got:
                return ('c17:over-read',
                        f'recv({k}) requested while only {H - got} handshake bytes were outstanding')
            got += n
        if loop.pos != H:
            return 'c17:over-read', f'{loop.pos} bytes taken from the socket, the handshake has {H}'
    return None


def impl_object(mods, cfg, chunks):
    try:
        client = sc.make_client(mods, CFGS[cfg])
    except Exception as e:      # observed
        return ['E:constructor-' + sc.exc_name(e)], []
    out, raw = sc.drive_object(mods, client, chunks, fuel=len(chunks) + 8)
    return out, raw


def oracle_obj(cfg, chunks, out):
    stream = b''.join(chunks)
    allowed, _H = classify(cfg, stream)
    last = out[-1] if out else ''
    if last != 'None' and last.startswith('N'):
        # starved: must be a stream that ends early
        if 'SOCKSProtocolError' not in allowed:
            return 'c17:object-starved', f'object still wants data though the replies call for {sorted(allowed)}'
        return None
    o = 'ok' if last == 'None' else last[2:] if last.startswith('E:') else last
    if o not in ('ok', 'SOCKSFailure', 'SOCKSProtocolError'):
        return 'c17:other-exception', f'{o} from next_message()'
    if o not in allowed:
        return (f'c17:outcome-{o}-expected-{"/".join(sorted(allowed))}',
                f'replies call for {sorted(allowed)}, object gave {o}')
    return None


# _detect_proxy ---------------------------------------------------------------------------
class FakeSocket:
    def __init__(self, *a, **k):
        self.closed = False

    def setblocking(self, flag):
        pass

    def getpeername(self):
        return ('127.0.0.1', 1080)

    def close(self):
        self.closed = True


class FakeSocketModule:
    socket = FakeSocket
    SOCK_STREAM = 1
    AF_INET = 2


class DetLoop:
    def __init__(self, attempts):
        self.attempts = attempts
        self.k = -1
        self.cur = None

    async def getaddrinfo(self, host, port, **kw):
        return [(2, 1, 6, '', ('127.0.0.1', 1080))] * len(self.attempts)

    async def sock_connect(self, sock, addr):
        self.k += 1
        a = self.attempts[self.k]
        if a is None:
            raise ConnectionRefusedError('refused')
        self.cur = FakeLoop(a, [1] * len(a))

    async def sock_recv(self, sock, n):
        return await self.cur.sock_recv(sock, n)

    async def sock_sendall(self, sock, data):
        return await self.cur.sock_sendall(sock, data)


class FakeAsyncio:
    def __init__(self, loop):
        self._loop = loop

    def get_event_loop(self):
        return self._loop

    get_running_loop = get_event_loop


def impl_detect(mods, proto, auth, attempts):
    socks = mods.socks
    proxy = socks.SOCKSProxy(mods.util.NetAddress('localhost', 1080), mods.cls[proto],
                             sc.make_auth(mods, auth))
    loop = DetLoop(attempts)
    saved = socks.asyncio, socks.socket
    socks.asyncio, socks.socket = FakeAsyncio(loop), FakeSocketModule
    try:
        with sc.watchdog(5.0):
            r = drive(proxy._detect_proxy())
        return 'True' if r is True else 'False' if r is False else repr(r)
    except Livelock:
        return 'Livelock'
    except Exception as e:      # observed
        return 'E:' + sc.exc_name(e)
    finally:
        socks.asyncio, socks.socket = saved


# _connect --------------------------------------------------------------------------------
class ConLoop(DetLoop):
    """one getaddrinfo entry per remote address; `attempts[k]` is what the k-th connection meets"""

    async def getaddrinfo(self, host, port, **kw):
        return [(2, 1, 6, '', ('127.0.0.1', 1080))]

    async def sock_connect(self, sock, addr):
        self.k += 1
        a = self.attempts[self.k]
        if a is None:
            raise OSError('connection refused')
        self.cur = FakeLoop(a, [len(a)] if a else [])


def _with_fakes(mods, loop, fn):
    socks = mods.socks
    saved = socks.asyncio, socks.socket
    socks.asyncio, socks.socket = FakeAsyncio(loop), FakeSocketModule
    try:
        with sc.watchdog(5.0):
            return fn()
    finally:
        socks.asyncio, socks.socket = saved


def con_address(mods, proto, i, behaviour):
    """remote address number i; behaviour 'v6' asks a SOCKS4 proxy for an IPv6 destination
    (the constructor refuses: the exception escapes _connect_one)"""
    if behaviour == 'v6':
        return sc.make_address(mods, V6, 1000 + i)
    return sc.make_address(mods, V4, 1000 + i)


def impl_connect(mods, proto, behaviours):
    """-> (model line, result of the real _connect, per-address outcomes)"""
    socks = mods.socks
    proxy = socks.SOCKSProxy(mods.util.NetAddress('localhost', 1080), mods.cls[proto], None)
    addrs = [con_address(mods, proto, i, b) for i, b in enumerate(behaviours)]
    streams = [None if b == 'x' else b'' if b == 'v6' else bytes(b) for b in behaviours]
    toks, reprs = [], {}
    for addr, b, st in zip(addrs, behaviours, streams):
        try:
            r = _with_fakes(mods, ConLoop([st]), lambda: drive(proxy._connect_one(addr)))
        except Exception as e:      # observed: escaped _connect_one
            toks.append('x:' + sc.exc_name(e))
            continue
        if isinstance(r, FakeSocket):
            toks.append('s')
        else:
            toks.append(f'e:{sc.exc_name(r)}:{reprs.setdefault(repr(r), len(reprs))}')
    # the constructor raises before a connection is made: that address consumes no attempt
    flat = [st for b, st in zip(behaviours, streams) if b != 'v6']
    try:
        r = _with_fakes(mods, ConLoop(flat), lambda: drive(proxy._connect(addrs)))
        got = f'connected {addrs.index(r[1])}' if isinstance(r[0], FakeSocket) else repr(r)
    except Livelock:
        got = 'Livelock'
    except Exception as e:          # observed
        got = 'E:' + sc.exc_name(e)
    return 'con ' + ' '.join(toks), got, toks


def oracle_connect(proto, behaviours, got):
    cfg = '4' if proto in ('4', '4a') else '5n'
    for i, b in enumerate(behaviours):
        if b == 'v6':
            # inexpressible destination: a SOCKS error, nothing later is tried
            return None if got == 'E:SOCKSProtocolError' else (
                'c17:connect-result', f'address {i} cannot be expressed, _connect gave {got}')
        if b != 'x' and classify(cfg, bytes(b))[0] == {'ok'}:
            return None if got == f'connected {i}' else (
                'c17:connect-result', f'address {i} is granted, _connect gave {got}')
    if got not in ('E:SOCKSFailure', 'E:SOCKSProtocolError', 'E:OSError'):
        return 'c17:connect-result', f'no address is granted, _connect gave {got}'
    return None


CON_POOL = {
    '5': [[5, 0] + [5, 0, 0, 1, 9, 9, 9, 9, 0, 80], [5, 255], [5, 0, 5, 5, 0, 1, 0], [5, 0, 5, 2, 0, 1, 0],
          [4, 0], [5, 0, 5, 0], 'x'],
    '4': [[0, 90] + [0] * 6, [0, 91] + [0] * 6, [0, 92] + [0] * 6, [1, 90] + [0] * 6, [0, 90], 'x', 'v6'],
}


def con_cases(deep):
    for proto in ('5', '4'):
        pool = [tuple(x) if isinstance(x, list) else x for x in CON_POOL[proto]]
        for a in pool:
            yield proto, [a]
            for b in pool:
                yield proto, [a, b]
                if deep or (a != b):
                    for c in pool:
                        yield proto, [a, b, c]


DET_CFG = {'4': '4', '4a': '4a', '5': None}


def oracle_detect(proto, auth, attempts, got):
    """verdict = some attempt's handshake succeeds, or the last attempt is refused by a proxy"""
    if got not in ('True', 'False'):
        return 'c17:detect-verdict', f'_detect_proxy gave {got} instead of a verdict'
    cfg = '4' if proto in ('4', '4a') else ('5a' if auth is not None else '5n')
    last = None
    for a in attempts:
        if a is None:
            last = {'OSError'}
            continue
        allowed, _ = classify(cfg, a)
        if allowed == {'ok'}:
            return None if got == 'True' else ('c17:detect-verdict', 'a handshake succeeds, verdict is not True')
        last = allowed
    if len(last) > 1:
        return None
    want = 'True' if last == {'SOCKSFailure'} else 'False'
    if got != want:
        return 'c17:detect-verdict', f'last attempt ends with {sorted(last)}, verdict {got}'
    return None


# ------------------------------------------------------------------ case generation
def reply5(atyp, n=0, rep=0, fill=7):
    if atyp == 1:
        return [5, rep, 0, 1] + [fill] * 4 + [1, 187]
    if atyp == 4:
        return [5, rep, 0, 4] + [fill] * 16 + [1, 187]
    return [5, rep, 0, 3, n] + [fill] * n + [1, 187]


def prefixes(cfg):
    """(reply bytes that precede the CONNECT reply, index of each decision byte in them)"""
    if cfg == '5n':
        return [[5, 0]]
    return [[5, 0], [5, 2, 1, 0]]


def granting_streams(cfg, lens):
    if cfg in ('4', '4u', '4a'):
        yield [0, 90, 1, 2, 3, 4, 5, 6]
        return
    for pre in prefixes(cfg):
        yield pre + reply5(1)
        yield pre + reply5(4)
        for n in lens:
            yield pre + reply5(3, n)


PAD = [0xEE] * 280


def decision_streams(cfg):
    """every value of every decision byte, the rest of the stream granting (padded so that
    whatever length the mutated byte implies is available)"""
    if cfg in ('4', '4u', '4a'):
        base = [0, 90, 1, 2, 3, 4, 5, 6]
        for pos in range(8):
            vals = range(256) if pos < 2 else (0, 1, 90, 255)
            for v in vals:
                s = list(base)
                s[pos] = v
                yield s
        return
    for pre in prefixes(cfg):
        for atyp, n in ((1, 0), (3, 0), (3, 5), (4, 0)):
            base = pre + reply5(atyp, n)
            npos = len(pre) + 5 if atyp != 3 else len(pre) + 5
            for pos in range(npos):
                for v in range(256):
                    s = list(base)
                    s[pos] = v
                    yield s + PAD


def two_splits(n):
    return [[j, n - j] for j in range(1, n)]


def hs_cases(deep, rng):
    """(cfg, stream, segments)"""
    lens_all = range(256)
    lens_few = (0, 1, 2, 3, 127, 128, 254, 255)
    trailing = ([], [0x16, 3, 1], [0] * 9)
    for cfg in CFGS:
        # granting streams: every bound-address length, trailing bytes, whole / 1-byte
        for s in granting_streams(cfg, lens_all):
            for t in trailing:
                st = s + t
                yield cfg, st, [len(st)]
                yield cfg, st, [1] * len(st)
        # every 2-split (and EOF at every offset) of granting streams
        for s in granting_streams(cfg, lens_all if deep else lens_few):
            st = s + [0x17, 0x03]
            for seg in two_splits(len(st)):
                yield cfg, st, seg
            for cut in range(len(s)):
                yield cfg, s[:cut], [cut] if cut else []
                if cut > 1:
                    yield cfg, s[:cut], [1] * cut
                    if deep or cut % 7 == 0:
                        yield cfg, s[:cut], [cut // 2, cut - cut // 2]
        # every value of every decision byte
        for s in decision_streams(cfg):
            yield cfg, s, [len(s)]
            yield cfg, s, [1] * len(s)
            yield cfg, s, [3, 1, 2, len(s)]
            if deep:
                for j in range(1, 12):
                    yield cfg, s, [j, len(s) - j]
                for cut in range(1, 12):
                    yield cfg, s[:cut], [cut]


def random_stream(rng, cfg):
    """mostly well-formed reply sequences with a few random edits, or raw noise"""
    r = rng.random()
    if r < 0.1:
        return [rng.randrange(256) for _ in range(rng.randint(0, 30))]
    base = rng.choice(list(granting_streams(cfg, (rng.randrange(256), rng.choice((0, 1, 255))))))
    s = list(base)
    for _ in range(rng.choice((0, 0, 1, 1, 2))):
        if s:
            i = min(len(s) - 1, int(rng.expovariate(0.3)))
            s[i] = rng.choice((0, 1, 2, 3, 4, 5, 90, 91, 255, rng.randrange(256)))
    k = rng.random()
    if k < 0.25:
        s = s[:rng.randint(0, len(s))]
    elif k < 0.7:
        s = s + [rng.randrange(256) for _ in range(rng.randint(1, 40))]
    return s


def random_segments(rng, n):
    seg, left = [], n
    mode = rng.random()
    while left > 0:
        k = 1 if mode < 0.3 else rng.randint(1, 4) if mode < 0.7 else rng.randint(1, max(1, left))
        k = min(k, left)
        seg.append(k)
        left -= k
    return seg


def obj_cases(deep, rng):
    """(cfg, chunks): chunks are pushed whenever the object raises NeedData, whatever their size"""
    for cfg in CFGS:
        for s in decision_streams(cfg):
            s = bytes(s[:40])
            yield cfg, [s]
            yield cfg, [s[i:i + 1] for i in range(len(s))]
            if deep:
                yield cfg, [s[:1], s[1:3], s[3:]]
        for s in granting_streams(cfg, range(256) if deep else (0, 1, 2, 100, 254, 255)):
            s = bytes(s + [9, 9])
            for j in range(1, len(s)):
                yield cfg, [s[:j], s[j:]]
            for cut in range(len(s)):
                yield cfg, [s[:cut]]


DET_POOL = {
    '4': [[0, 90] + [0] * 6, [0, 91] + [0] * 6, [4, 90] + [0] * 6, [0, 90, 0], []],
    '5': [[5, 0] + reply5(1), [5, 2, 1, 0] + reply5(1), [5, 255], [5, 2, 1, 1], [5, 0] + reply5(1, rep=5),
          [5, 0, 5, 0, 1, 1], [4, 0], [5], [], [5, 0] + reply5(3, 2)[:6], [5, 0, 5, 2, 0, 1, 0]],
}


def det_cases(deep):
    for proto in ('4', '4a', '5'):
        pool = [bytes(x) for x in DET_POOL['5' if proto == '5' else '4']] + [None]
        auths = (None, ('u', 'p')) if proto == '5' else (None, ('u', 'p'))
        for auth in auths:
            for a in pool:
                yield proto, auth, [a]
                for b in pool:
                    yield proto, auth, [a, b]
                    if deep:
                        for c in pool:
                            yield proto, auth, [a, b, c]


def det_line(proto, auth, attempts):
    return f'det {proto} {sc.enc_auth(auth)} ' + ' '.join(
        'x' if a is None else (a.hex() or '-') for a in attempts)


def corpus_cases(verif):
    path = os.path.join(verif, 'corpus', 'C17.txt')
    out = []
    if os.path.exists(path):
        for line in open(path):
            line = line.split('#')[0].strip()
            if line:
                toks = line.split()
                out.append((toks[0], list(bytes.fromhex(toks[1]) if toks[1] != '-' else b''),
                            [int(x) for x in toks[2].split(',')] if len(toks) > 2 and toks[2] != '_' else []))
    return out


# ------------------------------------------------------------------ evaluation
_mods = None


def _init(repo):
    global _mods
    _mods = sc.Mods(repo)


def _hs_batch(cases):
    out = []
    for cfg, stream, seg in cases:
        stream = bytes(stream)
        outcome, loop = impl_handshake(_mods, cfg, stream, seg)
        bad = oracle_hs(cfg, stream, outcome, loop)
        out.append((fmt_run(outcome, loop), hs_line(cfg, stream, loop), bad, outcome,
                    classify(cfg, stream)))
    return out


def _pool_map(ctx, fn, cases, chunk=4000):
    if len(cases) < 20000 or not ctx.deep:
        _init(ctx.repo)
        return fn(cases)
    nproc = min(8, os.cpu_count() or 1)
    jobs = [cases[i:i + chunk] for i in range(0, len(cases), chunk)]
    with Pool(nproc, initializer=_init, initargs=(ctx.repo,)) as pool:
        parts = pool.map(fn, jobs)
    return [r for p in parts for r in p]


def eval_hs(ctx, cases, res, scope_name):
    cases = list(cases)
    outs = _pool_map(ctx, _hs_batch, cases)
    model = ctx.model([o[1] for o in outs])
    by_stream = {}
    for i, ((cfg, stream, seg), (text, line, bad, outcome, (allowed, H))) in enumerate(zip(cases, outs)):
        cj = {'op': 'hs', 'cfg': cfg, 'stream': bytes(stream).hex(), 'segments': seg}
        if bad:
            res.violation(bad[0], cj, bad[1], impl=text[:300])
        if model is not None and model[i] != text:
            res.disagreement(cj, text[:400], model[i][:400], line=line[:400])
        key = (cfg, bytes(stream))
        prev = by_stream.setdefault(key, outcome)
        if prev != outcome:
            res.violation('c17:segmentation-dependent', cj,
                          f'same reply bytes, outcome {prev} under one segmentation and {outcome} under another')
        res.count('hs_' + outcome)
        res.count('hs_expected_' + '/'.join(sorted(allowed)))
        res.count('hs_with_trailing_bytes', H is not None and len(stream) > H)
        res.count('hs_recv_calls', text.count(':'))
        if len(seg) > 1:
            res.nontrivial((cfg, bytes(stream), tuple(seg)))
    res['evaluations'] += len(cases)
    res['scopes'][scope_name] = res['scopes'].get(scope_name, 0) + len(cases)
    res['scopes'][scope_name + '_distinct_streams'] = \
        res['scopes'].get(scope_name + '_distinct_streams', 0) + len(by_stream)
    return outs


def _obj_batch(cases):
    out = []
    for cfg, chunks in cases:
        o, _raw = impl_object(_mods, cfg, chunks)
        out.append((' '.join(o), oracle_obj(cfg, chunks, o)))
    return out


def eval_obj(ctx, cases, res, scope_name):
    cases = list(cases)
    outs = _pool_map(ctx, _obj_batch, cases)
    model = ctx.model([f'obj {sc.enc_case(CFGS[cfg])} ' + ' '.join((c.hex() or '-') for c in chunks)
                       for cfg, chunks in cases])
    for i, ((cfg, chunks), (text, bad)) in enumerate(zip(cases, outs)):
        cj = {'op': 'obj', 'cfg': cfg, 'chunks': [c.hex() for c in chunks]}
        if bad:
            res.violation(bad[0], cj, bad[1], impl=text[:300])
        if model is not None and model[i] != text:
            res.disagreement(cj, text[:400], model[i][:400])
        last = text.split()[-1] if text else 'empty'
        res.count('obj_' + ('starved' if last[:1] == 'N' and last != 'None' else last[:24]))
    res['evaluations'] += len(cases)
    res['scopes'][scope_name] = res['scopes'].get(scope_name, 0) + len(cases)


def eval_det(ctx, cases, res, scope_name):
    cases = list(cases)
    _init(ctx.repo)
    model = ctx.model([det_line(*c) for c in cases])
    for i, (proto, auth, attempts) in enumerate(cases):
        got = impl_detect(_mods, proto, auth, attempts)
        cj = {'op': 'det', 'proto': proto, 'auth': auth,
              'attempts': [None if a is None else a.hex() for a in attempts]}
        bad = oracle_detect(proto, auth, attempts, got)
        if bad:
            res.violation(bad[0], cj, bad[1], impl=got)
        if model is not None and model[i] != got:
            res.disagreement(cj, got, model[i])
        res.count('det_' + got)
    res['evaluations'] += len(cases)
    res['scopes'][scope_name] = res['scopes'].get(scope_name, 0) + len(cases)


def eval_con(ctx, cases, res, scope_name):
    cases = list(cases)
    _init(ctx.repo)
    outs = [impl_connect(_mods, proto, beh) for proto, beh in cases]
    model = ctx.model([o[0] for o in outs])
    for i, ((proto, beh), (line, got, toks)) in enumerate(zip(cases, outs)):
        cj = {'op': 'con', 'proto': proto,
              'behaviours': [b if isinstance(b, str) else bytes(b).hex() for b in beh]}
        bad = oracle_connect(proto, beh, got)
        if bad:
            res.violation(bad[0], cj, bad[1], impl=got)
        if model is not None and model[i] != got:
            res.disagreement(cj, got, model[i], line=line)
        res.count('con_' + got.split()[0])
    res['evaluations'] += len(cases)
    res['scopes'][scope_name] = res['scopes'].get(scope_name, 0) + len(cases)


RULE = ('hs case = (client configuration, reply stream, segmentation) run through the real '
        '_handshake on a fake loop: outcome, bytes left unread, every (requested, returned) recv '
        'pair and every message sent are compared with the model; obj case = protocol object fed '
        'by hand with chunks of any size; det case = _detect_proxy over a list of attempts.  '
        'Exhaustive: all 256 values of every decision byte, bound-address lengths 0..255, '
        'whole / 1-byte / 2-split segmentations, EOF at every offset, trailing bytes; plus seeded '
        'random streams.  distinct non-trivial = distinct (configuration, stream, segmentation) '
        'with at least two segments; con case = _connect over 1..3 remote addresses whose '
        '_connect_one outcomes (socket / returned exception with its repr / escaped exception) are '
        'observed separately and given to the model')


def run(ctx):
    res = Results()
    rng = ctx.rng
    cc = corpus_cases(ctx.verif)
    if cc:
        eval_hs(ctx, cc, res, 'corpus')
    outs = eval_hs(ctx, hs_cases(ctx.deep, rng), res, 'handshake_exhaustive')
    for o in outs[:1] + outs[len(outs) // 2:len(outs) // 2 + 2]:
        res.sample({'line': o[1][:160], 'impl': o[0][:160]})
    if not res.failed or ctx.deep:
        eval_obj(ctx, obj_cases(ctx.deep, rng), res, 'objects_by_hand')
    eval_det(ctx, det_cases(ctx.deep), res, 'detect_proxy')
    eval_con(ctx, con_cases(ctx.deep), res, 'connect_addresses')
    ngen = 120000 if ctx.deep else 8000
    gen = []
    for _ in range(ngen):
        cfg = rng.choice(list(CFGS))
        s = random_stream(rng, cfg)
        gen.append((cfg, s, random_segments(rng, len(s))))
    eval_hs(ctx, gen, res, 'handshake_generated')
    return res.finish(RULE, exhaustive=not res.failed)


def replay(ctx, case):
    if 'case' in case and isinstance(case['case'], dict):
        case = case['case']
    res = Results()
    op = case.get('op', 'hs')
    if op == 'hs':
        eval_hs(ctx, [(case['cfg'], list(bytes.fromhex(case['stream'])), case['segments'])], res, 'replay')
    elif op == 'obj':
        eval_obj(ctx, [(case['cfg'], [bytes.fromhex(c) for c in case['chunks']])], res, 'replay')
    elif op == 'con':
        eval_con(ctx, [(case['proto'], [b if b in ('x', 'v6') else tuple(bytes.fromhex(b))
                                        for b in case['behaviours']])], res, 'replay')
    else:
        auth = tuple(case['auth']) if case['auth'] else None
        eval_det(ctx, [(case['proto'], auth,
                        [None if a is None else bytes.fromhex(a) for a in case['attempts']])], res, 'replay')
    res.sample(case)
    return res.finish('replay of one recorded case')
