"""C17 correspondence + search: the real handshake, driven through the PUBLIC API only -
`SOCKSProxy.create_connection` and `SOCKSProxy.auto_detect_at_address` on the fake network of
harness/socks_world.py (only the names `asyncio` / `socket` inside `aiorpcx.socks` are replaced;
no private method or attribute of the library is called or read) - and the real protocol
objects driven by hand, vs the Lean model (`drv_c17`); and the property oracle on every
implementation trace.

The oracle is written from the property text and the reply formats of the SOCKS4 protocol note,
RFC 1928 and RFC 1929; it never looks at the model.  Compared with the model (disagreement):
outcome, bytes left unread, bytes sent.  The exact sequence of recv sizes is an implementation
choice (the property bounds it: the oracle's over-read clause) and is only counted."""
import os
from multiprocessing import Pool

from harness.base import Results
from harness import socks_common as sc
from harness import socks_world as sw

V4 = ('4', bytes([1, 2, 3, 4]))
V6 = ('6', bytes(range(16)))
NAME = ('n', 'example.com')
CFGS = {
    '4': ('4', V4, 80, None),
    '4u': ('4', V4, 8080, ('user', 'x')),
    '4a': ('4a', NAME, 80, ('u', 'p')),
    '5n': ('5', NAME, 443, None),
    '5a': ('5', V6, 443, ('user', 'pass')),
}


Livelock = sc.Livelock


# ------------------------------------------------------------------ reply grammar (spec)
def classify(cfg, s):
    """-> (set of acceptable outcomes, handshake length or None).
    Outcomes: 'ok', 'SOCKSFailure', 'SOCKSProtocolError'."""
    PE, FA = {'SOCKSProtocolError'}, {'SOCKSFailure'}
    proto, _h, _p, auth = CFGS[cfg]
    if proto != '5':
        # SOCKS4 reply: VN(=0) CD DSTPORT(2) DSTIP(4); CD 90 = request granted
        if len(s) < 8:
            return PE, None
        if s[0] != 0:
            return PE, None
        return ({'ok'}, 8) if s[1] == 90 else (FA, None)
    offered = (0, 2) if auth is not None else (0,)
    # RFC 1928 s3: VER METHOD
    if len(s) < 2 or s[0] != 5:
        return PE, None
    if s[1] not in offered:
        return FA, None          # X'FF' or a method that was never offered: nothing acceptable
    pos = 2
    if s[1] == 2:
        # RFC 1929 s2: VER(=1) STATUS, 0 = success
        if len(s) < 4 or s[2] != 1:
            return PE, None
        if s[3] != 0:
            return FA, None
        pos = 4
    # RFC 1928 s6: VER REP RSV ATYP BND.ADDR BND.PORT
    r = s[pos:]
    if len(r) < 4:
        return PE, None
    if r[0] != 5 or r[2] != 0 or r[3] not in (1, 3, 4):
        return PE, None
    if r[3] == 1:
        total = 4 + 4 + 2
    elif r[3] == 4:
        total = 4 + 16 + 2
    else:
        total = None if len(r) < 5 else 4 + 1 + r[4] + 2
    complete = total is not None and len(r) >= total
    if r[1] != 0:
        # a refusal; if the stream ends inside it, "refusal" and "early end of stream" both apply
        return (FA if complete else FA | PE), None
    if not complete:
        return PE, None
    return {'ok'}, pos + total


# ------------------------------------------------------------------ implementation side
_world = None
_proxies = {}
FACTORY = sw.Factory()


def world(**kw):
    global _world
    if _world is None:
        _world = sw.World()
    return _world.reset(**kw)


def impl_handshake(mods, cfg, stream, segments):
    """create_connection to one destination through a proxy with one address whose replies are
    `stream` in `segments` -> (outcome, the proxy connection or None)"""
    proto, host, port, auth = CFGS[cfg]
    w = world()
    w.add_call(0, [[('t', stream, segments)]])
    proxy = _proxies.get((id(mods), cfg))
    if proxy is None:
        proxy = _proxies[(id(mods), cfg)] = (sw.make_proxy(mods, proto, auth), sc.host_string(host))
    r = sw.run_one(w, 0, proxy[0].create_connection(FACTORY, proxy[1], port))
    return sw.outcome_name(r, mods.socks), (w.conns[0] if w.conns else None)


def fmt_run(outcome, conn):
    """(comparable text, recv pattern): outcome, unread bytes, concatenated bytes sent"""
    if conn is None:
        return f'{outcome} noconn', '_'
    recvs = ','.join(f'{k}:{n}' for k, n in conn.recvs) or '_'
    # what is left on the socket matters on success only (after a failure it is abandoned)
    unread = (conn.unread.hex() or '-') if outcome == 'ok' else '*'
    return f'{outcome} {unread} {conn.received.hex() or "-"}', recvs


def model_run(line):
    """the driver's `<outcome> <unread> <recvs> <sent;...>` in the same comparable form"""
    toks = line.split()
    if len(toks) != 4:
        return line, '_'
    outcome, unread, recvs, sent = toks
    sent = ''.join(m for m in sent.split(';') if m not in ('-', '_')) or '-'
    if outcome != 'ok':
        unread = '*'
    return f'{outcome} {unread} {sent}', recvs


def hs_line(cfg, stream, conn):
    sizes = ','.join(str(n) for _k, n in (conn.recvs if conn else []) if n > 0) or '_'
    return f'cc {sc.enc_case(CFGS[cfg])} {bytes(stream).hex() or "-"} {sizes}/1'


def oracle_hs(cfg, stream, outcome, conn):
    """None if the property holds on this trace, else (key, why)."""
    allowed, H = classify(cfg, stream)
    if outcome not in ('ok', 'SOCKSFailure', 'SOCKSProtocolError'):
        # no socket-level failure is injected here: the outcome must come from the reply bytes
        return 'c17:other-exception', f'{outcome} escaped the handshake'
    if outcome not in allowed:
        return (f'c17:outcome-{outcome}-expected-{"/".join(sorted(allowed))}',
                f'replies call for {sorted(allowed)}, handshake gave {outcome}')
    if outcome == 'ok':
        if conn is None:
            return 'c17:over-read', 'success reported without a connection'
        got = 0
        for k, n in conn.recvs:
            if k < 1 or k > H - got:
                return ('c17:over-read',
                        f'recv({k}) requested while only {H - got} handshake bytes were outstanding')
            got += n
        if conn.pos != H:
            return 'c17:over-read', f'{conn.pos} bytes taken from the socket, the handshake has {H}'
    return None


def impl_object(mods, cfg, chunks):
    try:
        client = sc.make_client(mods, CFGS[cfg])
    except Exception as e:      # observed
        return ['E:constructor-' + sc.exc_name(e)], []
    out, raw = sc.drive_object(mods, client, chunks, fuel=len(chunks) + 8)
    return out, raw


obj_observable = sc.observable_tokens


def oracle_obj(cfg, chunks, out):
    stream = b''.join(chunks)
    allowed, _H = classify(cfg, stream)
    last = out[-1] if out else ''
    if last != 'None' and last.startswith('N'):
        # starved: must be a stream that ends early
        if 'SOCKSProtocolError' not in allowed:
            return 'c17:object-starved', f'object still wants data though the replies call for {sorted(allowed)}'
        return None
    o = 'ok' if last == 'None' else last[2:] if last.startswith('E:') else last
    if o not in ('ok', 'SOCKSFailure', 'SOCKSProtocolError'):
        return 'c17:other-exception', f'{o} from next_message()'
    if o not in allowed:
        return (f'c17:outcome-{o}-expected-{"/".join(sorted(allowed))}',
                f'replies call for {sorted(allowed)}, object gave {o}')
    return None


# detection: SOCKSProxy.auto_detect_at_address ---------------------------------------------
# an attempt is None (connect refused) | bytes (reply stream) | 's' (socket.socket() raises)
# | ('p', bytes) (the handshake runs, then getpeername() raises)
PHASES = ('5', '4a', '4')       # the order auto_detect_at_address tries the protocols in


def w_attempt(a):
    if a is None:
        return ('x',)
    if a == 's':
        return ('s',)
    if isinstance(a, tuple):
        return ('p', bytes(a[1]), [1] * len(a[1]))
    return ('t', bytes(a), [1] * len(a))


def impl_detect(mods, proto, auth, attempts):
    """detection of protocol `proto` at an address: the phases of the other protocols meet a
    proxy address that refuses every connection"""
    socks = mods.socks
    w = world()
    w.add_call(0, [[w_attempt(a) for a in attempts] if ph == proto else [('x',)] for ph in PHASES])
    try:
        r = sw.run_one(w, 0, socks.SOCKSProxy.auto_detect_at_address(
            mods.util.NetAddress(sw.PROXY_HOST, sw.PROXY_PORT), sc.make_auth(mods, auth)))
    except Livelock:
        return 'Livelock'
    if r[0] == 'exc':
        return 'E:' + sw.outcome_name(r, socks)
    if r[1] is None:
        return 'False'
    if getattr(r[1], 'protocol', None) is mods.cls[proto]:
        return 'True'
    return f'detected-{getattr(getattr(r[1], "protocol", None), "__name__", r[1])}'


# several remote addresses: create_connection(resolve=True) ---------------------------------
# behaviour of one remote address: 'x' | 's' | 'v6' (an IPv6 address: SOCKS4 cannot express it)
# | tuple of reply bytes | ('p', tuple of reply bytes)
def beh_attempt(b):
    if b == 'x':
        return ('x',)
    if b == 's':
        return ('s',)
    if b == 'v6':
        return ('t', b'', [])
    if b and b[0] == 'p':
        return ('p', bytes(b[1]), [])
    return ('t', bytes(b), [])


def dest_info(i, b):
    import socket
    if b == 'v6':
        return (socket.AF_INET6, socket.SOCK_STREAM, 6, '', (f'fd00::{i + 1:x}', 2000 + i, 0, 0))
    return (socket.AF_INET, socket.SOCK_STREAM, 6, '', (f'10.1.0.{i + 1}', 2000 + i))


GRANT_BEH = {'5': tuple([5, 0, 5, 0, 0, 1, 0, 0, 0, 0, 0, 0]), '4': tuple([0, 90] + [0] * 6)}


def run_resolve(mods, proto, behaviours):
    socks = mods.socks
    infos = [dest_info(i, b) for i, b in enumerate(behaviours)]
    w = world(dest_infos={'dest.test': infos})
    w.add_call(0, [[beh_attempt(b)] for b in behaviours])
    proxy = sw.make_proxy(mods, proto, None)
    r = sw.run_one(w, 0, proxy.create_connection(sw.Factory(), 'dest.test', 80, resolve=True))
    return r, w


def impl_connect(mods, proto, behaviours):
    """-> (model line, result of create_connection over all addresses, per-address tokens).
    The per-address outcomes given to the model are OBSERVED, each address alone: `s` it yields
    a connection; `e:<Exc>:<repr id>` it fails and the next address is still tried (seen by
    putting a granting address behind it); `x:<Exc>` it fails and nothing further is tried."""
    socks = mods.socks
    toks, reprs = [], {}
    for b in behaviours:
        r, _w = run_resolve(mods, proto, [b])
        if r[0] == 'ok':
            toks.append('s')
            continue
        name = sw.outcome_name(r, socks)
        r2, _w = run_resolve(mods, proto, [b, GRANT_BEH[proto]])
        if r2[0] == 'ok':
            toks.append(f'e:{name}:{reprs.setdefault(repr(r[1]), len(reprs))}')
        else:
            toks.append('x:' + name)
    r, w = run_resolve(mods, proto, behaviours)
    if r[0] == 'ok':
        # which address: the one the transport's connection was opened for
        conn = getattr(getattr(r[1][0], 'sock', None), 'conn', None)
        remote = getattr(r[1][1], '_remote_address', None)
        idx = None
        for i, b in enumerate(behaviours):
            if remote is not None and str(getattr(remote, 'host', '')) == dest_info(i, b)[4][0]:
                idx = i
        if idx is None and conn is not None:
            # fall back on which resolution of the proxy's address the connection belongs to
            idx = conn.group if conn.group < len(behaviours) else None
        got = f'connected {idx}'
    else:
        got = 'E:' + sw.outcome_name(r, socks)
    return 'con ' + ' '.join(toks), got, toks


def socket_level(b):
    return b in ('x', 's') or (isinstance(b, tuple) and b and b[0] == 'p')


def oracle_connect(proto, behaviours, got):
    """several remote addresses.  Property-level clauses only: success is reported only for an
    address whose replies grant the request; otherwise a SOCKS error - or an OSError, but only
    if some attempt failed at socket level (connect refused, socket() or getpeername() raising):
    the text's "no other exception type escapes".  With a single address the outcome is fixed
    by the replies.  (Which of several failures is reported, and whether an inexpressible address
    aborts the whole call or is skipped, is left to the model comparison.)"""
    cfg = '4' if proto in ('4', '4a') else '5n'

    def granted(b):
        return not isinstance(b, str) and not socket_level(b) and classify(cfg, bytes(b))[0] == {'ok'}
    if got.startswith('connected '):
        tok = got.split()[1]
        i = int(tok) if tok.isdigit() else -1
        if not (0 <= i < len(behaviours)) or not granted(behaviours[i]):
            return 'c17:connect-result', f'_connect reports success ({got}) for an address whose replies do not grant'
        return None
    if got == 'E:OSError':
        if not any(socket_level(b) for b in behaviours):
            return ('c17:oserror-without-socket-failure',
                    'every attempt got as far as the SOCKS handshake (no connect / socket failure), yet a bare '
                    'OSError escaped: the text allows only SOCKSFailure / SOCKSProtocolError here')
        return None
    if got not in ('E:SOCKSFailure', 'E:SOCKSProtocolError'):
        return 'c17:connect-result', f'no address is granted, _connect gave {got}'
    if len(behaviours) == 1 and granted(behaviours[0]):
        return 'c17:connect-result', f'the only address is granted, _connect gave {got}'
    if len(behaviours) == 1 and not isinstance(behaviours[0], str) and not socket_level(behaviours[0]):
        allowed = classify(cfg, bytes(behaviours[0]))[0]
        if got[2:] not in allowed:
            return 'c17:connect-result', f'replies call for {sorted(allowed)}, _connect gave {got}'
    return None


ZERO5 = [5, 0, 5, 0, 0, 1, 0, 0, 0, 0, 0, 0]
CON_POOL = {
    '5': [ZERO5, [5, 0] + [5, 0, 0, 1, 9, 9, 9, 9, 0, 80], [5, 255], [5, 0, 5, 5, 0, 1, 0], [5, 0, 5, 2, 0, 1, 0],
          [4, 0], [5, 0, 5, 0], [5, 0, 5, 5, 0, 1, 0, 0, 0, 0, 0, 0], [5, 0, 5, 1, 0, 1, 0, 0, 0, 0, 0, 0],
          'x', 's', ('p', tuple(ZERO5))],
    '4': [[0, 90] + [0] * 6, [0, 91] + [0] * 6, [0, 92] + [0] * 6, [1, 90] + [0] * 6, [0, 90], 'x', 'v6', 's',
          ('p', tuple([0, 90] + [0] * 6))],
}


def con_cases(deep):
    for proto in ('5', '4'):
        pool = [tuple(x) if isinstance(x, list) else x for x in CON_POOL[proto]]
        for a in pool:
            yield proto, [a]
            for b in pool:
                yield proto, [a, b]
                if deep or (a != b and pool.index(a) % 2 == 0):
                    for c in pool:
                        yield proto, [a, b, c]


def oracle_detect(proto, auth, attempts, got):
    """Property-level clauses only: a verdict (True / False) - an exception may escape only when
    a socket-level fault was injected; True whenever some attempt's replies grant the request
    (and nothing failed at socket level); False when no attempt talks SOCKS at all (every
    attempt refused to connect, or answered with a malformed / truncated reply).  In between
    (a proxy that refuses, several attempts that differ) the verdict is an implementation
    choice, compared with the model."""
    cfg = '4' if proto in ('4', '4a') else ('5a' if auth is not None else '5n')
    sockfault = any(a == 's' or isinstance(a, tuple) for a in attempts)
    if got not in ('True', 'False'):
        if got == 'E:OSError' and sockfault:
            return None
        return 'c17:detect-verdict', f'detection gave {got} instead of a verdict'
    if sockfault:
        return None
    kinds = [{'OSError'} if a is None else classify(cfg, a)[0] for a in attempts]
    if any(k == {'ok'} for k in kinds):
        return None if got == 'True' else ('c17:detect-verdict', 'a handshake succeeds, verdict is not True')
    if all(k in ({'OSError'}, {'SOCKSProtocolError'}) for k in kinds):
        return None if got == 'False' else ('c17:detect-verdict', 'nothing that answered speaks SOCKS, verdict is True')
    return None


# ------------------------------------------------------------------ case generation
def reply5(atyp, n=0, rep=0, fill=7):
    if atyp == 1:
        return [5, rep, 0, 1] + [fill] * 4 + [1, 187]
    if atyp == 4:
        return [5, rep, 0, 4] + [fill] * 16 + [1, 187]
    return [5, rep, 0, 3, n] + [fill] * n + [1, 187]


def prefixes(cfg):
    """(reply bytes that precede the CONNECT reply, index of each decision byte in them)"""
    if cfg == '5n':
        return [[5, 0]]
    return [[5, 0], [5, 2, 1, 0]]


def granting_streams(cfg, lens):
    if cfg in ('4', '4u', '4a'):
        yield [0, 90, 1, 2, 3, 4, 5, 6]
        return
    for pre in prefixes(cfg):
        yield pre + reply5(1)
        yield pre + reply5(1, fill=0)[:8] + [0, 0]      # the all-zero reply most proxies send
        yield pre + reply5(4)
        for n in lens:
            yield pre + reply5(3, n)


PAD = [0xEE] * 280


def decision_streams(cfg):
    """every value of every decision byte, the rest of the stream granting (padded so that
    whatever length the mutated byte implies is available)"""
    if cfg in ('4', '4u', '4a'):
        base = [0, 90, 1, 2, 3, 4, 5, 6]
        for pos in range(8):
            vals = range(256) if pos < 2 else (0, 1, 90, 255)
            for v in vals:
                s = list(base)
                s[pos] = v
                yield s
        return
    for pre in prefixes(cfg):
        for atyp, n in ((1, 0), (3, 0), (3, 5), (4, 0)):
            base = pre + reply5(atyp, n)
            npos = len(pre) + 5 if atyp != 3 else len(pre) + 5
            for pos in range(npos):
                for v in range(256):
                    s = list(base)
                    s[pos] = v
                    yield s + PAD


# faulty values of each decision byte, by its role
FAULTS = {'vn4': (1, 255), 'cd4': (91, 255), 'ver': (1, 4, 255), 'method': (1, 255), 'authver': (0, 5),
          'status': (1, 255), 'rep': (1, 255), 'rsv': (1, 255), 'atyp': (0, 255)}


def double_fault_streams(cfg):
    """two faulty decision bytes in the SAME reply: byte A takes all 256 values while byte B has
    a faulty value - which check wins decides between SOCKSFailure and SOCKSProtocolError"""
    if cfg in ('4', '4u', '4a'):
        base = [0, 90, 1, 2, 3, 4, 5, 6]
        roles = {0: 'vn4', 1: 'cd4'}
        stages = [(base, roles)]
    else:
        stages = []
        for pre in prefixes(cfg):
            base = pre + reply5(1)
            roles = {0: 'ver', 1: 'method'}
            if len(pre) == 4:
                roles.update({2: 'authver', 3: 'status'})
            k = len(pre)
            roles.update({k: 'ver', k + 1: 'rep', k + 2: 'rsv', k + 3: 'atyp'})
            stages.append((base, roles))
    for base, roles in stages:
        # pairs inside one reply: same stage <=> both in 0..1, both in 2..3 (auth), or both in the last four
        def stage(i):
            n = len(base) - 10
            return 0 if i < 2 else (1 if i < n else 2)
        for i in roles:
            for j in roles:
                if i == j or stage(i) != stage(j):
                    continue
                for fb in FAULTS[roles[j]]:
                    for v in range(256):
                        s = list(base)
                        s[i] = v
                        s[j] = fb
                        yield s + PAD[:24]


def two_splits(n):
    return [[j, n - j] for j in range(1, n)]


def hs_cases(deep, rng):
    """(cfg, stream, segments)"""
    lens_all = range(256)
    lens_few = (0, 1, 2, 3, 127, 128, 254, 255)
    trailing = ([], [0x16, 3, 1], [0] * 9)
    for cfg in CFGS:
        # granting streams: every bound-address length, trailing bytes, whole / 1-byte
        for s in granting_streams(cfg, lens_all):
            for t in trailing:
                st = s + t
                yield cfg, st, [len(st)]
                yield cfg, st, [1] * len(st)
        # every 2-split (and EOF at every offset) of granting streams
        for s in granting_streams(cfg, lens_all if deep else lens_few):
            st = s + [0x17, 0x03]
            for seg in two_splits(len(st)):
                yield cfg, st, seg
            for cut in range(len(s)):
                yield cfg, s[:cut], [cut] if cut else []
                if cut > 1:
                    yield cfg, s[:cut], [1] * cut
                    if deep or cut % 7 == 0:
                        yield cfg, s[:cut], [cut // 2, cut - cut // 2]
        # every value of every decision byte
        for s in decision_streams(cfg):
            yield cfg, s, [len(s)]
            yield cfg, s, [1] * len(s)
            yield cfg, s, [3, 1, 2, len(s)]
            if deep:
                for j in range(1, 12):
                    yield cfg, s, [j, len(s) - j]
                for cut in range(1, 12):
                    yield cfg, s[:cut], [cut]
        # two faults in one reply
        if cfg in ('4', '5n', '5a') or deep:
            for k, s in enumerate(double_fault_streams(cfg)):
                yield cfg, s, [len(s)]
                if deep or k % 256 in (0, 1, 2, 4, 5, 90, 91, 255):
                    yield cfg, s, [1] * len(s)


def random_stream(rng, cfg):
    """mostly well-formed reply sequences with a few random edits, or raw noise"""
    r = rng.random()
    if r < 0.1:
        return [rng.randrange(256) for _ in range(rng.randint(0, 30))]
    base = rng.choice(list(granting_streams(cfg, (rng.randrange(256), rng.choice((0, 1, 255))))))
    s = list(base)
    for _ in range(rng.choice((0, 0, 1, 1, 2))):
        if s:
            i = min(len(s) - 1, int(rng.expovariate(0.3)))
            s[i] = rng.choice((0, 1, 2, 3, 4, 5, 90, 91, 255, rng.randrange(256)))
    k = rng.random()
    if k < 0.25:
        s = s[:rng.randint(0, len(s))]
    elif k < 0.7:
        s = s + [rng.randrange(256) for _ in range(rng.randint(1, 40))]
    return s


def random_segments(rng, n):
    seg, left = [], n
    mode = rng.random()
    while left > 0:
        k = 1 if mode < 0.3 else rng.randint(1, 4) if mode < 0.7 else rng.randint(1, max(1, left))
        k = min(k, left)
        seg.append(k)
        left -= k
    return seg


def obj_cases(deep, rng):
    """(cfg, chunks): chunks are pushed whenever the object raises NeedData, whatever their size"""
    for cfg in CFGS:
        for s in decision_streams(cfg):
            s = bytes(s[:40])
            yield cfg, [s]
            yield cfg, [s[i:i + 1] for i in range(len(s))]
            if deep:
                yield cfg, [s[:1], s[1:3], s[3:]]
        for s in granting_streams(cfg, range(256) if deep else (0, 1, 2, 100, 254, 255)):
            s = bytes(s + [9, 9])
            for j in range(1, len(s)):
                yield cfg, [s[:j], s[j:]]
            for cut in range(len(s)):
                yield cfg, [s[:cut]]


DET_POOL = {
    '4': [[0, 90] + [0] * 6, [0, 91] + [0] * 6, [4, 90] + [0] * 6, [0, 90, 0], []],
    '5': [[5, 0] + reply5(1), ZERO5, [5, 2, 1, 0] + reply5(1), [5, 255], [5, 2, 1, 1], [5, 0] + reply5(1, rep=5),
          [5, 0, 5, 0, 1, 1], [4, 0], [5], [], [5, 0] + reply5(3, 2)[:6], [5, 0, 5, 2, 0, 1, 0]],
}


def det_cases(deep):
    for proto in ('4', '4a', '5'):
        base = [bytes(x) for x in DET_POOL['5' if proto == '5' else '4']]
        # socket-level faults: socket.socket() raising, getpeername() raising after a grant /
        # after a refusal
        pool = base + [None, 's', ('p', base[0]), ('p', base[1] if proto != '5' else base[3])]
        auths = (None, ('u', 'p')) if proto == '5' else (None, ('u', 'p'))
        for auth in auths:
            for a in pool:
                yield proto, auth, [a]
                for b in pool:
                    yield proto, auth, [a, b]
                    if deep:
                        for c in pool:
                            yield proto, auth, [a, b, c]


def enc_det_attempt(a):
    if a is None:
        return 'x'
    if a == 's':
        return 's'
    if isinstance(a, tuple):
        return 'p' + (bytes(a[1]).hex() or '-')
    return a.hex() or '-'


def det_line(proto, auth, attempts):
    return f'det {proto} {sc.enc_auth(auth)} ' + ' '.join(enc_det_attempt(a) for a in attempts)


def corpus_cases(verif):
    """-> (hs cases, con cases); a con line is `con <proto> <behaviour> ...`"""
    path = os.path.join(verif, 'corpus', 'C17.txt')
    out, con = [], []
    if os.path.exists(path):
        for line in open(path):
            line = line.split('#')[0].strip()
            if not line:
                continue
            toks = line.split()
            if toks[0] == 'con':
                con.append((toks[1], [dec_beh(t) for t in toks[2:]]))
                continue
            out.append((toks[0], list(bytes.fromhex(toks[1]) if toks[1] != '-' else b''),
                        [int(x) for x in toks[2].split(',')] if len(toks) > 2 and toks[2] != '_' else []))
    return out, con


# ------------------------------------------------------------------ evaluation
_mods = None
_patch = None


def _init(repo):
    """modules of the tree under test, with the fake network patched in for good (this process
    runs nothing else)"""
    global _mods, _patch, _world
    if _mods is not None and _mods.repo == repo:
        return
    _mods = sc.Mods(repo)
    _mods.repo = repo
    _world = None
    _patch = sw.patched(_mods, world())
    _patch.__enter__()


def _hs_batch(cases):
    out = []
    for cfg, stream, seg in cases:
        stream = bytes(stream)
        try:
            with sc.watchdog(5.0):
                outcome, conn = impl_handshake(_mods, cfg, stream, seg)
        except Livelock:
            outcome, conn = 'Livelock', None
        bad = oracle_hs(cfg, stream, outcome, conn)
        text, recvs = fmt_run(outcome, conn)
        out.append((text, hs_line(cfg, stream, conn), bad, outcome, classify(cfg, stream), recvs))
    return out


def _pool_map(ctx, fn, cases, chunk=4000):
    if len(cases) < 20000 or not ctx.deep:
        _init(ctx.repo)
        return fn(cases)
    nproc = min(8, os.cpu_count() or 1)
    jobs = [cases[i:i + chunk] for i in range(0, len(cases), chunk)]
    with Pool(nproc, initializer=_init, initargs=(ctx.repo,)) as pool:
        parts = pool.map(fn, jobs)
    return [r for p in parts for r in p]


class Pending:
    """the model driver running on a batch of lines in the background (it is a separate
    process: the implementation side of the next family runs meanwhile)"""

    def __init__(self, ctx, lines):
        import threading
        self.out, self.err = None, None

        def work():
            try:
                self.out = ctx.model(lines)
            except BaseException as e:      # re-raised in get()
                self.err = e
        self.t = threading.Thread(target=work)
        self.t.start()

    def get(self):
        self.t.join()
        if self.err is not None:
            raise self.err
        return self.out


def eval_hs(ctx, cases, res, scope_name, later=None):
    """later: a list - the comparison with the model is appended to it as a thunk instead of
    being done at once"""
    cases = list(cases)
    outs = _pool_map(ctx, _hs_batch, cases)
    pending = Pending(ctx, [o[1] for o in outs])
    by_stream = {}
    for (cfg, stream, seg), (text, line, bad, outcome, (allowed, H), recvs) in zip(cases, outs):
        cj = {'op': 'hs', 'cfg': cfg, 'stream': bytes(stream).hex(), 'segments': seg}
        if bad:
            res.violation(bad[0], cj, bad[1], impl=text[:300])
        key = (cfg, bytes(stream))
        prev = by_stream.setdefault(key, outcome)
        if prev != outcome:
            res.violation('c17:segmentation-dependent', cj,
                          f'same reply bytes, outcome {prev} under one segmentation and {outcome} under another')
        res.count('hs_' + outcome)
        res.count('hs_expected_' + '/'.join(sorted(allowed)))
        res.count('hs_with_trailing_bytes', H is not None and len(stream) > H)
        res.count('hs_recv_calls', recvs.count(':'))
        if len(seg) > 1:
            res.nontrivial((cfg, bytes(stream), tuple(seg)))
    res['evaluations'] += len(cases)
    res['scopes'][scope_name] = res['scopes'].get(scope_name, 0) + len(cases)
    res['scopes'][scope_name + '_distinct_streams'] = \
        res['scopes'].get(scope_name + '_distinct_streams', 0) + len(by_stream)

    def compare():
        model = pending.get()
        if model is None:
            return
        for i, ((cfg, stream, seg), (text, line, _b, _o, _c, recvs)) in enumerate(zip(cases, outs)):
            mtext, mrecvs = model_run(model[i])
            if mtext != text:
                cj = {'op': 'hs', 'cfg': cfg, 'stream': bytes(stream).hex(), 'segments': seg}
                res.disagreement(cj, text[:400], mtext[:400], line=line[:400])
            res.count('hs_recv_pattern_as_model' if mrecvs == recvs else 'hs_recv_pattern_differs')
    if later is None:
        compare()
    else:
        later.append(compare)
    return outs


def _obj_batch(cases):
    out = []
    for cfg, chunks in cases:
        o, _raw = impl_object(_mods, cfg, chunks)
        out.append((' '.join(o), oracle_obj(cfg, chunks, o)))
    return out


def eval_obj(ctx, cases, res, scope_name, later=None):
    cases = list(cases)
    pending = Pending(ctx, [f'obj {sc.enc_case(CFGS[cfg])} ' + ' '.join((c.hex() or '-') for c in chunks)
                            for cfg, chunks in cases])
    outs = _pool_map(ctx, _obj_batch, cases)
    for (cfg, chunks), (text, bad) in zip(cases, outs):
        if bad:
            cj = {'op': 'obj', 'cfg': cfg, 'chunks': [c.hex() for c in chunks]}
            res.violation(bad[0], cj, bad[1], impl=text[:300])
        last = text.split()[-1] if text else 'empty'
        res.count('obj_' + ('starved' if last[:1] == 'N' and last != 'None' else last[:24]))
    res['evaluations'] += len(cases)
    res['scopes'][scope_name] = res['scopes'].get(scope_name, 0) + len(cases)

    def compare():
        model = pending.get()
        if model is None:
            return
        for i, ((cfg, chunks), (text, _bad)) in enumerate(zip(cases, outs)):
            if obj_observable(model[i].split()) != obj_observable(text.split()):
                cj = {'op': 'obj', 'cfg': cfg, 'chunks': [c.hex() for c in chunks]}
                res.disagreement(cj, text[:400], model[i][:400])
            res.count('obj_need_counts_as_model' if model[i] == text else 'obj_need_counts_differ')
    if later is None:
        compare()
    else:
        later.append(compare)


def det_json(proto, auth, attempts):
    return {'op': 'det', 'proto': proto, 'auth': auth, 'attempts': [enc_det_attempt(a) for a in attempts]}


def eval_det(ctx, cases, res, scope_name):
    cases = list(cases)
    _init(ctx.repo)
    model = ctx.model([det_line(*c) for c in cases])
    for i, (proto, auth, attempts) in enumerate(cases):
        try:
            with sc.watchdog(5.0):
                got = impl_detect(_mods, proto, auth, attempts)
        except Livelock:
            got = 'Livelock'
        cj = det_json(proto, auth, attempts)
        bad = oracle_detect(proto, auth, attempts, got)
        if bad:
            res.violation(bad[0], cj, bad[1], impl=got)
        if model is not None and model[i] != got:
            res.disagreement(cj, got, model[i])
        res.count('det_' + got)
    res['evaluations'] += len(cases)
    res['scopes'][scope_name] = res['scopes'].get(scope_name, 0) + len(cases)


def enc_beh(b):
    if isinstance(b, str):
        return b
    if b and b[0] == 'p':
        return 'p' + bytes(b[1]).hex()
    return bytes(b).hex() or '-'


def dec_beh(t):
    if t in ('x', 's', 'v6'):
        return t
    if t.startswith('p'):
        return ('p', tuple(bytes.fromhex(t[1:])))
    return tuple(bytes.fromhex(t)) if t != '-' else ()


def eval_con(ctx, cases, res, scope_name):
    cases = list(cases)
    _init(ctx.repo)
    outs = []
    for proto, beh in cases:
        try:
            with sc.watchdog(10.0):
                outs.append(impl_connect(_mods, proto, beh))
        except Livelock:
            outs.append(('con x:OSError', 'Livelock', []))
    model = ctx.model([o[0] for o in outs])
    for i, ((proto, beh), (line, got, toks)) in enumerate(zip(cases, outs)):
        cj = {'op': 'con', 'proto': proto, 'behaviours': [enc_beh(b) for b in beh]}
        bad = oracle_connect(proto, beh, got)
        if bad:
            res.violation(bad[0], cj, bad[1], impl=got)
        if model is not None and model[i] != got:
            res.disagreement(cj, got, model[i], line=line)
        res.count('con_' + got.split()[0])
    res['evaluations'] += len(cases)
    res['scopes'][scope_name] = res['scopes'].get(scope_name, 0) + len(cases)


def cc_cases(deep, rng):
    """two or three concurrent create_connection calls on ONE SOCKSProxy object, each meeting
    its own reply stream: every call's outcome must depend on ITS replies only"""
    for cfg in ('5n', '5a', '4'):
        g = list(granting_streams(cfg, (0, 3)))
        grant = bytes(g[0] + [0x16, 3])
        if cfg == '4':
            pool = [grant, bytes([0, 91] + [0] * 6), bytes([1, 90] + [0] * 6), grant[:3], b'']
        else:
            pre = prefixes(cfg)[-1]
            pool = [grant, bytes(g[-1]), bytes(pre + reply5(1, rep=5)), bytes(pre + [5, 0, 1, 1]), bytes(pre[:1]),
                    bytes([5, 255]), bytes(pre + reply5(3, 4))[:len(pre) + 7]]
        for a in pool:
            for b in pool:
                scheds = [[i % 2 for i in range(80)], [0, 0, 0, 1, 1] * 20, []]
                scheds.append([rng.randrange(2) for _ in range(80)])
                if deep:
                    scheds += [[rng.randrange(2) for _ in range(80)] for _ in range(4)]
                for sched in scheds:
                    yield cfg, [a, b], sched
        yield cfg, [pool[0], pool[1], pool[2]], [i % 3 for i in range(120)]


def eval_cc(ctx, cases, res, scope_name):
    cases = list(cases)
    _init(ctx.repo)
    lines, texts, metas = [], [], []
    for cfg, streams, sched in cases:
        proto, host, port, auth = CFGS[cfg]
        w = world(yields=True)
        proxy = sw.make_proxy(_mods, proto, auth)
        coros = {}
        for i, st in enumerate(streams):
            w.add_call(i, [[('t', st, [2, 1, 3])]])
            coros[i] = proxy.create_connection(FACTORY, sc.host_string(host), port)
        try:
            with sc.watchdog(10.0):
                sw.run_interleaved(w, coros, sched)
        except Livelock:
            pass
        cj = {'op': 'cc', 'cfg': cfg, 'streams': [st.hex() for st in streams], 'schedule': sched}
        for i, st in enumerate(streams):
            call = w.calls[i]
            outcome = sw.outcome_name(call.result, _mods.socks)
            conn = call.conns[0] if call.conns else None
            bad = oracle_hs(cfg, st, outcome, conn)
            text, _recvs = fmt_run(outcome, conn)
            if bad:
                res.violation(bad[0], cj, f'call {i} (replies {st.hex() or "-"}): {bad[1]}', impl=text[:300])
            lines.append(hs_line(cfg, st, conn))
            texts.append(text)
            metas.append((cj, i))
        res.count('cc_calls', len(streams))
        res.nontrivial(('cc', cfg, tuple(streams), tuple(sched[:16])))
    model = ctx.model(lines)
    for (cj, i), t, m in zip(metas, texts, model or []):
        mt, _r = model_run(m)
        if mt != t:
            res.disagreement(dict(cj, call=i), t[:400], mt[:400])
    res['evaluations'] += len(cases)
    res['scopes'][scope_name] = res['scopes'].get(scope_name, 0) + len(cases)


RULE = ('hs case = (client configuration, reply stream, segmentation) met by the public '
        'create_connection on a fake network (one proxy address): outcome, bytes left unread and '
        'bytes sent are compared with the model, every (requested, returned) recv pair is judged '
        'by the oracle (never more than the handshake bytes outstanding); obj case = protocol '
        'object fed by hand with chunks of any size; det case = auto_detect_at_address over a '
        'list of attempts incl. socket()/getpeername() failures.  Exhaustive: all 256 values of '
        'every decision byte, alone and with a second faulty byte of the same reply, '
        'bound-address lengths 0..255, whole / 1-byte / 2-split segmentations, EOF at every '
        'offset, trailing bytes; plus seeded random streams.  distinct non-trivial = distinct '
        '(configuration, stream, segmentation) with at least two segments; con case = '
        'create_connection(resolve=True) over 1..3 remote addresses whose individual outcomes '
        '(connection / failure after which the next address is tried, with its repr / failure '
        'that aborts) are observed separately and given to the model; cc case = two or three '
        'concurrent create_connection calls on one proxy object, each with its own reply stream, '
        'interleaved at the awaits of the fake loop by a schedule')


def run(ctx):
    res = Results()
    rng = ctx.rng
    _init(ctx.repo)
    cc, ccon = corpus_cases(ctx.verif)
    if ccon:
        eval_con(ctx, ccon, res, 'corpus')
    if cc:
        eval_hs(ctx, cc, res, 'corpus')
    later = []
    outs = eval_hs(ctx, hs_cases(ctx.deep, rng), res, 'handshake_exhaustive', later)
    for o in outs[:1] + outs[len(outs) // 2:len(outs) // 2 + 2]:
        res.sample({'line': o[1][:160], 'impl': o[0][:160]})
    if not res.failed or ctx.deep:
        eval_obj(ctx, obj_cases(ctx.deep, rng), res, 'objects_by_hand', later)
    eval_det(ctx, det_cases(ctx.deep), res, 'detect_proxy')
    eval_con(ctx, con_cases(ctx.deep), res, 'connect_addresses')
    eval_cc(ctx, cc_cases(ctx.deep, rng), res, 'concurrent_calls_one_proxy')
    ngen = 120000 if ctx.deep else 8000
    gen = []
    for _ in range(ngen):
        cfg = rng.choice(list(CFGS))
        s = random_stream(rng, cfg)
        gen.append((cfg, s, random_segments(rng, len(s))))
    eval_hs(ctx, gen, res, 'handshake_generated', later)
    for compare in later:
        compare()
    return res.finish(RULE, exhaustive=not res.failed)


def replay(ctx, case):
    if 'case' in case and isinstance(case['case'], dict):
        case = case['case']
    res = Results()
    _init(ctx.repo)
    op = case.get('op', 'hs')
    if op == 'hs':
        eval_hs(ctx, [(case['cfg'], list(bytes.fromhex(case['stream'])), case['segments'])], res, 'replay')
    elif op == 'obj':
        eval_obj(ctx, [(case['cfg'], [bytes.fromhex(c) for c in case['chunks']])], res, 'replay')
    elif op == 'con':
        eval_con(ctx, [(case['proto'], [dec_beh(b) for b in case['behaviours']])], res, 'replay')
    elif op == 'cc':
        eval_cc(ctx, [(case['cfg'], [bytes.fromhex(x) for x in case['streams']], case['schedule'])], res, 'replay')
    else:
        auth = tuple(case['auth']) if case['auth'] else None

        def dec(a):
            if a in (None, 'x'):
                return None
            if a == 's':
                return 's'
            if a.startswith('p'):
                return ('p', bytes.fromhex(a[1:]) if a[1:] != '-' else b'')
            return bytes.fromhex(a) if a != '-' else b''
        eval_det(ctx, [(case['proto'], auth, [dec(a) for a in case['attempts']])], res, 'replay')
    res.sample(case)
    return res.finish('replay of one recorded case')
