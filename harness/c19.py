"""C19 correspondence + search.

For every case (a real handler object, a positional list/tuple or a dict of named arguments):

* the IMPLEMENTATION is `aiorpcx.jsonrpc.handler_invocation(handler, Request('m', args))` from
  ctx.repo, followed by calling the invocation it returned;
* the property ORACLE (written from the property text, not from the model) compares that with
  what Python itself does when the handler is REALLY CALLED with those arguments (function
  bodies only return their parameters, so a TypeError can only be a binding error);
* the MODEL is the Lean driver `drv_c19` on the handler's effective signature (as reported by
  `inspect.signature` - the trusted parameter of the model) and the call shape; its verdict must
  equal the implementation's, and its SPEC bit `bindable` must equal the real call's outcome
  (this is what validates the Lean specification against CPython on every run).

Handlers: plain functions, bound methods, `types.MethodType` objects, `functools.partial` objects
(positional and keyword pre-binding, both mixed in one partial, nested partials, partials of bound
methods) materialised with `exec` from every well-formed parameter list up to the scope size;
objects carrying a hand-made `__signature__` for the parameter lists no `def` can produce (model's
explicit TypeError / AttributeError paths).

HISTORIES: argument checking is a pure function of (handler, arguments) in the property, so the
answer must not depend on what was checked before.  For every parameter list one function object
is checked in several binding forms (the plain function, bound to an object with
`types.MethodType`, fetched from an instance, `partial` of each) one after the other, in both
orders and repeatedly, inside ONE import of the module; every single answer is judged by the same
stateless oracle (really calling that very object).  A memo keyed on the underlying function, a
"last signature" shortcut or any other carried state shows up as a wrong answer at some step."""
import inspect
import itertools
import json
import os
import subprocess
import types
from functools import partial
from multiprocessing import Pool

from harness.base import Results, corpus_lines
from tools.facts import c19 as F
from tools.facts.common import fresh_import

NAMES = ('a', 'b', 'c', 'd', 'e', 'f', 'g', 'h', 'i', 'j', 'k', 'l')
ODD_NAMES = ('handler', 'args', 'kwargs', 'func', 'request', 'info', 'cls', 'name', 'params',
             'method', 'session', 'message')
UNKNOWN = 'zz'
SELF = 'self'
INVALID_ARGS = -32602          # the property text fixes both codes
METHOD_NOT_FOUND = -32601
PREVAL = -7                    # value a wrapper pre-binds


# ------------------------------------------------------------------ handler construction
class _Fake:
    """callable whose `inspect.signature` is whatever we say (for parameter lists that no
    `def` can produce)"""
    def __init__(self, sig):
        self.__signature__ = sig

    def __call__(self, *a, **k):
        return ()


def _fake_signature(sig):
    P = inspect.Parameter
    ps = [P(nm, F._KIND_OF_RANK[k], default=(None if d else P.empty)) for k, nm, d in sig]
    return inspect.Signature(ps, __validate_parameters__=False)


def build(wrap, sig):
    """-> (handler, prebound_names) or None when this wrapper does not apply to `sig`.
    prebound_names: positional-or-keyword parameters of the underlying function that the
    wrapper has already filled positionally."""
    sig = [tuple(p) for p in sig]
    if wrap == 'none':
        return None, []
    if wrap == 'plain':
        return F.make(sig), []
    if wrap == 'async':
        # handlers of a session are usually coroutine functions: same binding rules
        ns = {}
        exec('async ' + F.source(sig), ns)
        return ns['f'], []
    if wrap == 'callobj':
        # an instance whose class defines __call__ (inspect reports the bound __call__)
        ns = {}
        exec('class K:\n    ' + F.source(sig, '__call__', first=SELF), ns)
        return ns['K'](), ([] if (sig and sig[0][0] == 0) else [SELF])
    if wrap == 'fake':
        return _Fake(_fake_signature(sig)), []
    if wrap in ('method', 'mpos1'):
        ns = {}
        exec('class K:\n    ' + F.source(sig, 'f', first=SELF), ns)
        h = ns['K']().f
        pre = [] if (sig and sig[0][0] == 0) else [SELF]
        if wrap == 'method':
            return h, pre
        got = _prebind_pos(h, sig, 1)
        return None if got is None else (got[0], pre + got[1])
    f = F.make(sig)
    if wrap == 'mtype':
        # types.MethodType(f, obj): the first positional parameter is bound, as for a method
        got = _prebind_pos(f, sig, 1)
        return None if got is None else (types.MethodType(f, _Obj()), got[1])
    if wrap.startswith('ppos'):
        return _prebind_pos(f, sig, int(wrap[4:]))
    if wrap == 'pnest':
        # partial(partial(f, v), v): nested positional pre-binding
        got = _prebind_pos(f, sig, 2)
        return None if got is None else (partial(partial(f, PREVAL), PREVAL), got[1])
    kinds = {nm: k for k, nm, _ in sig}
    if wrap.startswith('pkw:'):
        name = wrap[4:]
        if kinds.get(name) not in (1, 3):
            return None
        return partial(f, **{name: PREVAL}), []
    if wrap.startswith('pmix:') or wrap.startswith('pnestmix:') or wrap.startswith('pnestkw:'):
        # one positional and one keyword pre-binding: in ONE partial / keyword inside and
        # positional outside / positional inside and keyword outside
        name = wrap.split(':', 1)[1]
        got = _prebind_pos(f, sig, 1)
        if got is None or kinds.get(name) not in (1, 3):
            return None
        slots = [p for p in sig if p[0] in (0, 1)]
        if slots and slots[0][1] == name:
            return None                 # the same parameter twice: a partial that can never be called
        if wrap.startswith('pmix:'):
            h = partial(f, PREVAL, **{name: PREVAL})
        elif wrap.startswith('pnestmix:'):
            h = partial(partial(f, **{name: PREVAL}), PREVAL)
        else:
            h = partial(partial(f, PREVAL), **{name: PREVAL})
        return h, got[1]
    raise ValueError(wrap)


class _Obj:
    """what `types.MethodType` binds a function to"""


def _prebind_pos(f, sig, k):
    slots = [p for p in sig if p[0] in (0, 1)]
    has_vp = any(p[0] == 2 for p in sig)
    if k > len(slots) and not has_vp:
        return None                     # partial(f, ..) that can never be called
    pre = [nm for kd, nm, _ in slots[:k] if kd == 1]
    return partial(f, *([PREVAL] * k)), pre


def wrappers_for(sig):
    out = ['plain', 'method', 'ppos1', 'ppos2', 'mpos1', 'mtype', 'pnest']
    if len(sig) <= 4:
        out += ['async', 'callobj']
    first_kw = next((nm for k, nm, _ in sig if k in (1, 3)), None)
    if first_kw is not None:
        out.append('pkw:' + first_kw)
    last_kw = next((nm for k, nm, _ in reversed(sig) if k in (1, 3)), None)
    if last_kw is not None and last_kw != first_kw:
        out.append('pkw:' + last_kw)
    if last_kw is not None:
        out += ['pmix:' + last_kw, 'pnestmix:' + last_kw, 'pnestkw:' + last_kw]
    return out


# ------------------------------------------------------------------ histories
FORMS = ('plain', 'bound', 'attr', 'pplain', 'pbound')


def history_form(f, sig, form):
    """one binding form of the function object `f` -> (handler, prebound names) or None"""
    if form == 'plain':
        return f, []
    one = _prebind_pos(f, sig, 1)
    if one is None:
        return None
    if form == 'bound':
        return types.MethodType(f, _Obj()), one[1]
    if form == 'attr':
        # a bound method the usual way: the function is a class attribute, fetched from an instance
        return type('K', (), {'f': f})().f, one[1]
    if form == 'pplain':
        return partial(f, PREVAL), one[1]
    if form == 'pbound':
        two = _prebind_pos(f, sig, 2)
        return None if two is None else (partial(types.MethodType(f, _Obj()), PREVAL), two[1])
    raise ValueError(form)


def history_orders(forms=FORMS):
    """every ordered pair of distinct forms, alternated twice (x y x y), and all of them in a row
    forwards and backwards"""
    out = [(x, y, x, y) for x in forms for y in forms if x != y]
    out.append(tuple(forms) + tuple(forms))
    out.append(tuple(reversed(forms)) + tuple(reversed(forms)))
    return out


def history_shapes(eff, pre):
    """a few calls per step: positional counts around the window, all names, all but the first,
    all plus a pre-bound one - enough to tell an answer computed for another binding form"""
    npos = sum(1 for k, _, _ in eff if k in (0, 1))
    shapes = [('T' if c % 2 else 'P', c) for c in range(max(0, npos - 1), npos + 2)]
    names = [nm for k, nm, _ in eff if k in (1, 3)]
    shapes.append(('K', tuple(names)))
    if names:
        shapes.append(('K', tuple(names[1:])))
    if pre:
        shapes.append(('K', tuple(names) + (pre[0],)))
    return shapes


# ------------------------------------------------------------------ one handler, many calls
class Numbering:
    """names -> numbers for the driver (only equality matters)"""
    def __init__(self):
        self.m = {}

    def __call__(self, name):
        if name not in self.m:
            self.m[name] = len(self.m)
        return self.m[name]


def handler_line(eff, pre, num):
    if eff is None:
        return 'N'
    ps = ','.join(f'{k}.{num(nm)}.{int(d)}' for k, nm, d in eff) or '-'
    pb = ','.join(str(num(n)) for n in pre) or '-'
    return f'H{ps};{pb}'


def args_line(args, num):
    if isinstance(args, dict):
        return 'K' + (','.join(str(num(k)) for k in args) or '-')
    return f'P{len(args)}'


def make_args(shape):
    """shape: ('P', n) list / ('T', n) tuple / ('K', names) dict; distinct values so that the
    result of the invocation can be compared with the result of the direct call"""
    if shape[0] == 'K':
        return {nm: 200 + i for i, nm in enumerate(shape[1])}
    vals = [100 + i for i in range(shape[1])]
    return tuple(vals) if shape[0] == 'T' else vals


def observe_impl(jsonrpc, handler, args):
    """-> (verdict string, result)   A+ accepted and the invocation ran; A- accepted and the
    invocation raised TypeError; R<code>; X<ExceptionName>"""
    try:
        inv = jsonrpc.handler_invocation(handler, jsonrpc.Request('m', args))
    except jsonrpc.RPCError as e:
        return f'R{e.code}', None
    except Exception as e:                       # noqa: BLE001 - any escape is an observation
        return 'X' + type(e).__name__, None
    try:
        return 'A+', _finish(inv())
    except TypeError:
        return 'A-', None


def _finish(value):
    """a coroutine function returns a coroutine: run it (the bodies never await) to get the value"""
    if inspect.iscoroutine(value):
        try:
            value.send(None)
        except StopIteration as e:
            return e.value
        finally:
            value.close()
    return value


def really_call(handler, args):
    """-> (binds?, result)"""
    try:
        if isinstance(args, dict):
            return True, _finish(handler(**args))
        return True, _finish(handler(*args))
    except TypeError:
        return False, None


def bind_check(signature, args):
    try:
        if isinstance(args, dict):
            signature.bind(**args)
        else:
            signature.bind(*args)
        return True
    except TypeError:
        return False


def classify_unbindable(eff, pre, args):
    """key of the *input family* of an accepted call that Python cannot bind"""
    if not isinstance(args, dict):
        if any(k == 3 and not d for k, _, d in eff):
            return 'c19:required-kwonly-positional'
        return 'c19:accepted-unbindable-positional'
    if any(k == 3 and not d and nm not in args for k, nm, d in eff):
        return 'c19:required-kwonly-named'
    if any(k == 4 for k, _, _ in eff) and set(args) & set(pre):
        return 'c19:prebound-name-with-varkw'
    return 'c19:accepted-unbindable-named'


def oracle(handler, eff, pre, args, verdict, result, binds, ref_result):
    """The property, on the implementation's own observables.  None = holds; else (key, why)."""
    if handler is None:
        if verdict != f'R{METHOD_NOT_FOUND}':
            return 'c19:no-handler', f'no handler must give RPCError {METHOD_NOT_FOUND}, got {verdict}'
        return None
    named = isinstance(args, dict)
    has_po = any(k == 0 for k, _, _ in eff)
    if verdict.startswith('X'):
        return 'c19:escape:' + verdict[1:], f'{verdict[1:]} escapes handler_invocation'
    if verdict.startswith('R'):
        if verdict != f'R{INVALID_ARGS}':
            return 'c19:refusal-code', f'refusal must carry {INVALID_ARGS}, got {verdict[1:]}'
        if binds and not (named and has_po):
            return 'c19:refused-bindable', 'refused although Python binds this call'
        return None
    if verdict == 'A-':
        return classify_unbindable(eff, pre, args), \
            'accepted, but calling the returned invocation raises TypeError'
    # A+
    if named and has_po:
        return 'c19:named-posonly-accepted', \
            'named arguments accepted for a handler with positional-only parameters'
    if not binds:
        return 'c19:invocation-differs', 'the invocation ran although the direct call cannot bind'
    if result != ref_result:
        return 'c19:invocation-differs', \
            f'invocation returned {result!r}, the direct call {ref_result!r}'
    return None


def call_shapes(eff, pre, extra_names=(UNKNOWN,)):
    """all positional counts 0..n+2 and all subsets of present / pre-bound / unknown names"""
    n = len(eff)
    shapes = [('T' if c % 2 else 'P', c) for c in range(0, n + 3)]
    pool = [nm for _, nm, _ in eff]
    for x in list(pre) + list(extra_names):
        if x not in pool:
            pool.append(x)
    for r in range(len(pool) + 1):
        for sub in itertools.combinations(pool, r):
            shapes.append(('K', sub))
    return shapes


def new_stats():
    return {'hist': {}, 'violations': [], 'disagreements': [], 'n_viol': 0, 'n_dis': 0,
            'evaluations': 0, 'nontrivial': set(), 'viol_keys': {}, 'samples': []}


def _count(st, k, n=1):
    st['hist'][k] = st['hist'].get(k, 0) + n


CAP = 12


def eval_handlers(repo, driver, items):
    """items: list of (wrap, sig, shapes or None).  Runs implementation, oracle, model.
    Returns a stats dict (picklable)."""
    jsonrpc = fresh_import(repo, 'aiorpcx.jsonrpc')
    st = new_stats()
    lines, recs = [], []
    def one_handler(wrap, sig, handler, pre, shapes, mkcase):
        if handler is None:
            eff, signature = None, None
        else:
            try:
                signature = inspect.signature(handler)
            except ValueError:
                # inspect cannot reduce this wrapper (a partial that pre-binds by keyword a name
                # that is positional-only in the function): no signature, outside the property
                _count(st, 'inspect_signature_unavailable')
                return
            eff = F.sig_of(handler)
        if shapes is None:
            shapes = call_shapes(eff or [], pre)
        elif shapes == 'history':
            shapes = history_shapes(eff or [], pre)
        num = Numbering()
        hl = handler_line(eff, pre, num)
        for shape in shapes:
            args = make_args(shape)
            verdict, result = observe_impl(jsonrpc, handler, args)
            if handler is None or wrap == 'fake':
                binds, ref = None, None
            else:
                binds, ref = really_call(handler, args)
            lines.append(hl + ' ' + args_line(args, num))
            recs.append((wrap, sig, shape, eff, pre, verdict, result, binds, ref,
                         None if signature is None or wrap == 'fake'
                         else bind_check(signature, args), mkcase(shape)))

    for wrap, sig, shapes in items:
        if wrap == '@history':
            # shapes = the order of binding forms; ONE function object for the whole history
            order = tuple(shapes)
            f = F.make(sig)
            for step, form in enumerate(order):
                got = history_form(f, [tuple(p) for p in sig], form)
                if got is None:
                    _count(st, 'history_form_not_applicable')
                    continue
                _count(st, 'history_steps')
                one_handler('hist:' + form, sig, got[0], got[1], 'history',
                            lambda shape, step=step: {
                                'wrap': '@history', 'sig': [list(p) for p in sig], 'order': list(order),
                                'step': step, 'args': [shape[0], list(shape[1]) if shape[0] == 'K' else shape[1]]})
            continue
        try:
            got = build(wrap, sig)
        except SyntaxError:
            got = None
        if got is None:
            _count(st, 'wrapper_not_applicable')
            continue
        one_handler(wrap, sig, got[0], got[1], shapes,
                    lambda shape, wrap=wrap, sig=sig: {
                        'wrap': wrap, 'sig': [list(p) for p in sig],
                        'args': [shape[0], list(shape[1]) if shape[0] == 'K' else shape[1]]})
    model = _run_driver(driver, lines)
    for i, (wrap, sig, shape, eff, pre, verdict, result, binds, ref, bnd, case) in enumerate(recs):
        args = make_args(shape)
        st['evaluations'] += 1
        _count(st, 'wrap:' + wrap.split(':')[0])
        _count(st, 'call:' + ('named' if shape[0] == 'K' else 'positional'))
        _count(st, 'impl:' + (verdict if verdict[0] != 'R' else 'refused'))
        if binds is not None:
            _count(st, 'really_binds' if binds else 'really_unbindable')
        if bnd is not None and binds is not None and bnd != binds:
            # inspect.Signature.bind is only a cross-check; the two families where it is known to
            # differ from a real call are named, anything else is reported as unexplained
            _count(st, 'inspect_bind_differs_from_real_call')
            named = isinstance(args, dict)
            if named and binds and not bnd and any(k == 0 and d and nm in args for k, nm, d in eff) \
                    and any(k == 4 for k, _, _ in eff):
                _count(st, 'bind_differs:posonly-default-name-goes-to-varkw')
            elif named and bnd and not binds and set(args) & set(pre):
                _count(st, 'bind_differs:prebound-name')
            else:
                _count(st, 'bind_differs:unexplained')
        # ---- property oracle on the implementation trace (not for hand-made signatures:
        # they are outside the property, only the model's failure paths are compared there)
        if wrap != 'fake':
            bad = oracle(None if wrap == 'none' else True, eff or [], pre, args, verdict,
                         result, binds, ref)
            if bad:
                st['n_viol'] += 1
                st['viol_keys'][bad[0]] = st['viol_keys'].get(bad[0], 0) + 1
                if sum(1 for v in st['violations'] if v['key'] == bad[0]) < CAP:
                    st['violations'].append({'key': bad[0], 'case': case, 'why': bad[1],
                                             'impl': verdict,
                                             'effective_signature': _sig_text(eff)})
        # ---- model vs implementation, spec vs CPython
        if model is not None:
            m = model[i].split(' ')
            if len(m) != 5:
                exp = 'bad-op'
            else:
                mv, _pinned, mb, mc, mwf = m
                exp = mv if mv != 'A' else ('A+' if mb == '1' else 'A-')
                if mc == '1' and verdict == f'R{INVALID_ARGS}':
                    # the recorded known-finding family (`collides`): the model mirrors the
                    # code's acceptance, but an implementation that refuses these unbindable
                    # calls satisfies the property - never a disagreement
                    exp = verdict
                if wrap == 'fake':
                    # only the verdict class is comparable (the fake object accepts any call)
                    exp = 'A' if mv == 'A' else mv
                if wrap not in ('fake', 'none') and mwf != '1':
                    exp = 'model-says-ill-formed'
            got = verdict
            if wrap == 'fake':
                got = {'A+': 'A', 'A-': 'A', 'XTypeError': 'XT', 'XAttributeError': 'XA'}.get(verdict, verdict)
            if exp != got and wrap == 'fake':
                # parameter lists no `def` (and no validated inspect.Signature) can produce are
                # outside the property's quantifier; the model's explicit TypeError /
                # AttributeError paths are compared and the differences COUNTED, not judged: a
                # rewrite of signature_info that keeps every real signature may change them
                _count(st, 'ill_formed_signature_model_differs')
            elif exp != got:
                st['n_dis'] += 1
                if len(st['disagreements']) < CAP:
                    st['disagreements'].append({'case': case, 'impl': got, 'model': model[i],
                                                'what': 'handler_invocation verdict',
                                                'effective_signature': _sig_text(eff)})
            if binds is not None and len(m) == 5 and (m[2] == '1') != binds:
                st['n_dis'] += 1
                if len(st['disagreements']) < CAP:
                    st['disagreements'].append({'case': case, 'impl': f'real call binds={binds}',
                                                'model': model[i], 'what': 'SPEC bindable vs CPython',
                                                'effective_signature': _sig_text(eff)})
        if eff and len(eff) >= 2 and verdict != 'R' + str(METHOD_NOT_FOUND):
            st['nontrivial'].add(json.dumps(case, sort_keys=True))
        if len(st['samples']) < 3 and i % 997 == 5:
            st['samples'].append({'case': case, 'impl': verdict,
                                  'model': model[i] if model else None})
    st['model_lines'] = len(lines) if model is not None else 0
    st['nontrivial'] = len(st['nontrivial'])
    return st


def _sig_text(eff):
    if eff is None:
        return None
    return ','.join(f'{F.KINDS[k]}:{nm}{"=" if d else ""}' for k, nm, d in eff)


def _run_driver(driver, lines):
    if driver is None:
        return None
    if not lines:
        return []
    p = subprocess.run([driver], input=('\n'.join(lines) + '\n').encode(),
                       stdout=subprocess.PIPE, stderr=subprocess.PIPE, timeout=1800)
    if p.returncode != 0:
        raise RuntimeError(f'driver exited {p.returncode}: {p.stderr.decode()[:300]}')
    out = p.stdout.decode().split('\n')
    if out and out[-1] == '':
        out.pop()
    if len(out) != len(lines):
        raise RuntimeError(f'driver returned {len(out)} lines for {len(lines)} inputs')
    return out


def _job(a):
    return eval_handlers(*a)


def merge(res, ctx, st):
    for k, v in st['hist'].items():
        res.count(k, v)
    for v in st['violations']:
        res.violation(v['key'], v['case'], v['why'], impl=v['impl'],
                      effective_signature=v['effective_signature'])
    res.n_violations += st['n_viol'] - len(st['violations'])
    for d in st['disagreements']:
        res.disagreement(d['case'], d['impl'], d['model'], what=d['what'],
                         effective_signature=d['effective_signature'])
    res.n_disagreements += st['n_dis'] - len(st['disagreements'])
    for k, n in st['viol_keys'].items():
        res.count('violation:' + k, n)
    res['evaluations'] += st['evaluations']
    res['_nontrivial'] = res.get('_nontrivial', 0) + st['nontrivial']
    for s in st['samples']:
        res.sample(s)
    ctx.model_lines += st['model_lines']
    ctx.model_calls += 1 if st['model_lines'] else 0


def run_items(ctx, res, items, parallel=False):
    if not items:
        return
    if parallel and len(items) > 400:
        nproc = min(8, os.cpu_count() or 1)
        size = max(50, len(items) // (nproc * 6))
        jobs = [(ctx.repo, ctx.driver_path, items[i:i + size]) for i in range(0, len(items), size)]
        with Pool(nproc) as pool:
            for st in pool.imap_unordered(_job, jobs):
                merge(res, ctx, st)
    else:
        merge(res, ctx, eval_handlers(ctx.repo, ctx.driver_path, items))


# ------------------------------------------------------------------ corpus
def parse_corpus_line(line):
    """`<wrap> <sig> <args>`: sig `-` or `k.name.d,...`; args `P<n>` `T<n>` `K-` `K<n1,n2>`;
    `@history <sig> <form>,<form>,...`: one function checked in these binding forms in this order"""
    wrap, sg, ar = line.split()
    sig = [] if sg == '-' else [(int(k), nm, d == '1') for k, nm, d in
                                (x.split('.') for x in sg.split(','))]
    if wrap == '@history':
        return wrap, sig, tuple(ar.split(','))
    if ar[0] in 'PT':
        shape = (ar[0], int(ar[1:]))
    else:
        shape = ('K', tuple(x for x in ar[1:].split(',') if x and x != '-'))
    return wrap, sig, [shape]


def case_to_item(case):
    if case['wrap'] == '@history':
        # the whole history is replayed (the failing step depends on the steps before it)
        return '@history', [tuple(p) for p in case['sig']], tuple(case['order'])
    a = case['args']
    shape = (a[0], tuple(a[1])) if a[0] == 'K' else (a[0], int(a[1]))
    return case['wrap'], [tuple(p) for p in case['sig']], [shape]


# ------------------------------------------------------------------ generators
def random_item(rng):
    """a larger signature (up to 12 parameters) under a random wrapper, with mostly-valid calls:
    positional counts around the window, name sets = required names plus/minus a few"""
    n_po = rng.choice((0, 0, 0, 1, 2))
    n_pk = rng.randint(0, 5)
    n_ko = rng.choice((0, 0, 1, 2, 3))
    first_default = rng.randint(0, n_po + n_pk) if rng.random() < 0.7 else n_po + n_pk
    sig = []
    for i in range(n_po + n_pk):
        sig.append((0 if i < n_po else 1, NAMES[len(sig)], i >= first_default))
    if rng.random() < 0.4:
        sig.append((2, 'r', False))
    for _ in range(n_ko):
        sig.append((3, NAMES[len(sig)], rng.random() < 0.6))
    if rng.random() < 0.4:
        sig.append((4, 'kw', False))
    if not F.well_formed(sig):
        return None
    wrap = rng.choice(wrappers_for(sig))
    got = build(wrap, sig)
    if got is None:
        return None
    handler, pre = got
    try:
        eff = F.sig_of(handler)
    except ValueError:
        return None
    npos = sum(1 for k, _, _ in eff if k in (0, 1))
    nreq = sum(1 for k, _, d in eff if k in (0, 1) and not d)
    shapes = []
    for c in {max(0, nreq - 1), nreq, npos, npos + 1, rng.randint(0, npos + 2)}:
        shapes.append((rng.choice('PT'), c))
    req = [nm for k, nm, d in eff if k in (1, 3) and not d]
    opt = [nm for k, nm, d in eff if k in (1, 3) and d]
    odd = [UNKNOWN, 'a b', '', 'ä', '1', 'class', 'kw', 'r'] + list(pre) + \
          [nm for k, nm, _ in eff if k in (0, 2, 4)]
    for _ in range(6):
        names = list(req)
        r = rng.random()
        if r < 0.35 and names:
            names.remove(rng.choice(names))
        names += [o for o in opt if rng.random() < 0.5]
        if rng.random() < 0.4:
            names.append(rng.choice(odd))
        rng.shuffle(names)
        shapes.append(('K', tuple(dict.fromkeys(names))))
    return wrap, sig, shapes


def ill_formed_items(maxn):
    """every parameter list (any order of kinds, any defaults) up to maxn parameters that a
    `def` cannot produce, carried by a hand-made __signature__"""
    out = []
    for n in range(1, maxn + 1):
        for kinds in itertools.product(range(5), repeat=n):
            for defs in itertools.product((False, True), repeat=n):
                sig = [(k, NAMES[i], d) for i, (k, d) in enumerate(zip(kinds, defs))]
                if F.well_formed(sig) or any(k in (2, 4) and d for k, _, d in sig):
                    continue            # (inspect.Parameter itself refuses `*args=default`)
                shapes = [('P', 0), ('T', 1), ('P', n + 1), ('K', ()), ('K', (NAMES[0],)),
                          ('K', tuple(NAMES[:n])), ('K', (UNKNOWN,))]
                out.append(('fake', sig, shapes))
    return out


REPO_TEST_HANDLERS = '''
def add_3(x, y, z=0): return (x, y, z)
def add_many(first, second=0, *values): return (first, second, values)
def echo_2(first, *, second=2): return (first, second)
def kwargs(start, *kwargs): return (start, kwargs)
def both(start=2, *args, **kwargs): return (start, args, kwargs)
'''


def out_of_scope_probes(ctx, res):
    """Things the property's quantifier excludes; measured and reported, never judged."""
    jsonrpc = fresh_import(ctx.repo, 'aiorpcx.jsonrpc')
    notes = {}

    def f(a, **kw):
        return ()

    def g(a):
        return ()
    for label, h, args in [
            ('nonstr_key_with_varkw', f, {'a': 1, 1: 2}),
            ('nonstr_key_no_varkw', g, {'a': 1, 1: 2}),
            ('none_key_no_varkw', g, {None: 1}),
            ('builtin_pow_positional', pow, [2, 5]),
            ('builtin_pow_named', pow, {'base': 2, 'exp': 5}),
            ('builtin_type_dict', dict, [1]),
            ('builtin_type_int', int, [1]),
            ('builtin_max', max, [1, 2])]:
        v, _ = observe_impl(jsonrpc, h, args)
        notes[label] = v
    res['scopes']['out_of_scope_observed'] = notes


RULE = ('case = (wrapper, underlying parameter list, call shape); handlers are real objects '
        '(exec); exhaustive over every well-formed parameter list up to the stated size under '
        'each wrapper (plain function, bound method, types.MethodType, partial with 1/2 positional, '
        'nested partial, partial of a bound method, partial with a keyword, partial mixing a '
        'positional and a keyword pre-binding in one / nested either way) x positional counts '
        '0..n+2 (list and tuple) x every subset of {parameter names, names the wrapper pre-bound, an '
        'unknown name}; HISTORIES: one function object per parameter list checked as plain function / '
        'MethodType / instance attribute / partial of each, every ordered pair alternated twice and '
        'all forms in a row both ways, each step judged by really calling that object; plus '
        'ill-formed parameter lists through __signature__ and seeded random larger signatures '
        'with mostly-valid calls; non-trivial = effective signature has >= 2 parameters and a '
        'handler exists; distinct = distinct (wrapper or history step, parameter list, call shape)')


def known_keys(ctx):
    try:
        with open(os.path.join(ctx.verif, 'known_findings.json')) as f:
            return {k['key'] for k in json.load(f).get('known', []) if k.get('property') == 'C19'}
    except OSError:
        return set()


def unlisted_failure(ctx, res):
    """something failed that is not a recorded known finding (then scopes stop growing)"""
    if res.n_disagreements:
        return True
    known = known_keys(ctx)
    return any(k.startswith('violation:') and k[len('violation:'):] not in known and n
               for k, n in res['histogram'].items())


def need_model(ctx):
    """not having the driver is toolchain trouble (exit 2), never a quiet pass without the model"""
    if not ctx.have_model and not os.environ.get('VERIF_ALLOW_NO_MODEL'):
        from lib.vcheck import MachineryError
        raise MachineryError('the model driver drv_c19 could not be built (lake build drv_c19)')


def history_items(maxn):
    out = []
    for n in range(1, maxn + 1):
        for sig in F.all_signatures(n, NAMES):
            if sig[0][0] in (0, 1) or any(k == 2 for k, _, _ in sig):
                out += [('@history', sig, order) for order in history_orders()]
    return out


def run(ctx):
    need_model(ctx)
    res = Results()
    rng = ctx.rng
    # (a) corpus: minimised past failures (F16 and the pre-bound-name finding) first
    items = [parse_corpus_line(l) for l in corpus_lines(ctx.verif, 'C19')]
    run_items(ctx, res, items)
    res['scopes']['corpus'] = len(items)
    thorough = ctx.tier == 'thorough'
    # lib/vcheck.py re-runs a drifted quick tier at depth only when the first pass found nothing,
    # and the recorded known finding always makes this harness "find something": look deeper in
    # the first pass already when the source drifted or an obligation broke
    deep = ctx.deep or bool(ctx.deep_reasons)
    # no handler at all (list, tuple, dict)
    run_items(ctx, res, [('none', [], [('P', 0), ('T', 2), ('K', ()), ('K', ('a',))])])
    # (b) exhaustive small scopes, smallest first; stop growing once something failed that is
    # not a recorded known finding
    maxn = 6 if thorough else 5
    done = -1
    nsig = 0
    for n in range(0, maxn + 1):
        if unlisted_failure(ctx, res) and n > 3:
            break
        sigs = list(F.all_signatures(n, NAMES))
        nsig += len(sigs)
        items = [(w, s, None) for s in sigs for w in wrappers_for(s)]
        run_items(ctx, res, items, parallel=True)
        done = n
    extra = {}
    if deep and not unlisted_failure(ctx, res):
        sigs = list(F.all_signatures(maxn + 1, NAMES))
        extra = {'parameters': maxn + 1, 'signatures': len(sigs), 'wrappers': ['plain', 'method']}
        run_items(ctx, res, [(w, s, None) for s in sigs for w in ('plain', 'method')],
                  parallel=True)
    res['scopes']['exhaustive'] = {'max_parameters': done, 'signatures': nsig,
                                   'wrappers': ['plain', 'async (<= 4)', 'callobj (<= 4)', 'method', 'mtype', 'ppos1', 'ppos2', 'pnest',
                                                'mpos1', 'pkw:first', 'pkw:last', 'pmix:last',
                                                'pnestmix:last', 'pnestkw:last'],
                                   'one_size_more_plain_and_method_only': extra}
    # (b'') the same small scopes with parameter names that the library's own code uses for its
    # locals and parameters (a peer-supplied name must never collide with library internals)
    odd = [(w, sg, None) for n in range(1, 4) for sg in F.all_signatures(n, ODD_NAMES)
           for w in ('plain', 'method', 'pkw:last')]
    run_items(ctx, res, odd, parallel=True)
    res['scopes']['library_internal_names'] = {'names': list(ODD_NAMES), 'items': len(odd)}
    # (b') histories: the same function object in several binding forms, one after the other
    hmax = 2 if unlisted_failure(ctx, res) else (4 if deep else 3)
    hist = history_items(hmax)
    run_items(ctx, res, hist, parallel=True)
    res['scopes']['histories'] = {'max_parameters': hmax, 'histories': len(hist),
                                  'forms': list(FORMS), 'orders_per_function': len(history_orders())}
    # handlers of the repo's own test (tests/test_jsonrpc.py::test_handler_invocation)
    ns = {}
    exec(REPO_TEST_HANDLERS, ns)
    own = [('plain', F.sig_of(ns[name]), None)
           for name in ('add_3', 'add_many', 'echo_2', 'kwargs', 'both')]
    run_items(ctx, res, own)
    res['scopes']['repo_test_handlers'] = len(own)
    out_of_scope_probes(ctx, res)
    failed = unlisted_failure(ctx, res)
    # (c) ill-formed parameter lists: the model's TypeError / AttributeError paths
    bad = ill_formed_items(2 if failed else 4 if deep else 3)
    run_items(ctx, res, bad, parallel=deep)
    res['scopes']['ill_formed_signatures'] = len(bad)
    # (d) seeded random larger signatures, mostly-valid calls + odd names
    ngen = 300 if failed else 6000 if deep else 1200
    gen = []
    while len(gen) < ngen:
        it = random_item(rng)
        if it is not None:
            gen.append(it)
    run_items(ctx, res, gen, parallel=deep and not failed)
    res['scopes']['generated_handlers'] = ngen
    res._nontrivial = set(range(res.pop('_nontrivial', 0)))
    return res.finish(RULE, exhaustive=(done == maxn))


def replay(ctx, case):
    need_model(ctx)
    if 'case' in case and isinstance(case['case'], dict):
        case = case['case']
    elif 'wrap' not in case and case.get('disagreements'):
        case = case['disagreements'][0]['case']
    res = Results()
    run_items(ctx, res, [case_to_item(case)])
    res.sample(case)
    res._nontrivial = set(range(res.pop('_nontrivial', 0)))
    return res.finish('replay of one recorded case')
