"""Shared machinery for C09 / C10: drive a real `aiorpcx.curio.TaskGroup` with scripted members
through environment actions on the virtual loop (one action, then run until the loop is idle),
log what happened (including the order in which tasks were cancelled - the set-iteration input
of the model), serialise the same action list for the Lean monitor `drv_c09`.

Action tuples (ids are ints):
    ('S', i, daemon, ((child_id, child_daemon), ...))   spawn member i
    ('F', i, 'n'|'v'|'e')    member i returns None / returns a value / raises
    ('X', i)                 task.cancel() on member i from outside the group
    ('Y', i)                 member i's slow reaction to cancellation ends
    ('J',)                   a task calls group.join()
    ('E', raised)            a task runs group.__aexit__ (body raised or not)
    ('K',)                   the joining task is cancelled
    ('N', k)                 a task calls group.next_done()  (consumer k)
    ('R', c)                 another task (sweeper c) calls group.cancel_remaining()
    ('A', i, other)          the task of member i (finished or not) is handed to the group AGAIN
                             (other=True: to a second group) - the library must refuse it
J, E and N may carry a trailing tuple of adds ((i, 'n'|'v'|'e'), ...): tasks that have ALREADY
FINISHED (outside the group) are put into the group with `add_task` and the call follows in the
same coroutine without yielding in between (serialised for the model as `S + F + ... + J`).
"""
import asyncio

from harness import vloop
from tools.facts.common import fresh_import

WAIT = {'all': all, 'any': any, 'object': object, 'none': None}
# what a member that "returns a value" returns: truthy and falsy-but-not-None objects
VALUES = [lambda i: ('value', i), lambda i: 0, lambda i: KeyError('returned, not raised', i),
          lambda i: False, lambda i: asyncio.CancelledError('returned, not raised'),
          lambda i: '', lambda i: [], lambda i: 0.0, lambda i: i + 1]


class MemberStop(BaseException):
    """what some scripted members raise: neither an Exception nor a CancelledError"""


def raised_name(i):
    return 'MemberStop' if i % 4 == 2 else 'KeyError'


def same_value(a, b):
    """equality that also works for returned exception instances"""
    if isinstance(a, BaseException) or isinstance(b, BaseException):
        return type(a) is type(b) and a.args == b.args
    return a == b and type(a) is type(b)


class Impl:
    def __init__(self, repo, policy, retain=False):
        self.curio = fresh_import(repo, 'aiorpcx.curio')
        self.loop = vloop.VLoop()
        asyncio.set_event_loop(self.loop)
        self.cancel_log = []
        outer = self

        # members the *library* has asked to cancel (the harness's own cancels - actions X and K,
        # teardown - are made with `by_harness` set); decides, from behaviour, whether the group
        # had already begun stopping when the joiner was cancelled (F11) - no library names
        self.by_harness = False
        self.group_cancelled = set()

        class LoggingTask(asyncio.Task):
            def cancel(self, msg=None):
                outer.cancel_log.append(self)
                # ... by the task that runs join()/__aexit__ (not by a member's own inner
                # timeout, not by another task's cancel_remaining())
                if not outer.by_harness and outer.joiner is not None \
                        and asyncio.current_task(outer.loop) is outer.joiner:
                    outer.group_cancelled.add(self)
                return super().cancel(msg)

        self.loop.set_task_factory(lambda loop, coro, **kw: LoggingTask(coro, loop=loop, **kw))
        self.policy = policy
        self.g = self.curio.TaskGroup(wait=WAIT[policy], retain=retain)
        self.gate, self.gate2, self.task = {}, {}, {}
        self.daemon = {}
        self.status = {}          # i -> run | canc | done   (tracked from observations)
        self.outcome = {}
        self.ext_cancelled = set()
        self.obs = []
        self.joiner = None
        self.join_kind = None
        self.join_state = None    # None | active | cancelled | exited
        self.consumers = {}
        self.sweepers = {}
        self.g2 = None            # a second group (only for action A)
        self.readds = 0
        self.log = []             # completion order of non-daemon members
        self.yielded = []         # (consumer k, member) in order

    # ------------------------------------------------------------------ plumbing
    def idle(self):
        """run the loop at constant virtual time until nothing is ready and no timer is due"""
        for _ in range(20000):
            self.loop.call_soon(self.loop.stop)
            self.loop.run_forever()
            now = self.loop.time()
            due = any(not h.cancelled() and h.when() <= now for h in self.loop._scheduled)
            if not self.loop._ready and not due:
                return
        raise vloop.Livelock('loop never goes idle')

    def ident(self, task):
        for i, t in self.task.items():
            if t is task:
                return i
        return None

    async def member(self, i, children):
        CancelledError = self.curio.CancelledError
        if i % 3 == 1 and i < 100:
            # an inner timeout that expired and was handled before the member settles down
            async with self.curio.ignore_after(0):
                await self.curio.sleep(5)
        try:
            k = await self.gate[i]
        except CancelledError:
            self.obs.append(f'cr{i}')
            self.status[i] = 'canc'
            for (j, d) in children:
                try:
                    self.mk(j, d, ())
                except RuntimeError:
                    self.obs.append(f'sr{j}')
                    self.drop(j)
                    raise KeyError(i)
            try:
                await self.gate2[i]
            except CancelledError:
                pass
            raise
        if k == 'e':
            # every fourth member fails with a class derived directly from BaseException (asyncio
            # stores it in the task like any other): "a member raises" is not "raises an Exception"
            raise MemberStop(i) if i % 4 == 2 else KeyError(i)
        return None if k == 'n' else VALUES[i % len(VALUES)](i)

    def drop(self, j):
        t = self.task.pop(j)
        self.by_harness = True
        t.cancel()
        self.by_harness = False
        self.status.pop(j, None)
        self.daemon.pop(j, None)

    def mk(self, i, daemon, children):
        self.gate[i] = self.loop.create_future()
        self.gate2[i] = self.loop.create_future()
        t = self.loop.create_task(self.member(i, children))
        t._daemon = daemon
        self.task[i] = t
        self.daemon[i] = daemon
        self.status[i] = 'run'
        t.add_done_callback(lambda t, i=i: self._done(i, t))
        self.g._add_task(t)

    def mk_done(self, i, oc):
        """a task that has already finished (returned None / a value / raised) and belongs to no
        group yet"""
        self.gate[i] = self.loop.create_future()
        self.gate2[i] = self.loop.create_future()
        t = self.loop.create_task(self.member(i, ()))
        self.gate[i].set_result(oc)
        for _ in range(50):
            if t.done():
                break
            self.idle()
        return t

    async def _add_finished(self, adds):
        for (i, oc), t in adds:
            self.task[i] = t
            self.daemon[i] = False
            self._done(i, t)
            await self.g.add_task(t)

    def _done(self, i, t):
        if i not in self.task or self.task[i] is not t:
            return
        self.status[i] = 'done'
        if t.cancelled():
            self.outcome[i] = 'c'
        elif t.exception() is not None:
            self.outcome[i] = 'e'
        else:
            self.outcome[i] = 'n' if t.result() is None else 'v'
        if not self.daemon[i]:
            self.log.append(i)

    async def _join(self, kind, raised, adds=()):
        CancelledError = self.curio.CancelledError
        try:
            await self._add_finished(adds)
            if kind == 'J':
                await self.g.join()
            elif raised == 'c':
                exc = CancelledError()
                await self.g.__aexit__(CancelledError, exc, None)
            elif raised:
                exc = KeyError('body')
                await self.g.__aexit__(KeyError, exc, None)
            else:
                await self.g.__aexit__(None, None, None)
            self.obs.append('jx0')
            self.join_state = 'exited'
        except CancelledError:
            self.obs.append('jx1')
            self.join_state = 'exited'
        except BaseException as e:      # join must never raise anything else
            self.obs.append('jxERR:' + type(e).__name__)
            self.join_state = 'exited'

    async def _nextdone(self, k, adds=()):
        await self._add_finished(adds)
        t = await self.g.next_done()
        m = None if t is None else self.ident(t)
        self.obs.append(f'nd{k}={"N" if t is None else m}')
        if t is not None:
            self.yielded.append((k, m))

    def joiner_waits_in(self):
        """name of the innermost repo coroutine the joiner is suspended in (oracle
        classification only)"""
        if self.joiner is None or self.joiner.done():
            return None
        names = []
        c = self.joiner.get_coro()
        while c is not None and hasattr(c, 'cr_code'):
            names.append(c.cr_code.co_name)
            c = c.cr_await
        return names

    # ------------------------------------------------------------------ one action
    def act(self, a):
        self.obs = []
        self.cancel_log = []
        k = a[0]
        pre_wait = self.joiner_waits_in()
        # the group is awaiting members it has cancelled (its clean-up sweep is under way)
        pre_sweep = any(not t.done() for t in self.group_cancelled)
        if k in ('F', 'X', 'Y', 'A') and a[1] not in self.task:
            # a recorded trace names a member that does not exist on this tree (e.g. a child that
            # is only spawned when its parent is cancelled, and the parent never was): that is an
            # observation (the model will disagree), not a reason for the harness to crash
            self.obs.append(f'missing{a[1]}')
        elif k == 'S':
            try:
                self.mk(a[1], a[2], a[3])
            except RuntimeError:
                self.obs.append(f'sr{a[1]}')
                self.drop(a[1])
        elif k == 'F':
            self.gate[a[1]].set_result(a[2])
        elif k == 'X':
            self.ext_cancelled.add(a[1])
            self.by_harness = True
            self.task[a[1]].cancel()
            self.by_harness = False
        elif k == 'Y':
            self.gate2[a[1]].set_result(None)
        elif k in ('J', 'E'):
            self.join_kind = k
            self.join_state = 'active'
            adds = adds_of(a)
            made = [((i, oc), self.mk_done(i, oc)) for i, oc in adds]
            self.joiner = self.loop.create_task(self._join(k, a[1] if k == 'E' else False, made))
        elif k == 'K':
            if self.join_state == 'active':
                self.join_state = 'cancelled'
            self.by_harness = True
            self.joiner.cancel()
            self.by_harness = False
        elif k == 'R':
            self.sweepers[a[1]] = self.loop.create_task(self.g.cancel_remaining())
        elif k == 'A':
            self.readds += 1
            if a[2] and self.g2 is None:
                self.g2 = self.curio.TaskGroup(wait=WAIT[self.policy])
            try:
                (self.g2 if a[2] else self.g)._add_task(self.task[a[1]])
                self.obs.append(f'ra{a[1]}')        # accepted a second time
            except RuntimeError:
                self.obs.append(f'rr{a[1]}')        # refused (the model answers `sr`: see rec_key use)
        elif k == 'N':
            made = [((i, oc), self.mk_done(i, oc)) for i, oc in adds_of(a)]
            self.consumers[a[1]] = self.loop.create_task(self._nextdone(a[1], made))
            self.idle()
            if not self.consumers[a[1]].done():
                self.obs.append(f'nb{a[1]}')
        self.idle()
        # order of the cancellations; a member cancelled by several sweeps of the same reaction
        # (another task's cancel_remaining(), then join's clean-up) counts where it was cancelled
        # LAST: only a sweep that finishes members fixes a completion order, and a member it
        # finishes is not touched by a later one
        perm = []
        for t in reversed(self.cancel_log):
            i = self.ident(t)
            if i is not None and i not in perm:
                perm.append(i)
        perm.reverse()
        comp = self.g.completed
        rec = {
            'obs': tuple(sorted(self.obs)),
            'joined': bool(self.g.joined),
            'completed': None if comp is None else self.ident(comp),
            'done': frozenset(i for i, t in self.task.items() if t.done()),
            'perm': perm,
            'pre_wait': pre_wait,
            'pre_sweep': pre_sweep,
        }
        return rec

    def micro_drain(self, r):
        self.obs = []
        for i, st in list(self.status.items()):
            if st == 'run' and not self.gate[i].done():
                self.gate[i].set_result('v')
            elif st == 'canc' and not self.gate2[i].done():
                self.gate2[i].set_result(None)
        accepted, refused, alive_at_exit, exit_seen = [], 0, None, False
        nid = 5000
        for it in range(400):
            self.loop.call_soon(self.loop.stop)
            self.loop.run_forever()
            if not exit_seen and any(o.startswith('jx') for o in self.obs):
                exit_seen = True
                alive_at_exit = sorted(i for i, t in self.task.items() if not t.done())
            if not exit_seen and it < 60 and r.random() < 0.5:
                nid += 1
                try:
                    self.mk(nid, r.random() < 0.3, ())
                    accepted.append((it, nid))
                except RuntimeError:
                    refused += 1
                    self.drop(nid)
            now = self.loop.time()
            if not self.loop._ready and not any(
                    not h.cancelled() and h.when() <= now for h in self.loop._scheduled):
                if exit_seen or it > 60:
                    break
        return {'accepted': accepted, 'refused': refused, 'exit_seen': exit_seen,
                'alive_at_exit': alive_at_exit, 'joined': bool(self.g.joined)}

    def close(self):
        try:
            for _ in range(4):
                for g in list(self.gate2.values()) + list(self.gate.values()):
                    if not g.done():
                        g.cancel()
                for t in asyncio.all_tasks(self.loop):
                    t.cancel()
                try:
                    self.idle()
                except Exception:
                    pass
                if not asyncio.all_tasks(self.loop):
                    break
        finally:
            asyncio.set_event_loop(None)
            self.loop.close()


# ---------------------------------------------------------------------- generation
def valid_actions(im, r, nmax=6, allow_consumer_during_join=True, allow_consumer=True,
                  extra=False):
    acts = []
    running = [i for i, s in im.status.items() if s == 'run']
    canc = [i for i, s in im.status.items() if s == 'canc']
    js = im.join_state
    n = len(im.status)
    if n < nmax and (js != 'exited' or r.random() < 0.15):
        nid = max(list(im.status) + [-1]) + 1
        if nid >= 100:
            nid = max([i for i in im.status if i < 100] + [-1]) + 1
        kids = tuple((100 + nid * 10 + k, r.random() < 0.3)
                     for k in range(r.choice([0, 0, 0, 1, 2])))
        acts.append(('S', nid, r.random() < 0.3, kids))
        acts.append(('S', nid, r.random() < 0.3, kids))
    for i in running:
        acts.append(('F', i, r.choice(['n', 'v', 'v', 'e'])))
        acts.append(('X', i))
    for i in canc:
        acts.append(('Y', i))
        acts.append(('Y', i))
        acts.append(('X', i))
    def adds():
        # tasks that have already finished when they are put into the group, right before the call
        base = 200 + 10 * len(im.status)
        return tuple((base + k, r.choice(['n', 'v', 'v', 'e'])) for k in range(r.choice([1, 1, 2, 3])))
    # (not while a next_done caller is parked: its wake-up is deferred to the next loop iteration
    # in the implementation but atomic in the model, which only matters inside such a back-to-back
    # step)
    parked = any(not t.done() for t in im.consumers.values())
    if js is None:
        acts.append(('J',))
        acts.append(('J',))
        acts.append(('E', r.choice([False, True, 'c'])))
        if n < nmax and not parked:
            acts.append(('J', adds()))
            acts.append(('E', r.choice([False, True]), adds()))
        if allow_consumer:
            acts.append(('N', len(im.consumers)))
            if n < nmax and not parked and r.random() < 0.5:
                acts.append(('N', len(im.consumers), adds()))
    elif js in ('active', 'cancelled'):
        acts.append(('K',))
        if allow_consumer and allow_consumer_during_join and len(im.consumers) < 3 \
                and r.random() < 0.3:
            acts.append(('N', len(im.consumers)))
    elif js == 'exited' and len(im.consumers) < 4 and allow_consumer:
        acts.append(('N', len(im.consumers)))
    if extra:
        # another task sweeps the group with cancel_remaining() - before or while join() runs
        # (not while a next_done caller is parked: a sweep can finish several members at once and
        # the hand-over of the permits to parked callers is atomic in the model, see above)
        if (running or canc) and len(im.sweepers) < 2 and js != 'exited' and not parked:
            acts.append(('R', len(im.sweepers)))
            if js is None:
                acts.append(('R', len(im.sweepers)))
        # a member's task is handed to the group (or to a second one) again
        if js != 'exited':
            fin = [i for i, s in im.status.items() if s == 'done' and i in im.task]
            for i in fin[:2]:
                acts.append(('A', i, r.random() < 0.3))
            if running and r.random() < 0.3:
                acts.append(('A', r.choice(running), r.random() < 0.3))
            if im.readds and allow_consumer and len(im.consumers) < 6 and js != 'exited':
                acts.append(('N', len(im.consumers)))
                acts.append(('N', len(im.consumers)))
    return acts


def adds_of(a):
    """the already-finished tasks a J / E / N action adds first"""
    n = {'J': 1, 'E': 2, 'N': 2}.get(a[0])
    return tuple(a[n]) if n is not None and len(a) > n else ()


def ser_action(a, perm):
    pre = ''.join(f'S {i} 0 - + F {i} {oc} - + ' for i, oc in adds_of(a))
    return pre + _ser_action(a, perm)


def _ser_action(a, perm):
    p = ','.join(map(str, perm)) if perm else '-'
    k = a[0]
    if k == 'S':
        ch = ','.join(f'{c}:{int(d)}' for c, d in a[3]) if a[3] else '-'
        return f'S {a[1]} {int(a[2])} {ch}'
    if k == 'F':
        return f'F {a[1]} {a[2]} {p}'
    if k in ('X', 'Y'):
        return f'{k} {a[1]} {p}'
    if k == 'J':
        return f'J {p}'
    if k == 'E':
        return f'E {"c" if a[1] == "c" else int(bool(a[1]))} {p}'
    if k == 'K':
        return f'K {p}'
    if k == 'N':
        return f'N {a[1]} {p}'
    if k == 'R':
        return f'R {p}'
    if k == 'A':
        return f'A {a[1]} {int(bool(a[2]))}'
    raise ValueError(a)


def parse_record(s):
    """`obs=.. j=.. c=.. d=..` -> (obs tuple, joined, completed, frozenset(done))"""
    f = dict(tok.split('=', 1) for tok in s.split(' ') if '=' in tok)
    # obs itself contains '=' for nd records: re-split carefully
    parts = s.split(' ')
    obs = parts[0][4:]
    j = parts[1][2:]
    c = parts[2][2:]
    d = parts[3][2:]
    return (tuple(sorted(x for x in obs.split(',') if x)), j == '1',
            None if c == '-' else int(c), frozenset(int(x) for x in d.split(',') if x))


def rec_key(rec):
    return (rec['obs'], rec['joined'], rec['completed'], rec['done'])


def drain(im, r, actions, recs, budget=24):
    """Append ordinary environment actions until every member task has finished (or the budget
    is used up): running members return / raise / are cancelled from outside, members reacting
    to a cancellation are released.  The actions are part of the trace (the model replays
    them); used so that a good share of the generated traces end with every member done - the
    situation in which `join()` must have returned."""
    n = 0
    if im.join_state is None and r.random() < 0.8:
        a = r.choice([('J',), ('J',), ('E', False), ('E', True)])
        actions.append(a)
        recs.append(im.act(a))
        n += 1
    while n < budget:
        todo = [(i, s) for i, s in im.status.items() if s != 'done']
        if not todo:
            break
        i, s = r.choice(todo)
        if s == 'run':
            a = r.choice([('F', i, r.choice(['n', 'v', 'v', 'e'])), ('F', i, 'v'), ('X', i)])
        else:
            a = ('Y', i)
        actions.append(a)
        recs.append(im.act(a))
        n += 1
    return n


def run_trace(repo, policy, actions_or_rng, max_steps=14, nmax=6, retain=False,
              consumer_during_join=True, micro_rng=None, drain_rng=None, consumers=True,
              min_spawns=0, extra=False):
    """Either replay a fixed action list or generate one with `rng`.  Returns
    (actions, records, impl snapshot for the oracles).  `drain_rng`: after the random part, go
    on (with ordinary actions) until every member has finished; `consumers=False`: no task other
    than the joiner ever calls next_done(); `min_spawns`: the trace starts with that many spawns."""
    im = Impl(repo, policy, retain=retain)
    try:
        actions, recs = [], []
        if isinstance(actions_or_rng, list):
            for a in actions_or_rng:
                actions.append(a)
                recs.append(im.act(a))
        else:
            r = actions_or_rng
            for _ in range(r.randint(3, max_steps)):
                acts = valid_actions(im, r, nmax, consumer_during_join, consumers, extra)
                if len(actions) < min_spawns:
                    acts = [a for a in acts if a[0] == 'S'] or acts
                if not acts:
                    break
                a = r.choice(acts)
                actions.append(a)
                recs.append(im.act(a))
            if drain_rng is not None:
                drain(im, drain_rng, actions, recs)
        snap = {
            'status': dict(im.status), 'outcome': dict(im.outcome), 'daemon': dict(im.daemon),
            'log': list(im.log), 'yielded': list(im.yielded), 'ext': set(im.ext_cancelled),
            'join_state': im.join_state, 'join_kind': im.join_kind,
            'joiner_done': im.joiner.done() if im.joiner else None,
            'waits_in': im.joiner_waits_in(),
            'pending': sorted(i for i in (im.ident(t) for t in im.g._pending) if i is not None),
            'drained': drain_rng is not None and not isinstance(actions_or_rng, list),
            'sweepers_done': {c: t.done() for c, t in im.sweepers.items()},
        }
        # micro-step probe (oracle only, not part of the model trace): let every unfinished member
        # finish, then advance the loop ONE iteration at a time and try to add a task from outside
        # at every iteration - whatever the group accepts must be finished when join returns
        if micro_rng is not None and im.join_state in ('active', 'cancelled') and not im.g.joined:
            snap['micro'] = im.micro_drain(micro_rng)
        # second-join probe (oracle only, not part of the model trace - the model has one joiner):
        # while the first join()/__aexit__ is still under way, or after it was cut short by a
        # cancellation, ANOTHER task calls group.join().  That call is a join like any other: when
        # it finishes, every task ever placed in the group must have finished (it may of course
        # stay blocked as long as a member is slow to die).
        elif im.join_state is not None and any(not t.done() for t in im.task.values()):
            async def second():
                await im.g.join()
            t2 = im.loop.create_task(second())
            im.idle()
            snap['second_join'] = {
                'finished': t2.done(),
                'alive': sorted(i for i, t in im.task.items() if not t.done()),
                'first_join': im.join_state,
                'first_done': im.joiner.done() if im.joiner else None}
            if t2.done() and not t2.cancelled():
                t2.exception()
        # "nothing can be added afterwards"
        if im.g.joined:
            snap['add_after_join'] = 'refused'
            for nid, dm in ((9999, False), (9998, True)):
                try:
                    im.mk(nid, dm, ())
                    snap['add_after_join'] = 'accepted' + (' (daemon)' if dm else '')
                except RuntimeError:
                    im.drop(nid)
            # ... nor a task that has already finished (returned / raised / cancelled)
            for kind in ('returned', 'raised', 'cancelled'):
                async def fin(kind=kind):
                    if kind == 'raised':
                        raise KeyError('finished')
                    if kind == 'cancelled':
                        raise asyncio.CancelledError()
                    return 1
                ft = im.loop.create_task(fin())
                im.idle()
                ntasks = len(im.g.tasks)
                try:
                    im.g._add_task(ft)
                    snap['add_after_join'] = f'accepted (already finished: {kind})'
                except RuntimeError:
                    pass
                if ft.done() and not ft.cancelled():
                    ft.exception()
        if im.g.joined:
            comp = im.g.completed
            try:
                exc = im.g.exception
                snap['exception_prop'] = None if exc is None else type(exc).__name__
            except BaseException as e:       # noqa
                snap['exception_prop'] = 'RAISED:' + type(e).__name__
            try:
                snap['result_prop'] = ('ok', im.g.result)
            except BaseException as e:       # noqa
                snap['result_prop'] = ('raised', type(e).__name__)
        return actions, recs, snap
    finally:
        im.close()


def model_line(policy, actions, recs):
    return policy + ' ; ' + ' ; '.join(ser_action(a, r['perm']) for a, r in zip(actions, recs))
